// native replay builds only: Debug::printf without pulling in src/Debug.cpp
#include <nstd/Debug.hpp>
#include <stdarg.h>
#include <stdio.h>
int Debug::print(const char* str) { fputs(str, stdout); return 1; }
int Debug::printf(const char* format, ...) { va_list ap; va_start(ap, format); int r = vprintf(format, ap); va_end(ap); return r > 0 ? r : 1; }
