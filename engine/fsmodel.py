"""POSIX directory-tree model for C19 (mkdir/rmdir/unlink/stat/lstat/opendir/readdir/closedir, open with O_CREAT/O_EXCL, close,
rename), written from the man pages.
State: st.ghost['fs'] : dict normalised-path -> ('d',) | ('f',) | ('l', target).  '' is the root directory, which is also the
working directory (absolute and relative paths name the same entries); an empty path *string* names nothing (ENOENT)."""
import ops
from mem import MemError

ENOENT, EEXIST, ENOTDIR, EISDIR, ENOTEMPTY, EACCES, ELOOP = 2, 17, 20, 21, 39, 13, 40
S_IFDIR, S_IFREG, S_IFLNK = 0o040000, 0o100000, 0o120000
DT_DIR, DT_REG, DT_LNK = 4, 8, 10

class FS(dict):
    def copy(self):
        f = FS(self); f.fail = dict(self.fail); f.calls = dict(self.calls); f.log = list(self.log); f.dirs = dict(self.dirs)
        return f
def fs(st):
    f = st.ghost.get('fs')
    if f is None:
        f = FS(); f[''] = ('d',); f.fail = {}; f.calls = {}; f.log = []; f.dirs = {}
        st.ghost['fs'] = f
    return f

def norm(p):
    out = []
    for c in p.split('/'):
        if c in ('', '.'): continue
        if c == '..':
            if out: out.pop()
            continue
        out.append(c)
    return '/'.join(out)

def resolve(f, p, follow=True, depth=0):
    """-> (normalised path, entry or None, errno)"""
    p = norm(p)
    if depth > 8: return p, None, ELOOP
    parts = p.split('/') if p else []
    cur = ''
    for i, c in enumerate(parts):
        e = f.get(cur)
        if e is None: return p, None, ENOENT
        if e[0] == 'l':
            cur, e, err = resolve(f, e[1], True, depth + 1)
            if e is None: return p, None, err
        if e[0] != 'd': return p, None, ENOTDIR
        cur = (cur + '/' + c) if cur else c
    e = f.get(cur)
    if e is None: return cur, None, ENOENT
    if e[0] == 'l' and follow:
        return resolve(f, e[1], True, depth + 1)
    return cur, e, 0

def parent(p): return p.rsplit('/', 1)[0] if '/' in p else ''

def register(builtin):
    import builtins_ as B
    def cstr(st, a): return st.mem.read_cstr(a).decode('latin1')
    def err(ex, st, e):
        st.mem.store(B.b_errno(ex, st, [], None), 4, e); return ops.mask(32)
    def injected(f, name):
        f.calls[name] = f.calls.get(name, 0) + 1
        e = f.fail.get((name, f.calls[name]))
        return e

    @builtin('mkdir')
    def b_mkdir(ex, st, args, ins):
        f = fs(st); p = cstr(st, args[0]); f.log.append(('mkdir', norm(p)))
        e = injected(f, 'mkdir')
        if e: return err(ex, st, e)
        if p == '': return err(ex, st, ENOENT)          # an empty pathname names nothing
        n = norm(p)
        if n in f or n == '': return err(ex, st, EEXIST)
        pp, pe, perr = resolve(f, parent(n))
        if pe is None: return err(ex, st, perr)
        if pe[0] != 'd': return err(ex, st, ENOTDIR)
        f[(pp + '/' if pp else '') + n.rsplit('/', 1)[-1]] = ('d',)
        return 0

    @builtin('rmdir')
    def b_rmdir(ex, st, args, ins):
        f = fs(st); p = cstr(st, args[0]); f.log.append(('rmdir', norm(p)))
        e = injected(f, 'rmdir')
        if e: return err(ex, st, e)
        if p == '': return err(ex, st, ENOENT)
        n, ent, er = resolve(f, p, follow=False)
        if ent is None: return err(ex, st, er)
        if ent[0] != 'd': return err(ex, st, ENOTDIR)
        if any(k != n and parent(k) == n for k in f): return err(ex, st, ENOTEMPTY)
        if n == '': return err(ex, st, EACCES)
        del f[n]
        return 0

    @builtin('unlink')
    def b_unlink(ex, st, args, ins):
        f = fs(st); p = cstr(st, args[0]); f.log.append(('unlink', norm(p)))
        e = injected(f, 'unlink')
        if e: return err(ex, st, e)
        if p == '': return err(ex, st, ENOENT)
        n, ent, er = resolve(f, p, follow=False)
        if ent is None: return err(ex, st, er)
        if ent[0] == 'd': return err(ex, st, EISDIR)
        del f[n]
        return 0

    def do_stat(ex, st, args, follow):
        f = fs(st); p = cstr(st, args[0])
        if p == '': return err(ex, st, ENOENT)          # an empty pathname names nothing
        n, ent, er = resolve(f, p, follow=follow)
        if ent is None: return err(ex, st, er)
        mode = {'d': S_IFDIR | 0o755, 'f': S_IFREG | 0o644, 'l': S_IFLNK | 0o777}[ent[0]]
        st.mem.memset(args[1], 0, 144)
        st.mem.store(args[1] + 24, 4, mode)
        return 0
    @builtin('stat', 'stat64', '__xstat')
    def b_stat(ex, st, args, ins): return do_stat(ex, st, args[-2:], True)
    @builtin('lstat', 'lstat64', '__lxstat')
    def b_lstat(ex, st, args, ins): return do_stat(ex, st, args[-2:], False)

    @builtin('opendir')
    def b_opendir(ex, st, args, ins):
        f = fs(st); p = cstr(st, args[0])
        if p == '': err(ex, st, ENOENT); return 0
        n, ent, er = resolve(f, p, follow=True)
        if ent is None: err(ex, st, er); return 0
        if ent[0] != 'd': err(ex, st, ENOTDIR); return 0
        h = B._alloc(ex, st, 300, 'malloc', ins)
        names = ['.', '..'] + sorted(k.rsplit('/', 1)[-1] for k in f if k != n and parent(k) == n)
        f.dirs[h] = [n, names, 0]
        return h
    @builtin('readdir', 'readdir64')
    def b_readdir(ex, st, args, ins):
        f = fs(st); h = args[0]; d = f.dirs.get(h)
        if d is None: raise MemError('fs', 'readdir on a handle that is not open')
        n, names, i = d
        while i < len(names):
            nm = names[i]; i += 1
            full = n if nm in ('.', '..') else ((n + '/' if n else '') + nm)
            ent = f.get(full) if nm not in ('.', '..') else ('d',)
            if ent is None: continue                     # removed meanwhile
            d[2] = i
            st.mem.memset(h, 0, 300)
            st.mem.store(h + 18, 1, {'d': DT_DIR, 'f': DT_REG, 'l': DT_LNK}[ent[0]])
            for k, ch in enumerate(nm.encode('latin1')): st.mem.store(h + 19 + k, 1, ch)
            st.mem.store(h + 19 + len(nm), 1, 0)
            return h
        d[2] = i
        return 0
    @builtin('closedir')
    def b_closedir(ex, st, args, ins):
        f = fs(st)
        if args[0] not in f.dirs: raise MemError('fs', 'closedir on a handle that is not open')
        del f.dirs[args[0]]
        B._free(ex, st, args[0], 'malloc')
        return 0

    # open (creation only matters here), close, rename - for File::rename / File::copy style placeholder files
    O_CREAT, O_EXCL = 0o100, 0o200
    @builtin('open', 'open64')
    def b_open(ex, st, args, ins):
        f = fs(st); p = cstr(st, args[0]); flags = args[1] if isinstance(args[1], int) else ex.concretize(st, args[1], 32, 'open flags')
        f.log.append(('open', norm(p)))
        e = injected(f, 'open')
        if e: return err(ex, st, e)
        if p == '': return err(ex, st, ENOENT)
        n, ent, er = resolve(f, p, follow=True)
        if ent is None:
            if er != ENOENT or not (flags & O_CREAT): return err(ex, st, er)
            nn = norm(p); pp, pe, perr = resolve(f, parent(nn))
            if pe is None: return err(ex, st, perr)
            if pe[0] != 'd': return err(ex, st, ENOTDIR)
            f[(pp + '/' if pp else '') + nn.rsplit('/', 1)[-1]] = ('f',)
        else:
            if (flags & O_CREAT) and (flags & O_EXCL): return err(ex, st, EEXIST)
            if ent[0] == 'd' and (flags & 3): return err(ex, st, EISDIR)
        fds = dict(st.ghost.get('fs_fds', {})); fd = 1000 + len(fds) + st.ghost.get('fs_fd_closed', 0); fds[fd] = n if ent is not None else norm(p); st.ghost['fs_fds'] = fds
        return fd
    _prev_close = B.TABLE.get('close')
    @builtin('close')
    def b_close(ex, st, args, ins):
        fd = args[0]
        if isinstance(fd, int) and fd >= 1000:
            fds = dict(st.ghost.get('fs_fds', {}))
            if fd not in fds: raise MemError('fs', 'close of a file descriptor that is not open (%d)' % fd)
            del fds[fd]; st.ghost['fs_fds'] = fds; st.ghost['fs_fd_closed'] = st.ghost.get('fs_fd_closed', 0) + 1
            return 0
        return _prev_close(ex, st, args, ins)
    @builtin('rename')
    def b_rename(ex, st, args, ins):
        f = fs(st); a = cstr(st, args[0]); b = cstr(st, args[1]); f.log.append(('rename', norm(a)))
        e = injected(f, 'rename')
        if e: return err(ex, st, e)
        if a == '' or b == '': return err(ex, st, ENOENT)
        na, ea, era = resolve(f, a, follow=False)
        if ea is None: return err(ex, st, era)
        nbn = norm(b); pp, pe, perr = resolve(f, parent(nbn))
        if pe is None: return err(ex, st, perr)
        if pe[0] != 'd': return err(ex, st, ENOTDIR)
        nb = (pp + '/' if pp else '') + nbn.rsplit('/', 1)[-1]
        eb = f.get(nb)
        if nb == na: return 0
        if eb is not None:
            if ea[0] == 'd' and eb[0] != 'd': return err(ex, st, ENOTDIR)
            if ea[0] != 'd' and eb[0] == 'd': return err(ex, st, EISDIR)
            if eb[0] == 'd' and any(k != nb and parent(k) == nb for k in f): return err(ex, st, ENOTEMPTY)
        if ea[0] == 'd' and (nb + '/').startswith(na + '/'): return err(ex, st, 22)
        moved = [(k, v) for k, v in f.items() if k == na or k.startswith(na + '/')]
        for k, v in moved: del f[k]
        for k, v in moved: f[nb + k[len(na):]] = v
        return 0
    @builtin('lseek', 'lseek64')
    def b_lseek(ex, st, args, ins):
        f = fs(st)
        e = injected(f, 'lseek')
        if e: return err(ex, st, e) | (ops.mask(64) ^ ops.mask(32))      # (off_t)-1
        if args[0] not in st.ghost.get('fs_fds', {}): return err(ex, st, 9) | (ops.mask(64) ^ ops.mask(32))
        return 0                                                          # files of the model have no content: every offset / size is 0
    @builtin('sendfile', 'sendfile64')
    def b_sendfile(ex, st, args, ins):
        f = fs(st); fds = st.ghost.get('fs_fds', {})
        e = injected(f, 'sendfile')
        if e: return err(ex, st, e) | (ops.mask(64) ^ ops.mask(32))
        if args[0] not in fds or args[1] not in fds: return err(ex, st, 9) | (ops.mask(64) ^ ops.mask(32))
        src = f.get(fds[args[1]])
        if src is None or src[0] == 'd': return err(ex, st, 22) | (ops.mask(64) ^ ops.mask(32))   # EINVAL: not a regular file
        return 0
    @builtin('vf_fs_open_fds')
    def vf_fs_open_fds(ex, st, args, ins): return len(st.ghost.get('fs_fds', {}))

    # harness intrinsics
    @builtin('vf_fs_add')
    def vf_fs_add(ex, st, args, ins):
        f = fs(st); p = norm(cstr(st, args[0])); kind = args[1]
        f[p] = ('d',) if kind == 1 else ('f',) if kind == 2 else ('l', norm(cstr(st, args[2])))
        return None
    @builtin('vf_fs_kind')
    def vf_fs_kind(ex, st, args, ins):
        n, e, er = resolve(fs(st), cstr(st, args[0]), follow=False)     # intermediate symbolic links are followed, the last component is not
        return 0 if e is None else {'d': 1, 'f': 2, 'l': 3}[e[0]]
    @builtin('vf_fs_fail')
    def vf_fs_fail(ex, st, args, ins):
        f = fs(st); f.fail[(cstr(st, args[0]), args[1])] = args[2]; return None
    @builtin('vf_fs_touched_outside')
    def vf_fs_touched_outside(ex, st, args, ins):
        """number of unlink/rmdir calls issued for a path that is not the tree root or below it"""
        f = fs(st); root = norm(cstr(st, args[0])); n = 0
        for op, p in f.log:
            if op in ('unlink', 'rmdir') and not (p == root or p.startswith(root + '/')): n += 1
        return n
