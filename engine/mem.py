"""Copy-on-write byte-addressed memory for the symbolic executor.

Flat concrete address space. Three regions (globals / heap / stack); every object has guard gaps around it,
so an access is valid only if [addr, addr+n) lies inside one live object.
Cells: obj.cells[offset] = (nbytes, value) with value an int or a z3 bit-vector of nbytes*8 bits.
Missing bytes are uninitialised.
"""
import bisect
import z3

GLOBAL_BASE = 0x0000100000
HEAP_BASE   = 0x0010000000
STACK_BASE  = 0x0700000000
FUNC_BASE   = 0x0000001000
GAP = 64

class MemError(Exception):
    def __init__(self, kind, msg):
        Exception.__init__(self, msg); self.kind = kind; self.msg = msg

class Obj:
    __slots__ = ('id', 'base', 'size', 'kind', 'alive', 'cells', 'owner', 'name', 'const', 'how', 'shared')
    def __init__(self, id, base, size, kind, name, owner):
        self.id = id; self.base = base; self.size = size; self.kind = kind; self.alive = True
        self.cells = {}; self.owner = owner; self.name = name; self.const = False; self.how = None
        self.shared = False
    def clone(self, owner):
        o = Obj(self.id, self.base, self.size, self.kind, self.name, owner)
        o.alive = self.alive; o.cells = dict(self.cells); o.const = self.const; o.how = self.how; o.shared = self.shared
        return o

def _extract(val, nbytes, lo, n):
    """bytes [lo, lo+n) (little endian) of an nbytes-wide value"""
    if isinstance(val, int):
        return (val >> (8 * lo)) & ((1 << (8 * n)) - 1)
    return z3.simplify(z3.Extract(8 * (lo + n) - 1, 8 * lo, val))

class Memory:
    def __init__(self):
        self.owner = object()
        self.objs = {}          # base -> Obj
        self.gbases = []; self.hbases = []; self.sbases = []
        self.gnext = GLOBAL_BASE; self.hnext = HEAP_BASE; self.snext = STACK_BASE
        self.nextid = 1
        self.undef_count = 0
        self.heap_live = 0

    def fork(self):
        m = Memory.__new__(Memory)
        m.owner = object(); self.owner = object()
        m.objs = dict(self.objs)
        m.gbases = self.gbases            # globals never change after init
        m.hbases = list(self.hbases); m.sbases = list(self.sbases)
        m.gnext = self.gnext; m.hnext = self.hnext; m.snext = self.snext
        m.nextid = self.nextid; m.undef_count = self.undef_count; m.heap_live = self.heap_live
        return m

    # ---- allocation
    def alloc(self, size, kind, name=''):
        if kind == 'global':
            base = self.gnext; self.gnext = (base + size + GAP + 15) & ~15; self.gbases.append(base)
        elif kind == 'heap':
            base = self.hnext; self.hnext = (base + size + GAP + 15) & ~15; self.hbases.append(base); self.heap_live += 1
        else:
            base = self.snext; self.snext = (base + size + GAP + 15) & ~15; self.sbases.append(base)
        o = Obj(self.nextid, base, size, kind, name, self.owner); self.nextid += 1
        self.objs[base] = o
        return o

    def free_stack(self, base):
        # LIFO in practice
        sb = self.sbases
        if sb and sb[-1] == base: sb.pop()
        else: sb.remove(base)
        del self.objs[base]
        if sb:
            top = self.objs[sb[-1]]
            self.snext = (top.base + top.size + GAP + 15) & ~15
        else:
            self.snext = STACK_BASE

    def free_heap(self, addr, how=None):
        o = self.objs.get(addr)
        if o is None or o.kind != 'heap':
            o2 = self.find(addr)
            if o2 is not None and o2.kind == 'heap' and not o2.alive:
                raise MemError('double-free', 'free of pointer inside freed object %s' % o2.name)
            raise MemError('bad-free', 'free of non-heap or interior pointer 0x%x' % addr)
        if not o.alive:
            raise MemError('double-free', 'double free of %s' % o.name)
        if how is not None and o.how is not None and how != o.how:
            raise MemError('mismatched-free', 'object %s allocated with %s freed with %s' % (o.name, o.how, how))
        o = self.writable(o)
        o.alive = False; o.cells = {}
        self.heap_live -= 1

    def find(self, addr):
        if addr >= STACK_BASE: bases = self.sbases
        elif addr >= HEAP_BASE: bases = self.hbases
        else: bases = self.gbases
        i = bisect.bisect_right(bases, addr) - 1
        if i < 0: return None
        return self.objs.get(bases[i])

    def writable(self, o):
        if o.owner is not self.owner:
            o = o.clone(self.owner); self.objs[o.base] = o
        return o

    def resolve(self, addr, n, write=False):
        """-> (obj, offset); raises MemError"""
        o = self.find(addr)
        if o is None:
            if addr == 0 or addr < 4096: raise MemError('null-deref', 'access through null pointer (0x%x)' % addr)
            raise MemError('wild', 'access to unmapped address 0x%x' % addr)
        off = addr - o.base
        if off + n > o.size:
            raise MemError('out-of-bounds', '%s of %d bytes at offset %d of object %s (size %d)' % ('write' if write else 'read', n, off, o.name, o.size))
        if not o.alive:
            raise MemError('use-after-free', 'access to freed object %s' % o.name)
        if write:
            if o.const: raise MemError('const-write', 'write to constant %s' % o.name)
            o = self.writable(o)
        return o, off

    # ---- cell access
    def load(self, addr, n):
        """returns int / z3 BV(8n) ; uninitialised bytes become fresh 'undef!' symbols (stored back)"""
        o, off = self.resolve(addr, n)
        c = o.cells.get(off)
        if c is not None and c[0] == n:
            return c[1]
        return self._load_slow(o, off, n)

    def _byte(self, o, off):
        """value of the single byte at off, or None if uninitialised"""
        cells = o.cells
        c = cells.get(off)
        if c is not None:
            return c[1] if c[0] == 1 else _extract(c[1], c[0], 0, 1)
        for k in range(1, 16):
            c = cells.get(off - k)
            if c is not None:
                if c[0] > k: return _extract(c[1], c[0], k, 1)
                return None
        return None

    def _load_slow(self, o, off, n):
        # common case: the range lies inside one bigger cell
        cells = o.cells
        for k in range(0, 16):
            c = cells.get(off - k)
            if c is not None:
                if c[0] >= k + n:
                    return _extract(c[1], c[0], k, n)
                break
        parts = []
        for i in range(n):
            b = self._byte(o, off + i)
            if b is None:
                b = self.fresh_undef(o, off + i)
                o = self.objs[o.base]
            parts.append(b)
        if all(isinstance(b, int) for b in parts):
            v = 0
            for i, b in enumerate(parts): v |= b << (8 * i)
            return v
        zs = [b if not isinstance(b, int) else z3.BitVecVal(b, 8) for b in parts]
        zs.reverse()
        return z3.simplify(z3.Concat(*zs)) if len(zs) > 1 else zs[0]

    def fresh_undef(self, o, off):
        self.undef_count += 1
        b = z3.BitVec('undef!%d!%s+%d' % (self.undef_count, o.name, off), 8)
        if o.owner is not self.owner:
            o = self.writable(o)
        o.cells[off] = (1, b)
        return b

    def store(self, addr, n, val):
        o, off = self.resolve(addr, n, True)
        self._store(o, off, n, val)

    def _store(self, o, off, n, val):
        cells = o.cells
        c = cells.get(off)
        if c is not None and c[0] == n:
            cells[off] = (n, val); return
        self._punch(o, off, n)
        cells[off] = (n, val)

    def _punch(self, o, off, n):
        """remove every cell byte in [off, off+n), splitting partially covered cells into byte cells"""
        cells = o.cells
        end = off + n
        for start in range(max(0, off - 15), end):
            c = cells.get(start)
            if c is None: continue
            cend = start + c[0]
            if cend <= off: continue
            if start >= off and cend <= end:
                del cells[start]; continue
            # partial overlap -> split to bytes outside the range
            del cells[start]
            for i in range(c[0]):
                p = start + i
                if p < off or p >= end:
                    cells[p] = (1, _extract(c[1], c[0], i, 1))

    def memset(self, addr, val, n):
        if n == 0: return
        o, off = self.resolve(addr, n, True)
        self._punch(o, off, n)
        cells = o.cells
        i = 0
        if isinstance(val, int):
            v8 = int.from_bytes(bytes([val]) * 8, 'little')
            while i < n:
                if (off + i) % 8 == 0 and n - i >= 8:
                    cells[off + i] = (8, v8); i += 8
                else:
                    cells[off + i] = (1, val); i += 1
        else:
            for i in range(n): cells[off + i] = (1, val)

    def memcpy(self, dst, src, n):
        """memmove semantics; keeps whole cells, keeps uninitialised bytes uninitialised"""
        if n == 0: return
        so, soff = self.resolve(src, n)
        items = []
        cells = so.cells
        p = soff; end = soff + n
        while p < end:
            c = cells.get(p)
            if c is not None and p + c[0] <= end:
                items.append((p - soff, c[0], c[1])); p += c[0]; continue
            b = self._byte(so, p)
            if b is None:
                # copying an uninitialised byte: name it once so that source and copy stay equal (still tainted 'undef!')
                b = self.fresh_undef(so, p); so = self.objs[so.base]; cells = so.cells
            items.append((p - soff, 1, b))
            p += 1
        do, doff = self.resolve(dst, n, True)
        self._punch(do, doff, n)
        dc = do.cells
        for rel, sz, v in items:
            dc[doff + rel] = (sz, v)

    def read_cstr(self, addr, limit=4096):
        """concrete NUL-terminated string (engine-side use: assertion messages, format strings)"""
        out = bytearray()
        for i in range(limit):
            b = self.load(addr + i, 1)
            if not isinstance(b, int):
                raise MemError('symbolic-cstr', 'symbolic byte in engine-side C string')
            if b == 0: break
            out.append(b)
        return bytes(out)

    def live_heap(self):
        return [self.objs[b] for b in self.hbases if self.objs[b].alive]
