"""Engine built-ins: vf_* harness intrinsics, allocator, libc string functions, llvm.* intrinsics."""
import z3
import ops
from ops import binop, icmp, zext, sext, trunc, select, to_bv, to_bool, simp
from mem import MemError
from irparse import IntT, PtrT, FloatT

class Blocked(Exception):
    pass

def _PathEnd(reason):
    from symex import PathEnd
    return PathEnd(reason)

def _Unsupported(msg):
    from symex import Unsupported
    return Unsupported(msg)

TABLE = {}
def builtin(*names):
    def deco(f):
        for n in names: TABLE[n] = f
        return f
    return deco

# ------------------------------------------------------------------------------------ harness intrinsics

@builtin('vf_u8')
def vf_u8(ex, st, args, ins): return ex.fresh(st, 'u8', 8)
@builtin('vf_u16')
def vf_u16(ex, st, args, ins): return ex.fresh(st, 'u16', 16)
@builtin('vf_u32')
def vf_u32(ex, st, args, ins): return ex.fresh(st, 'u32', 32)
@builtin('vf_u64')
def vf_u64(ex, st, args, ins): return ex.fresh(st, 'u64', 64)

@builtin('vf_choose')
def vf_choose(ex, st, args, ins):
    n = args[0]
    if not isinstance(n, int): n = ex.concretize(st, n, 32, 'choose-n')
    v = ex.fresh(st, 'choose%d' % n, 32)
    if isinstance(v, int):
        if v >= n: raise _PathEnd('assume')
        return v
    _assume(ex, st, z3.ULT(v, z3.BitVecVal(n, 32)))
    return v

@builtin('vf_pick')
def vf_pick(ex, st, args, ins):
    """value in [0,n): the path is split per concrete value at once (no solver call: every value is feasible)"""
    p = st.ghost.get('pick')
    if p is not None and p[0] == id(ins) and p[1] == len(st.inputs):
        st.ghost.pop('pick', None)          # sibling re-executing the call: take the value assigned at the fork
        st.inputs.append(('pick', p[2]))
        return p[2]
    n = args[0]
    if not isinstance(n, int): n = ex.concretize(st, n, 32, 'pick-n')
    if ex.replay is not None:
        v = ex.fresh(st, 'pick', 32)
        if v >= n: raise _PathEnd('assume')
        return v
    if n == 0: raise _PathEnd('assume')
    k = len(st.inputs)
    for i in range(n - 1, 0, -1):
        sib = st.fork(); sib.ghost['pick'] = (id(ins), k, i); sib.decisions.append(('pick', i))
        ex.push_state(sib)
    st.inputs.append(('pick', 0))
    return 0

@builtin('vf_range')
def vf_range(ex, st, args, ins):
    lo, hi = args[0], args[1]
    if not isinstance(lo, int): lo = ex.concretize(st, lo, 32, 'range-lo')
    if not isinstance(hi, int): hi = ex.concretize(st, hi, 32, 'range-hi')
    v = ex.fresh(st, 'range', 32)
    if isinstance(v, int):
        if not (lo <= v <= hi): raise _PathEnd('assume')
        return v
    _assume(ex, st, z3.And(z3.UGE(v, z3.BitVecVal(lo, 32)), z3.ULE(v, z3.BitVecVal(hi, 32))))
    return v

def _assume(ex, st, c):
    c = simp(to_bool(c))
    if isinstance(c, int):
        if not c: raise _PathEnd('assume')
        return
    if ex.eval_bool(st, c):
        ex.add_constraint(st, c); return
    r, m = ex.check(st, c)
    if r == 'sat':
        ex.add_constraint(st, c, m)
    else:
        if r == 'unknown': ex.note_unsupported('solver-unknown-on-assume')
        raise _PathEnd('assume')

@builtin('vf_assume')
def vf_assume(ex, st, args, ins):
    _assume(ex, st, args[0])

@builtin('vf_assert')
def vf_assert(ex, st, args, ins):
    c = simp(to_bool(args[0]))
    st.asserts += 1
    if isinstance(c, int):
        ex.stats['asserts_concrete'] += 1
        if not c:
            msg = ex_cstr(ex, st, args[1])
            ex.violation(st, 'assert', msg)
        return
    ex.stats['asserts_checked'] += 1
    if ex.mentions_undef(st, c):
        msg = ex_cstr(ex, st, args[1])
        ex.violation(st, 'uninitialised-read', 'assertion "%s" depends on uninitialised memory' % msg, fatal=False)
    holds = ex.eval_bool(st, c)
    if not holds:
        msg = ex_cstr(ex, st, args[1])
        ex.violation(st, 'assert', msg)         # the current model is already a counterexample; the path ends here
    vals = _random_falsify(ex, st, c)
    if vals is not None:
        msg = ex_cstr(ex, st, args[1])
        ex.violation(st, 'assert', msg, model=vals)
    r, m = ex.check(st, z3.Not(c))
    if r == 'sat':
        msg = ex_cstr(ex, st, args[1])
        ex.violation(st, 'assert', msg, model=m, fatal=False)
    elif r == 'unknown':
        ex.note_unsupported('solver-unknown-on-assert')
    ex.add_constraint(st, c)

def _random_falsify(ex, st, c, tries=3):
    """cheap pre-check for very large assertions (hash-like terms): a few random input vectors that satisfy the path
    condition; returns a z3 model-like object or None. The solver still decides when nothing is found."""
    if not st.inputs or len(st.pc) > 8 or c.sexpr().__len__() < 20000: return None
    import random
    syms = [t for k, t in st.inputs if not isinstance(t, int)]
    for _ in range(tries):
        sub = [(t, z3.BitVecVal(random.getrandbits(t.size()), t.size())) for t in syms]
        if all(z3.is_true(z3.simplify(z3.substitute(p, *sub))) for p in st.pc):
            if z3.is_false(z3.simplify(z3.substitute(c, *sub))):
                return _SubstModel(sub)
    return None

class _SubstModel:
    def __init__(self, sub): self.sub = sub
    def eval(self, t, completion=True): return z3.simplify(z3.substitute(t, *self.sub))

@builtin('vf_fail')
def vf_fail(ex, st, args, ins):
    ex.violation(st, 'assert', ex_cstr(ex, st, args[0]))

def ex_cstr(ex, st, a):
    if not isinstance(a, int): return '<symbolic message>'
    try: return st.mem.read_cstr(a).decode('latin1')
    except MemError: return '<unreadable message>'

@builtin('vf_bytes')
def vf_bytes(ex, st, args, ins):
    p, n = args[0], args[1]
    if not isinstance(n, int): n = ex.concretize(st, n, 64, 'vf_bytes n')
    for i in range(n):
        st.mem.store(p + i, 1, ex.fresh(st, 'u8', 8))

@builtin('vf_reach')
def vf_reach(ex, st, args, ins):
    st.reached.add(ex_cstr(ex, st, args[0]))

@builtin('vf_trace')
def vf_trace(ex, st, args, ins):
    v = args[0]
    if ex.replay is not None: st.trace.append(v if isinstance(v, int) else ex.eval_int(st, v))
    else: st.trace.append(v if isinstance(v, int) else '?')

@builtin('vf_alloc')
def vf_alloc(ex, st, args, ins):
    return _alloc(ex, st, args[0], 'vf_alloc', ins)

@builtin('vf_free')
def vf_free(ex, st, args, ins):
    _free(ex, st, args[0], 'vf_alloc')

@builtin('vf_is_symbolic')
def vf_is_symbolic(ex, st, args, ins): return 1 if ex.replay is None else 0

@builtin('vf_concretize')
def vf_concretize(ex, st, args, ins):
    return ex.concretize(st, args[0], 64, 'vf_concretize')

@builtin('vf_heap_live')
def vf_heap_live(ex, st, args, ins): return st.mem.heap_live

@builtin('vf_valid')
def vf_valid(ex, st, args, ins):
    """1 iff [p, p+n) lies inside one live object"""
    p, n = args
    if not isinstance(p, int): p = ex.concretize(st, p, 64, 'vf_valid p')
    if not isinstance(n, int): n = ex.concretize(st, n, 64, 'vf_valid n')
    try:
        st.mem.resolve(p, n); return 1
    except MemError:
        return 0

@builtin('vf_objsize')
def vf_objsize(ex, st, args, ins):
    p = args[0]
    o = st.mem.find(p)
    if o is None or o.base != p or not o.alive: return ops.mask(64)
    return o.size

# ------------------------------------------------------------------------------------ allocator

def _alloc(ex, st, n, how, ins):
    if not isinstance(n, int): n = ex.concretize(st, n, 64, 'allocation size')
    if n > ex.max_alloc:
        raise MemError('alloc-bound', 'allocation of %d bytes exceeds the engine bound %d (size overflow?)' % (n, ex.max_alloc))
    o = st.mem.alloc(max(n, 1), 'heap', '%s#%d(%d)' % (how, st.mem.nextid, n))
    o.size = n if n > 0 else 0
    if n == 0: o.size = 0
    o.how = how
    return o.base

def _free(ex, st, p, how):
    if not isinstance(p, int): p = ex.concretize(st, p, 64, 'free ptr')
    if p == 0: return
    st.mem.free_heap(p, how)

@builtin('_Znwm')
def op_new(ex, st, args, ins): return _alloc(ex, st, args[0], 'new', ins)
@builtin('_Znam')
def op_new_arr(ex, st, args, ins): return _alloc(ex, st, args[0], 'new[]', ins)
@builtin('_ZdlPv', '_ZdlPvm')
def op_delete(ex, st, args, ins): _free(ex, st, args[0], 'new')
@builtin('_ZdaPv', '_ZdaPvm')
def op_delete_arr(ex, st, args, ins): _free(ex, st, args[0], 'new[]')
@builtin('malloc')
def b_malloc(ex, st, args, ins): return _alloc(ex, st, args[0], 'malloc', ins)
@builtin('calloc')
def b_calloc(ex, st, args, ins):
    n = binop('mul', args[0], args[1], 64)
    p = _alloc(ex, st, n, 'malloc', ins)
    o = st.mem.find(p)
    if o.size: st.mem.memset(p, 0, o.size)
    return p
@builtin('free')
def b_free(ex, st, args, ins): _free(ex, st, args[0], 'malloc')
@builtin('realloc')
def b_realloc(ex, st, args, ins):
    p, n = args
    if not isinstance(p, int): p = ex.concretize(st, p, 64, 'realloc ptr')
    q = _alloc(ex, st, n, 'malloc', ins)
    if p:
        o = st.mem.find(p)
        if o is None or o.base != p: raise MemError('bad-free', 'realloc of non-heap pointer')
        qo = st.mem.find(q)
        st.mem.memcpy(q, p, min(o.size, qo.size))
        _free(ex, st, p, 'malloc')
    return q

# ------------------------------------------------------------------------------------ libc memory / string

def _len(ex, st, n, what):
    if not isinstance(n, int): n = ex.concretize(st, n, 64, what)
    return n

def _ptr(ex, st, p, what='pointer'):
    if not isinstance(p, int): p = ex.concretize(st, p, 64, what)
    return p

@builtin('memmove')
def b_memmove(ex, st, args, ins):
    d = _ptr(ex, st, args[0]); s = _ptr(ex, st, args[1]); n = _len(ex, st, args[2], 'memcpy n')
    if n: st.mem.memcpy(d, s, n)
    return d
@builtin('memcpy')
def b_memcpy(ex, st, args, ins):
    d = _ptr(ex, st, args[0]); s = _ptr(ex, st, args[1]); n = _len(ex, st, args[2], 'memcpy n')
    if n and d != s and d < s + n and s < d + n:
        raise MemError('memcpy-overlap', 'memcpy with overlapping ranges: dest %#x, src %#x, %d bytes (undefined behaviour; memmove is required)' % (d, s, n))
    if n: st.mem.memcpy(d, s, n)
    return d

@builtin('memset')
def b_memset(ex, st, args, ins):
    d = _ptr(ex, st, args[0]); n = _len(ex, st, args[2], 'memset n')
    v = args[1]
    v = v & 0xff if isinstance(v, int) else z3.Extract(7, 0, v)
    if n: st.mem.memset(d, v, n)
    return d

def _cmp_bytes(ex, st, a, b):
    """three-way compare of two byte values, forking when symbolic; returns -1/0/1"""
    if isinstance(a, int) and isinstance(b, int):
        return (a > b) - (a < b)
    eq = icmp('eq', a, b, 8)
    if ex.concretize_bool(st, eq): return 0
    lt = icmp('ult', a, b, 8)
    return -1 if ex.concretize_bool(st, lt) else 1

@builtin('memcmp', 'bcmp')
def b_memcmp(ex, st, args, ins):
    p = _ptr(ex, st, args[0]); q = _ptr(ex, st, args[1]); n = _len(ex, st, args[2], 'memcmp n')
    if n:
        st.mem.resolve(p, n); st.mem.resolve(q, n)
    for i in range(n):
        c = _cmp_bytes(ex, st, st.mem.load(p + i, 1), st.mem.load(q + i, 1))
        if c: return c & ops.mask(32)
    return 0

def _is_zero(ex, st, b):
    if isinstance(b, int): return b == 0
    return bool(ex.concretize_bool(st, icmp('eq', b, 0, 8)))

@builtin('strlen')
def b_strlen(ex, st, args, ins):
    p = _ptr(ex, st, args[0]); i = 0
    while True:
        b = st.mem.load(p + i, 1)
        if _is_zero(ex, st, b): return i
        i += 1

@builtin('strcmp')
def b_strcmp(ex, st, args, ins):
    p = _ptr(ex, st, args[0]); q = _ptr(ex, st, args[1]); i = 0
    while True:
        a = st.mem.load(p + i, 1); b = st.mem.load(q + i, 1)
        c = _cmp_bytes(ex, st, a, b)
        if c: return c & ops.mask(32)
        if _is_zero(ex, st, a): return 0
        i += 1

@builtin('strncmp')
def b_strncmp(ex, st, args, ins):
    p = _ptr(ex, st, args[0]); q = _ptr(ex, st, args[1]); n = _len(ex, st, args[2], 'strncmp n')
    for i in range(n):
        a = st.mem.load(p + i, 1); b = st.mem.load(q + i, 1)
        c = _cmp_bytes(ex, st, a, b)
        if c: return c & ops.mask(32)
        if _is_zero(ex, st, a): return 0
    return 0

def _eq_byte(ex, st, a, b):
    if isinstance(a, int) and isinstance(b, int): return a == b
    return bool(ex.concretize_bool(st, icmp('eq', a, b, 8)))

@builtin('strchr')
def b_strchr(ex, st, args, ins):
    p = _ptr(ex, st, args[0]); c = args[1]
    c = c & 0xff if isinstance(c, int) else z3.Extract(7, 0, c)
    if not isinstance(c, int):
        # concrete haystack, symbolic needle: one symbolic pointer instead of a fork per position
        hay = []; i = 0
        while i < 64:
            b = st.mem.load(p + i, 1)
            if not isinstance(b, int): hay = None; break
            hay.append(b)
            if b == 0: break
            i += 1
        if hay is not None and hay and hay[-1] == 0:
            res = z3.BitVecVal(0, 64)
            for k in range(len(hay) - 1, -1, -1):
                res = z3.If(c == z3.BitVecVal(hay[k], 8), z3.BitVecVal(p + k, 64), res)
            return res
    i = 0
    while True:
        b = st.mem.load(p + i, 1)
        if _eq_byte(ex, st, b, c): return p + i
        if _is_zero(ex, st, b): return 0
        i += 1

@builtin('strrchr')
def b_strrchr(ex, st, args, ins):
    p = _ptr(ex, st, args[0]); c = args[1]
    c = c & 0xff if isinstance(c, int) else z3.Extract(7, 0, c)
    i = 0; last = 0
    while True:
        b = st.mem.load(p + i, 1)
        if _eq_byte(ex, st, b, c): last = p + i
        if _is_zero(ex, st, b): return last
        i += 1

@builtin('memchr')
def b_memchr(ex, st, args, ins):
    p = _ptr(ex, st, args[0]); c = args[1]; n = _len(ex, st, args[2], 'memchr n')
    c = c & 0xff if isinstance(c, int) else z3.Extract(7, 0, c)
    if n: st.mem.resolve(p, n)
    hay = [st.mem.load(p + i, 1) for i in range(n)]
    if not isinstance(c, int) or not all(isinstance(b, int) for b in hay):
        # one symbolic pointer instead of a fork per position
        res = z3.BitVecVal(0, 64)
        for k in range(n - 1, -1, -1):
            res = z3.If(to_bv(c, 8) == to_bv(hay[k], 8), z3.BitVecVal(p + k, 64), res)
        return res
    for i in range(n):
        if hay[i] == c: return p + i
    return 0

@builtin('strstr')
def b_strstr(ex, st, args, ins):
    h = _ptr(ex, st, args[0]); nd = _ptr(ex, st, args[1])
    nl = b_strlen(ex, st, [nd], ins); hl = b_strlen(ex, st, [h], ins)
    if nl == 0: return h
    for i in range(0, hl - nl + 1):
        ok = True
        for j in range(nl):
            if not _eq_byte(ex, st, st.mem.load(h + i + j, 1), st.mem.load(nd + j, 1)):
                ok = False; break
        if ok: return h + i
    return 0

@builtin('strpbrk')
def b_strpbrk(ex, st, args, ins):
    s = _ptr(ex, st, args[0]); acc = _ptr(ex, st, args[1])
    al = b_strlen(ex, st, [acc], ins); i = 0
    accept = [st.mem.load(acc + j, 1) for j in range(al)]
    while True:
        b = st.mem.load(s + i, 1)
        if _is_zero(ex, st, b): return 0
        if isinstance(b, int) and all(isinstance(a, int) for a in accept):
            if b in accept: return s + i
        else:
            # one fork on membership instead of one per accept character
            member = z3.Or([to_bv(b, 8) == to_bv(a, 8) for a in accept]) if accept else z3.BoolVal(False)
            if ex.concretize_bool(st, member): return s + i
        i += 1

def _ctype(pred):
    members = [c for c in range(256) if pred(c)]
    # maximal runs of member byte values: the predicate is a disjunction of range tests (one two-way fork, not one per value)
    runs = []
    for c in members:
        if runs and runs[-1][1] == c - 1: runs[-1][1] = c
        else: runs.append([c, c])
    def f(ex, st, args, ins):
        c = args[0]
        if isinstance(c, int):
            return 1 if (c < 256 and pred(c)) else 0
        w = c.size()
        cond = z3.Or([(c == z3.BitVecVal(lo, w)) if lo == hi else z3.And(z3.UGE(c, z3.BitVecVal(lo, w)), z3.ULE(c, z3.BitVecVal(hi, w))) for lo, hi in runs])
        return 1 if ex.concretize_bool(st, cond) else 0
    return f
TABLE['isspace'] = _ctype(lambda c: c in (9, 10, 11, 12, 13, 32))
TABLE['isdigit'] = _ctype(lambda c: 48 <= c <= 57)
TABLE['isalpha'] = _ctype(lambda c: 65 <= c <= 90 or 97 <= c <= 122)
TABLE['isalnum'] = _ctype(lambda c: 48 <= c <= 57 or 65 <= c <= 90 or 97 <= c <= 122)
TABLE['isupper'] = _ctype(lambda c: 65 <= c <= 90)
TABLE['islower'] = _ctype(lambda c: 97 <= c <= 122)
TABLE['isxdigit'] = _ctype(lambda c: 48 <= c <= 57 or 65 <= c <= 70 or 97 <= c <= 102)
TABLE['ispunct'] = _ctype(lambda c: 33 <= c <= 126 and not (48 <= c <= 57 or 65 <= c <= 90 or 97 <= c <= 122))

@builtin('tolower')
def b_tolower(ex, st, args, ins):
    c = args[0]
    if isinstance(c, int): return c + 32 if 65 <= c <= 90 else c
    return z3.If(z3.And(z3.UGE(c, 65), z3.ULE(c, 90)), c + 32, c)
@builtin('toupper')
def b_toupper(ex, st, args, ins):
    c = args[0]
    if isinstance(c, int): return c - 32 if 97 <= c <= 122 else c
    return z3.If(z3.And(z3.UGE(c, 97), z3.ULE(c, 122)), c - 32, c)

@builtin('_ZN5Debug6printfEPKcz', '_ZN5Debug5printEPKc')
def debug_printf(ex, st, args, ins):
    # ASSERT(exp) expands to  !(exp) && Debug::printf(fmt, file, line, #exp) && (TRAP(), 1)
    try:
        if len(args) >= 4 and all(isinstance(a, int) for a in args[:4]):
            f = st.mem.read_cstr(args[1]).decode('latin1'); e = st.mem.read_cstr(args[3]).decode('latin1')
            st.ghost['last_assert'] = '%s:%d: %s' % (f.split('/')[-1], args[2], e)
    except MemError:
        pass
    return 1

@builtin('_exit', 'exit', '_Exit')
def b_exit(ex, st, args, ins):
    """the process (of the model) ends here: the path is complete; no leak check (the address space goes away)"""
    raise _PathEnd('exit')
@builtin('abort')
def b_abort(ex, st, args, ins):
    raise MemError('abort', 'abort() called')

@builtin('__cxa_pure_virtual')
def b_pure(ex, st, args, ins):
    raise MemError('pure-virtual', 'pure virtual call')

@builtin('__cxa_atexit', 'atexit')
def b_atexit(ex, st, args, ins): return 0

@builtin('__cxa_guard_acquire')
def b_guard_acq(ex, st, args, ins):
    g = args[0]
    v = st.mem.load(g, 1)
    if isinstance(v, int) and v: return 0
    return 1
@builtin('__cxa_guard_release')
def b_guard_rel(ex, st, args, ins):
    st.mem.store(args[0], 1, 1)

# ------------------------------------------------------------------------------------ llvm intrinsics

def llvm_intrinsic(ex, name, ins, d, gargs):
    """returns a K_SIMPLE closure for llvm.* or None to fall back to a call"""
    base = name.split('.')
    key = base[1]
    if key in ('lifetime', 'dbg', 'experimental', 'donothing', 'prefetch', 'invariant', 'annotation', 'var'):
        if key == 'experimental' and 'noalias' not in name: return None
        def f(st, regs): pass
        return f
    if key == 'assume':
        def f(st, regs): pass
        return f
    if key in ('memcpy', 'memmove'):
        gd, gs, gn = gargs[0], gargs[1], gargs[2]
        def f(st, regs):
            n = gn(regs)
            if not isinstance(n, int): n = ex.concretize(st, n, 64, 'memcpy n')
            if n:
                dd = gd(regs); ss = gs(regs)
                if not isinstance(dd, int): dd = ex.concretize(st, dd, 64, 'memcpy dst')
                if not isinstance(ss, int): ss = ex.concretize(st, ss, 64, 'memcpy src')
                if key == 'memcpy' and dd != ss and dd < ss + n and ss < dd + n:
                    raise MemError('memcpy-overlap', 'memcpy with overlapping ranges: dest %#x, src %#x, %d bytes (undefined behaviour; memmove is required)' % (dd, ss, n))
                st.mem.memcpy(dd, ss, n)
        return f
    if key == 'memset':
        gd, gv, gn = gargs[0], gargs[1], gargs[2]
        def f(st, regs):
            n = gn(regs)
            if not isinstance(n, int): n = ex.concretize(st, n, 64, 'memset n')
            if n:
                dd = gd(regs)
                if not isinstance(dd, int): dd = ex.concretize(st, dd, 64, 'memset dst')
                st.mem.memset(dd, gv(regs), n)
        return f
    if key == 'trap' or key == 'debugtrap' or key == 'ubsantrap':
        def f(st, regs):
            msg = st.ghost.get('last_assert', 'llvm.trap')
            raise MemError('trap', 'library ASSERT failed / trap: ' + msg)
        return f
    if key in ('umax', 'umin', 'smax', 'smin'):
        w = ins.ty.bits; ga, gb = gargs[0], gargs[1]
        pred = {'umax': 'ugt', 'umin': 'ult', 'smax': 'sgt', 'smin': 'slt'}[key]
        def f(st, regs):
            a = ga(regs); b = gb(regs)
            regs[d] = select(icmp(pred, a, b, w), a, b, w)
        return f
    if ('.sat.' in name) and key in ('usub', 'uadd', 'ssub', 'sadd'):
        w = ins.ty.bits; ga, gb = gargs[0], gargs[1]
        def f(st, regs):
            a = ga(regs); b = gb(regs)
            if key == 'usub': regs[d] = select(icmp('ugt', a, b, w), binop('sub', a, b, w), 0, w)
            elif key == 'uadd':
                s_ = binop('add', a, b, w); regs[d] = select(icmp('ult', s_, a, w), ops.mask(w), s_, w)
            else:
                a = ex.concretize(st, a, w, 'sat') if not isinstance(a, int) else a
                b = ex.concretize(st, b, w, 'sat') if not isinstance(b, int) else b
                x = ops.sgn(a, w) + ops.sgn(b, w) if key == 'sadd' else ops.sgn(a, w) - ops.sgn(b, w)
                x = max(-(1 << (w - 1)), min((1 << (w - 1)) - 1, x)); regs[d] = x & ops.mask(w)
        return f
    if key == 'abs':
        w = ins.ty.bits; ga = gargs[0]
        def f(st, regs):
            a = ga(regs)
            regs[d] = select(icmp('slt', a, 0, w), binop('sub', 0, a, w), a, w)
        return f
    if key in ('fshl', 'fshr'):
        w = ins.ty.bits; ga, gb, gc = gargs
        def f(st, regs):
            a = ga(regs); b = gb(regs); c = gc(regs)
            if isinstance(c, int):
                c %= w
                if c == 0:
                    regs[d] = a if key == 'fshl' else b; return
                if key == 'fshl':
                    regs[d] = binop('or', binop('shl', a, c, w), binop('lshr', b, w - c, w), w)
                else:
                    regs[d] = binop('or', binop('shl', a, w - c, w), binop('lshr', b, c, w), w)
            else:
                ab = z3.Concat(to_bv(a, w), to_bv(b, w)); cc = z3.ZeroExt(w, z3.URem(to_bv(c, w), z3.BitVecVal(w, w)))
                if key == 'fshl': regs[d] = z3.Extract(2 * w - 1, w, ab << cc)
                else: regs[d] = z3.Extract(w - 1, 0, z3.LShR(ab, cc))
        return f
    if key == 'bswap':
        w = ins.ty.bits; ga = gargs[0]; n = w // 8
        def f(st, regs):
            a = ga(regs)
            if isinstance(a, int):
                regs[d] = int.from_bytes(a.to_bytes(n, 'little'), 'big')
            else:
                regs[d] = z3.Concat(*[z3.Extract(8 * i + 7, 8 * i, a) for i in range(n)])
        return f
    if key in ('ctlz', 'cttz', 'ctpop'):
        w = ins.ty.bits; ga = gargs[0]
        def f(st, regs):
            a = ga(regs)
            if not isinstance(a, int): a = ex.concretize(st, a, w, key)
            if key == 'ctpop': regs[d] = bin(a).count('1')
            elif key == 'ctlz': regs[d] = w - a.bit_length()
            else: regs[d] = (a & -a).bit_length() - 1 if a else w
        return f
    if key == 'load' and 'relative' in name:
        gp, go = gargs
        def f(st, regs):
            p = gp(regs); o = go(regs)
            v = st.mem.load((p + o) & ops.mask(64), 4)
            if not isinstance(v, int): v = ex.concretize(st, v, 32, 'load.relative')
            regs[d] = (p + ops.sgn(v, 32)) & ops.mask(64)
        return f
    if key == 'expect':
        ga = gargs[0]
        def f(st, regs): regs[d] = ga(regs)
        return f
    if key == 'objectsize':
        def f(st, regs): regs[d] = ops.mask(ins.ty.bits)
        return f
    if key in ('stacksave',):
        def f(st, regs): regs[d] = 0
        return f
    if key in ('stackrestore',):
        def f(st, regs): pass
        return f
    if key == 'va_start':
        ga = gargs[0]
        def f(st, regs):
            fr = st.threads[st.cur].frames[-1]
            a = ga(regs)
            st.ghost.setdefault('valists', {})
            st.ghost['valists'] = dict(st.ghost['valists']); st.ghost['valists'][a] = list(fr.varargs or [])
            st.mem.memset(a, 0, 24)
        return f
    if key == 'va_end':
        def f(st, regs): pass
        return f
    if key == 'va_copy':
        gd, gs = gargs
        def f(st, regs):
            vl = dict(st.ghost.get('valists', {})); vl[gd(regs)] = list(vl.get(gs(regs), [])); st.ghost['valists'] = vl
        return f
    if key == 'fabs':
        ga = gargs[0]
        def f(st, regs):
            a = ga(regs); regs[d] = abs(a) if isinstance(a, float) else z3.fpAbs(a)
        return f
    if key in ('uadd', 'usub', 'umul', 'sadd', 'ssub', 'smul') and 'with.overflow' in name:
        w = ins.ty.elems[0].bits; ga, gb = gargs
        def f(st, regs):
            a = ga(regs); b = gb(regs)
            opn = key[1:]
            res = binop(opn, a, b, w)
            if isinstance(a, int) and isinstance(b, int):
                if key[0] == 'u':
                    exact = {'add': a + b, 'sub': a - b, 'mul': a * b}[opn]
                    ov = int(exact < 0 or exact > ops.mask(w))
                else:
                    x = ops.sgn(a, w); y = ops.sgn(b, w)
                    exact = {'add': x + y, 'sub': x - y, 'mul': x * y}[opn]
                    ov = int(not (-(1 << (w - 1)) <= exact < (1 << (w - 1))))
            else:
                A = to_bv(a, w); Bv = to_bv(b, w)
                if key[0] == 'u':
                    A2 = z3.ZeroExt(w, A); B2 = z3.ZeroExt(w, Bv)
                else:
                    A2 = z3.SignExt(w, A); B2 = z3.SignExt(w, Bv)
                ex2 = {'add': A2 + B2, 'sub': A2 - B2, 'mul': A2 * B2}[opn]
                back = z3.ZeroExt(w, to_bv(res, w)) if key[0] == 'u' else z3.SignExt(w, to_bv(res, w))
                ov = ex2 != back
            regs[d] = [res, ov]
        return f
    return None

def prefix_builtin(name):
    return None

# ------------------------------------------------------------------------------------ printf / number parsing (libc models)
# libc is outside the verified code: these are reference models of exactly the conversions libnstd uses
# (%d %i %u %lld %llu %ld %lu %zu %x %X %c %s %f %%, optional width/zero-pad/precision for integers).

def _decimal_digits(ex, st, mag, w):
    """decimal text of the unsigned magnitude (python int or z3 BV of width w): list of byte values, most significant first.
    Symbolic magnitudes: the path is split by digit count; digits are fresh symbols tied to mag by sum(d_i*10^i) == mag."""
    if isinstance(mag, int):
        return [ord(c) for c in str(mag)]
    maxd = len(str((1 << w) - 1))
    nd = 1
    while nd < maxd:
        if ex.concretize_bool(st, z3.ULT(mag, z3.BitVecVal(10 ** nd, w))): break
        nd += 1
    ds = []
    W = 72
    total = z3.BitVecVal(0, W)
    k = st.ghost.get('digit_ctr', 0)
    for i in range(nd):
        d = z3.BitVec('digit!%d' % (k + i), 8)
        ds.append(d)
    st.ghost['digit_ctr'] = k + nd
    cons = []
    for i, d in enumerate(ds):      # ds[0] most significant
        cons.append(z3.ULE(d, z3.BitVecVal(9, 8)))
        total = total + z3.ZeroExt(W - 8, d) * z3.BitVecVal(10 ** (nd - 1 - i), W)
    # same width and normal form as the accumulator of _parse_int: the round trip is then an equality chain for the solver
    cons.append(z3.simplify(total) == z3.ZeroExt(W - w, mag))
    c = z3.And(cons)
    st.pc.append(c); st.model = None
    # remember the defining equality  sum(d_i*10^i) == mag  so that _parse_int can rewrite the sum back to mag
    sums = dict(st.ghost.get('digit_sums', {})); sums[tuple(d.decl().name() for d in ds)] = (mag, w); st.ghost['digit_sums'] = sums
    return [d + z3.BitVecVal(48, 8) for d in ds]

def _format(ex, st, fmt, args):
    """-> list of byte values (ints / z3 8-bit)"""
    out = []; i = 0; ai = 0
    def nextarg():
        nonlocal ai
        if ai >= len(args): raise MemError('printf-args', 'printf format consumes more arguments than were passed')
        v = args[ai]; ai += 1; return v
    while i < len(fmt):
        ch = fmt[i]
        if ch != 0x25:
            out.append(ch); i += 1; continue
        i += 1
        flags = ''
        while i < len(fmt) and chr(fmt[i]) in '-+ 0#': flags += chr(fmt[i]); i += 1
        width = 0
        while i < len(fmt) and 48 <= fmt[i] <= 57: width = width * 10 + fmt[i] - 48; i += 1
        prec = None
        if i < len(fmt) and fmt[i] == 0x2e:
            i += 1; prec = 0
            while i < len(fmt) and 48 <= fmt[i] <= 57: prec = prec * 10 + fmt[i] - 48; i += 1
        length = ''
        while i < len(fmt) and chr(fmt[i]) in 'hlzjt': length += chr(fmt[i]); i += 1
        if i >= len(fmt): break
        conv = chr(fmt[i]); i += 1
        if conv == '%': out.append(0x25); continue
        w = 64 if length in ('l', 'll', 'z', 'j', 't') else 32
        if conv in 'di':
            v = nextarg()
            v = v & ops.mask(w) if isinstance(v, int) else (z3.Extract(w - 1, 0, v) if v.size() > w else v)
            if isinstance(v, int):
                body = [ord(c) for c in str(ops.sgn(v, w))]
            else:
                neg = ex.concretize_bool(st, v < 0)
                mag = (z3.BitVecVal(0, w) - v) if neg else v
                body = ([0x2d] if neg else []) + _decimal_digits(ex, st, z3.simplify(mag), w)
            if '+' in flags and body[0] != 0x2d: body = [0x2b] + body
        elif conv == 'u':
            v = nextarg()
            v = v & ops.mask(w) if isinstance(v, int) else (z3.Extract(w - 1, 0, v) if v.size() > w else v)
            body = _decimal_digits(ex, st, v, w)
        elif conv in 'xX':
            v = nextarg()
            if not isinstance(v, int): v = ex.concretize(st, v, v.size(), 'printf %x')
            v &= ops.mask(w)
            body = [ord(c) for c in (('%x' if conv == 'x' else '%X') % v)]
        elif conv == 'c':
            v = nextarg()
            body = [v & 0xff if isinstance(v, int) else z3.Extract(7, 0, v)]
        elif conv == 's':
            p = nextarg()
            if not isinstance(p, int): p = ex.concretize(st, p, 64, 'printf %s')
            body = []; k = 0
            while prec is None or k < prec:
                b = st.mem.load(p + k, 1)
                if _is_zero(ex, st, b): break
                body.append(b); k += 1
        elif conv in 'fgeG':
            v = nextarg()
            if not isinstance(v, float): raise _Unsupported('printf of symbolic double')
            body = [ord(c) for c in (('%' + ('.%d' % prec if prec is not None else '') + conv) % v)]
        elif conv == 'p':
            v = nextarg()
            body = [ord(c) for c in ('0x%x' % (v if isinstance(v, int) else 0))]
        else:
            raise _Unsupported('printf conversion %' + conv)
        if conv in 'diuxX' and prec is not None and len(body) < prec:
            body = [48] * (prec - len(body)) + body
        if len(body) < width:
            pad = width - len(body)
            if '-' in flags: body = body + [32] * pad
            elif '0' in flags and conv in 'diuxX':
                if body and body[0] == 0x2d: body = [0x2d] + [48] * pad + body[1:]
                else: body = [48] * pad + body
            else: body = [32] * pad + body
        out += body
    return out

def _fmt_bytes(ex, st, p):
    return list(st.mem.read_cstr(p))

def _valist(ex, st, ap):
    if not isinstance(ap, int): ap = ex.concretize(st, ap, 64, 'va_list')
    vl = st.ghost.get('valists', {}).get(ap)
    if vl is None: raise _Unsupported('va_list not initialised by va_start')
    return vl

def _emit(ex, st, buf, size, data):
    """snprintf semantics: write at most size-1 bytes + NUL; return full length"""
    if size > 0:
        n = min(len(data), size - 1)
        for k in range(n): st.mem.store(buf + k, 1, data[k])
        st.mem.store(buf + n, 1, 0)
    return len(data) & ops.mask(32)

@builtin('vsnprintf')
def b_vsnprintf(ex, st, args, ins):
    buf, size, fmt, ap = args
    size = _len(ex, st, size, 'snprintf size')
    data = _format(ex, st, _fmt_bytes(ex, st, fmt), _valist(ex, st, ap))
    if not isinstance(buf, int): buf = ex.concretize(st, buf, 64, 'snprintf buf')
    return _emit(ex, st, buf, size, data)

@builtin('snprintf')
def b_snprintf(ex, st, args, ins):
    buf, size, fmt = args[:3]
    size = _len(ex, st, size, 'snprintf size')
    data = _format(ex, st, _fmt_bytes(ex, st, fmt), args[3:])
    return _emit(ex, st, buf, size, data)

@builtin('sprintf')
def b_sprintf(ex, st, args, ins):
    buf, fmt = args[:2]
    data = _format(ex, st, _fmt_bytes(ex, st, fmt), args[2:])
    for k, b in enumerate(data): st.mem.store(buf + k, 1, b)
    st.mem.store(buf + len(data), 1, 0)
    return len(data)

@builtin('vprintf', 'printf', 'puts', 'fputs', 'fflush', 'putchar', 'fwrite', 'vfprintf', 'fprintf')
def b_ignore_output(ex, st, args, ins):
    return 0

def _skip_space(ex, st, p):
    while True:
        b = st.mem.load(p, 1)
        if isinstance(b, int):
            if b in (9, 10, 11, 12, 13, 32): p += 1; continue
            return p
        sp = z3.Or(b == 32, z3.And(z3.UGE(b, 9), z3.ULE(b, 13)))
        if ex.concretize_bool(st, sp): p += 1; continue
        return p

def _parse_int(ex, st, p, w, signed, base=10):
    """strtol-style: returns (value, endptr). symbolic digits accumulate symbolically; each char forks on its class only"""
    p = _skip_space(ex, st, p)
    neg = False
    b = st.mem.load(p, 1)
    if isinstance(b, int):
        if b == 0x2d: neg = True; p += 1
        elif b == 0x2b: p += 1
    else:
        if ex.concretize_bool(st, b == 0x2d): neg = True; p += 1
        elif ex.concretize_bool(st, b == 0x2b): p += 1
    val = 0; nd = 0
    W = 72
    ov = False
    names = []
    while True:
        b = st.mem.load(p, 1)
        if not isinstance(b, int) and base != 10:
            b = ex.concretize(st, b, 8, 'hex digit')        # hexadecimal digits are split over their values
        if isinstance(b, int):
            if base == 10 and 48 <= b <= 57: d = b - 48
            elif base == 16 and (48 <= b <= 57 or 65 <= b <= 70 or 97 <= b <= 102): d = int(chr(b), 16)
            else: break
        else:
            isd = z3.And(z3.UGE(b, 48), z3.ULE(b, 57))
            if not ex.concretize_bool(st, isd): break
            d8 = z3.simplify(b - 48)
            names.append(d8.decl().name() if z3.is_const(d8) else None)
            d = z3.ZeroExt(W - 8, d8)
        if isinstance(val, int) and isinstance(d, int): val = val * base + d
        else: val = to_bv(val, W) * base + to_bv(d, W)
        nd += 1; p += 1
        if nd > 24: break
    # range handling (strto* saturate; ato* are undefined on overflow -> we saturate too and say so)
    lim_pos = (1 << (w - 1)) - 1 if signed else (1 << w) - 1
    lim_neg = (1 << (w - 1)) if signed else (1 << w) - 1
    if isinstance(val, int):
        if neg:
            r = (-min(val, lim_neg)) & ops.mask(w) if signed else ((-val) & ops.mask(w) if val <= lim_neg else ops.mask(w))
        else:
            r = min(val, lim_pos)
        return r & ops.mask(w), p
    lim = lim_neg if neg else lim_pos
    known = st.ghost.get('digit_sums', {}).get(tuple(names)) if len(names) == nd and nd else None
    if known is not None:
        val = z3.ZeroExt(W - known[1], known[0])      # rewrite with the recorded equality (exact, it is in the path condition)
    else:
        val = z3.simplify(val)
    over = ex.concretize_bool(st, z3.UGT(val, z3.BitVecVal(lim, W)))
    if over:
        r = lim if not neg else ((-lim) & ops.mask(w) if signed else ops.mask(w))
        return r & ops.mask(w), p
    r = z3.Extract(w - 1, 0, val)
    if neg: r = z3.BitVecVal(0, w) - r
    return z3.simplify(r), p

@builtin('atoi')
def b_atoi(ex, st, args, ins): return _parse_int(ex, st, _ptr(ex, st, args[0]), 32, True)[0]
@builtin('atol', 'atoll')
def b_atoll(ex, st, args, ins): return _parse_int(ex, st, _ptr(ex, st, args[0]), 64, True)[0]
def _strto(w, signed):
    def f(ex, st, args, ins):
        base = args[2] if isinstance(args[2], int) else ex.concretize(st, args[2], 32, 'base')
        if base not in (10, 16): raise _Unsupported('strto* base %d' % base)
        v, end = _parse_int(ex, st, _ptr(ex, st, args[0]), w, signed, base)
        if isinstance(args[1], int) and args[1]: st.mem.store(args[1], 8, end)
        return v
    return f
TABLE['strtol'] = _strto(64, True); TABLE['strtoll'] = _strto(64, True)
TABLE['strtoul'] = _strto(64, False); TABLE['strtoull'] = _strto(64, False)

@builtin('atof', 'strtod')
def b_atof(ex, st, args, ins):
    p = _ptr(ex, st, args[0])
    s = bytearray()
    k = 0
    while True:
        b = st.mem.load(p + k, 1)
        if not isinstance(b, int): b = ex.concretize(st, b, 8, 'atof char')
        if b == 0 or k > 64: break
        s.append(b); k += 1
    import re as _re
    m = _re.match(rb'\s*[-+]?(\d+\.?\d*([eE][-+]?\d+)?|\.\d+([eE][-+]?\d+)?|inf|nan)', bytes(s), _re.I)
    v = float(m.group(0)) if m else 0.0
    if len(args) > 1 and isinstance(args[1], int) and args[1]:
        st.mem.store(args[1], 8, p + (m.end() if m else 0))
    return v

@builtin('vsscanf', '__isoc99_vsscanf', '__isoc23_vsscanf', 'sscanf', '__isoc99_sscanf', '__isoc23_sscanf')
def b_vsscanf(ex, st, args, ins):
    """subset used by libnstd: literal characters, %u %d %x (optionally with l/ll); input digits may be symbolic"""
    name = ins.args[0].v if hasattr(ins.args[0], 'v') else ''
    src = _ptr(ex, st, args[0]); fmt = _fmt_bytes(ex, st, args[1])
    outs = _valist(ex, st, args[2]) if 'vsscanf' in str(name) else args[2:]
    i = 0; oi = 0; p = src; assigned = 0
    while i < len(fmt):
        ch = fmt[i]
        if ch == 0x25:
            i += 1
            length = ''
            while i < len(fmt) and chr(fmt[i]) in 'hlz': length += chr(fmt[i]); i += 1
            conv = chr(fmt[i]); i += 1
            w = 64 if length in ('l', 'll', 'z') else 32
            if conv not in 'udx': raise _Unsupported('scanf conversion %' + conv)
            q = _skip_space(ex, st, p)
            # at least one digit required
            b = st.mem.load(q, 1)
            if conv == 'x':
                if not isinstance(b, int): b = ex.concretize(st, b, 8, 'scanf hex digit')
                ok = chr(b) in '0123456789abcdefABCDEF'
            elif isinstance(b, int):
                ok = 48 <= b <= 57 or (b in (0x2d, 0x2b) and conv == 'd')
                if not ok and b in (0x2d, 0x2b): ok = True   # strtoul accepts a sign too
            else:
                ok = bool(ex.concretize_bool(st, z3.And(z3.UGE(b, 48), z3.ULE(b, 57))))
            if not ok: return assigned
            v, end = _parse_int(ex, st, q, w, conv == 'd', 16 if conv == 'x' else 10)
            if end == q: return assigned
            dst = outs[oi]; oi += 1
            st.mem.store(dst, w // 8, v if isinstance(v, int) else to_bv(v, w))
            assigned += 1; p = end
        elif ch in (32, 9, 10):
            p = _skip_space(ex, st, p); i += 1
        else:
            b = st.mem.load(p, 1)
            if not _eq_byte(ex, st, b, ch): return assigned if assigned else (ops.mask(32) if _is_zero(ex, st, b) else 0)
            p += 1; i += 1
    return assigned

# ------------------------------------------------------------------------------------ pthread model (POSIX contract)
# mutex object memory layout is ours: word0 = owner tid+1 (0 free), word1 = recursion count, word2 = type (1 recursive)
PTHREAD_MUTEX_RECURSIVE = 1

def _mtx(st, a): return (st.mem.load(a, 4), st.mem.load(a + 4, 4), st.mem.load(a + 8, 4))

@builtin('pthread_mutexattr_init')
def b_mattr_init(ex, st, args, ins): st.mem.store(args[0], 4, 0); return 0
@builtin('pthread_mutexattr_settype')
def b_mattr_settype(ex, st, args, ins): st.mem.store(args[0], 4, args[1] & 0xffffffff); return 0
@builtin('pthread_mutexattr_destroy', 'pthread_condattr_init', 'pthread_condattr_destroy', 'pthread_condattr_setclock')
def b_attr_nop(ex, st, args, ins): return 0

@builtin('pthread_mutex_init')
def b_mutex_init(ex, st, args, ins):
    m, attr = args
    ty = 0
    if attr: ty = st.mem.load(attr, 4)
    st.mem.store(m, 4, 0); st.mem.store(m + 4, 4, 0); st.mem.store(m + 8, 4, ty)
    return 0
@builtin('pthread_mutex_destroy')
def b_mutex_destroy(ex, st, args, ins):
    owner, cnt, ty = _mtx(st, args[0])
    if owner: raise MemError('pthread', 'pthread_mutex_destroy of a locked mutex')
    return 0

def _mutex_try(ex, st, m, tid):
    owner, cnt, ty = _mtx(st, m)
    if owner == 0:
        st.mem.store(m, 4, tid + 1); st.mem.store(m + 4, 4, 1); return True
    if owner == tid + 1 and ty == PTHREAD_MUTEX_RECURSIVE:
        st.mem.store(m + 4, 4, cnt + 1); return True
    return False

@builtin('pthread_mutex_lock')
def b_mutex_lock(ex, st, args, ins):
    m = args[0]; th = st.threads[st.cur]
    if _mutex_try(ex, st, m, th.tid): return 0
    owner, cnt, ty = _mtx(st, m)
    if owner == th.tid + 1:
        raise MemError('deadlock', 'thread locks a non-recursive mutex it already owns')
    th.status = 'blocked'
    th.wait = lambda ex_, st_, t_, m=m: st_.mem.load(m, 4) == 0
    raise Blocked()

@builtin('pthread_mutex_trylock')
def b_mutex_trylock(ex, st, args, ins):
    return 0 if _mutex_try(ex, st, args[0], st.threads[st.cur].tid) else 16   # EBUSY

@builtin('pthread_mutex_unlock')
def b_mutex_unlock(ex, st, args, ins):
    m = args[0]; th = st.threads[st.cur]
    owner, cnt, ty = _mtx(st, m)
    if owner != th.tid + 1: raise MemError('pthread', 'pthread_mutex_unlock by a thread that does not own the mutex')
    if cnt > 1: st.mem.store(m + 4, 4, cnt - 1)
    else:
        st.mem.store(m, 4, 0); st.mem.store(m + 4, 4, 0)
    return 0

@builtin('__errno_location')
def b_errno(ex, st, args, ins):
    a = st.ghost.get('errno_addr')
    if a is None:
        o = st.mem.alloc(4, 'global', 'errno'); st.mem.store(o.base, 4, 0); a = o.base; st.ghost['errno_addr'] = a
    return a

def _wake_reason(st, tid):
    w = st.ghost.get('wake', {})
    if tid in w:
        w = dict(w); r = w.pop(tid); st.ghost['wake'] = w; return r
    return None

def _clock(st): return st.ghost.get('clock_ns', 1000000000000)
def _ts_ns(st, p):
    sec = st.mem.load(p, 8); ns = st.mem.load(p + 8, 8)
    if isinstance(sec, int) and isinstance(ns, int): return sec * 1000000000 + ns
    return z3.simplify(to_bv(sec, 64) * z3.BitVecVal(1000000000, 64) + to_bv(ns, 64))

def _check_nsec(ex, st, ts, who):
    """POSIX: tv_nsec must be in [0, 1e9) or the call fails with EINVAL; symbolic values are decided by the solver"""
    nsec = st.mem.load(ts + 8, 8)
    if isinstance(nsec, int):
        if nsec >= 1000000000: raise MemError('pthread', who + ': tv_nsec not normalised (EINVAL)')
        return
    bad = z3.UGE(nsec, z3.BitVecVal(1000000000, 64))
    r, m = ex.check(st, bad)
    if r == 'sat':
        ex.violation(st, 'pthread', who + ': tv_nsec not normalised for some timeout (EINVAL)', model=m, fatal=False)
    elif r == 'unknown': ex.note_unsupported('solver-unknown-on-nsec')
    ex.add_constraint(st, z3.Not(bad)); st.model = None

def _later(a, b):
    """max of two clock values (ints or 64-bit terms)"""
    if isinstance(a, int) and isinstance(b, int): return max(a, b)
    return z3.If(z3.UGE(to_bv(a, 64), to_bv(b, 64)), to_bv(a, 64), to_bv(b, 64))

@builtin('clock_gettime')
def b_clock_gettime(ex, st, args, ins):
    t = _clock(st)
    if isinstance(t, int):
        st.mem.store(args[1], 8, t // 1000000000); st.mem.store(args[1] + 8, 8, t % 1000000000)
    else:
        st.mem.store(args[1], 8, z3.UDiv(t, z3.BitVecVal(1000000000, 64))); st.mem.store(args[1] + 8, 8, z3.URem(t, z3.BitVecVal(1000000000, 64)))
    return 0
@builtin('gettimeofday')
def b_gettimeofday(ex, st, args, ins):
    t = _clock(st)
    st.mem.store(args[0], 8, t // 1000000000); st.mem.store(args[0] + 8, 8, (t % 1000000000) // 1000)
    return 0
@builtin('usleep', 'nanosleep', 'sched_yield', 'pthread_yield', 'sleep', 'vf_yield')
def b_sleep(ex, st, args, ins):
    """voluntary yield: if another thread can run, one of them runs next (no preemption cost); the yielder resumes later"""
    th = st.threads[st.cur]; tid = th.tid
    y = st.ghost.get('yielded', ())
    if tid in y:
        st.ghost['yielded'] = tuple(x for x in y if x != tid)
        return 0
    others = [t for t in st.threads if t.tid != tid and (t.status == 'run' or (t.status == 'blocked' and t.wait(ex, st, t) is True))]
    if not others: return 0
    st.ghost['yielded'] = tuple(y) + (tid,)
    st.ghost['yielder'] = tid
    th.status = 'blocked'; th.wait = lambda ex_, st_, t_: True
    raise Blocked()

# condition variables: waiters live in engine-side ghost state  cond_waiters[addr] = (tid, ...)
def _waiters(st, c): return st.ghost.get('cond_waiters', {}).get(c, ())
def _set_waiters(st, c, ws):
    d = dict(st.ghost.get('cond_waiters', {})); d[c] = tuple(ws); st.ghost['cond_waiters'] = d

@builtin('pthread_cond_init')
def b_cond_init(ex, st, args, ins):
    st.mem.store(args[0], 4, 0); _set_waiters(st, args[0], ()); return 0
@builtin('pthread_cond_destroy')
def b_cond_destroy(ex, st, args, ins):
    if _waiters(st, args[0]): raise MemError('pthread', 'pthread_cond_destroy with waiting threads')
    return 0

def _cond_wait(ex, st, c, m, deadline_ns):
    th = st.threads[st.cur]; tid = th.tid
    phases = st.ghost.get('cw_phase', {})
    ph = phases.get(tid)
    if ph is None:
        owner, cnt, ty = _mtx(st, m)
        if owner != tid + 1: raise MemError('pthread', 'pthread_cond_wait without owning the mutex')
        if cnt != 1: raise MemError('pthread', 'pthread_cond_wait with a recursively locked mutex (would stay locked)')
        st.mem.store(m, 4, 0); st.mem.store(m + 4, 4, 0)
        _set_waiters(st, c, _waiters(st, c) + (tid,))
        p2 = dict(phases); p2[tid] = ('waiting', c, m); st.ghost['cw_phase'] = p2
        th.status = 'blocked'
        timed = deadline_ns is not None
        def w(ex_, st_, t_, c=c, tid=tid, timed=timed):
            if tid not in _waiters(st_, c): return True
            return 'timeout' if timed else 'spurious'
        th.wait = w
        raise Blocked()
    # woken up (signalled, spuriously, or by the deadline): re-acquire the mutex, then return
    if ph[0] == 'waiting':
        reason = _wake_reason(st, tid)
        res = 0
        if tid in _waiters(st, c):
            _set_waiters(st, c, [x for x in _waiters(st, c) if x != tid])
            if reason == 'timeout':
                res = 110  # ETIMEDOUT: only ever reported once the clock has reached the deadline
                st.ghost['clock_ns'] = _later(_clock(st), deadline_ns)
        p2 = dict(st.ghost.get('cw_phase', {})); p2[tid] = ('relock', c, m, res); st.ghost['cw_phase'] = p2
        ph = p2[tid]
    if not _mutex_try(ex, st, m, tid):
        th.status = 'blocked'
        th.wait = lambda ex_, st_, t_, m=m: st_.mem.load(m, 4) == 0
        raise Blocked()
    p2 = dict(st.ghost.get('cw_phase', {})); res = p2.pop(tid)[3]; st.ghost['cw_phase'] = p2
    return res

@builtin('pthread_cond_wait')
def b_cond_wait(ex, st, args, ins): return _cond_wait(ex, st, args[0], args[1], None)
@builtin('pthread_cond_timedwait')
def b_cond_timedwait(ex, st, args, ins):
    ts = args[2]
    if st.ghost.get('cw_phase', {}).get(st.threads[st.cur].tid) is None: _check_nsec(ex, st, ts, 'pthread_cond_timedwait')
    return _cond_wait(ex, st, args[0], args[1], _ts_ns(st, ts))

@builtin('pthread_cond_signal')
def b_cond_signal(ex, st, args, ins):
    c = args[0]; ws = _waiters(st, c)
    st.mem.load(c, 4)      # the condition variable must still be alive (use after destruction of its owner)
    if not ws: return 0
    # any one waiter may be released: split over the choice
    k = len(st.inputs)
    p = st.ghost.get('pick')
    if p is not None and p[0] == id(ins) and p[1] == k:
        st.ghost.pop('pick', None); idx = p[2]
    else:
        for i in range(len(ws) - 1, 0, -1):
            sib = st.fork(); sib.ghost['pick'] = (id(ins), k, i); ex.push_state(sib)
        idx = 0
    st.inputs.append(('wakepick', idx))
    _set_waiters(st, c, [x for j, x in enumerate(ws) if j != idx])
    return 0
@builtin('pthread_cond_broadcast')
def b_cond_broadcast(ex, st, args, ins):
    st.mem.load(args[0], 4)      # the condition variable must still be alive (use after destruction of its owner)
    _set_waiters(st, args[0], ()); return 0

# semaphores: the word at the address is the count
@builtin('sem_init')
def b_sem_init(ex, st, args, ins): st.mem.store(args[0], 4, args[2] & 0xffffffff); return 0
@builtin('sem_destroy')
def b_sem_destroy(ex, st, args, ins): return 0
@builtin('sem_post')
def b_sem_post(ex, st, args, ins):
    st.mem.store(args[0], 4, st.mem.load(args[0], 4) + 1); return 0
@builtin('sem_trywait')
def b_sem_trywait(ex, st, args, ins):
    v = st.mem.load(args[0], 4)
    if v > 0: st.mem.store(args[0], 4, v - 1); return 0
    st.mem.store(b_errno(ex, st, [], ins), 4, 11); return ops.mask(32)
def _sem_wait(ex, st, s, deadline_ns):
    th = st.threads[st.cur]; tid = th.tid
    v = st.mem.load(s, 4)
    if v > 0:
        _wake_reason(st, tid)
        st.mem.store(s, 4, v - 1); return 0
    if deadline_ns is not None and _wake_reason(st, tid) == 'timeout':
        st.ghost['clock_ns'] = _later(_clock(st), deadline_ns)
        st.mem.store(b_errno(ex, st, [], None), 4, 110); return ops.mask(32)
    th.status = 'blocked'
    timed = deadline_ns is not None
    def w(ex_, st_, t_, s=s, timed=timed):
        if st_.mem.load(s, 4) > 0: return True
        return 'timeout' if timed else False
    th.wait = w
    raise Blocked()
@builtin('sem_wait')
def b_sem_wait(ex, st, args, ins): return _sem_wait(ex, st, args[0], None)
@builtin('sem_timedwait')
def b_sem_timedwait(ex, st, args, ins):
    ts = args[1]
    _check_nsec(ex, st, ts, 'sem_timedwait')
    return _sem_wait(ex, st, args[0], _ts_ns(st, ts))
@builtin('sem_getvalue')
def b_sem_getvalue(ex, st, args, ins): st.mem.store(args[1], 4, st.mem.load(args[0], 4)); return 0

# threads
@builtin('pthread_create')
def b_pthread_create(ex, st, args, ins):
    tp, attr, fn, arg = args
    if not isinstance(fn, int): fn = ex.concretize(st, fn, 64, 'thread fn')
    name = ex.fname_at.get(fn)
    if name is None: raise MemError('bad-call', 'pthread_create with a non-function start routine')
    th = ex.new_thread(st, name, [arg], 'thread:' + name[:40])
    st.mem.store(tp, 8, th.tid + 1000)
    return 0
@builtin('pthread_join')
def b_pthread_join(ex, st, args, ins):
    h, retp = args
    tid = h - 1000
    if tid <= 0 or tid >= len(st.threads): raise MemError('pthread', 'pthread_join of an invalid thread handle')
    t = st.threads[tid]
    if t.status == 'done':
        if retp: st.mem.store(retp, 8, t.result if t.result is not None else 0)
        return 0
    th = st.threads[st.cur]
    th.status = 'blocked'
    th.wait = lambda ex_, st_, t_, tid=tid: st_.threads[tid].status == 'done'
    raise Blocked()
@builtin('pthread_self')
def b_pthread_self(ex, st, args, ins): return st.threads[st.cur].tid + 1000
@builtin('pthread_detach', 'pthread_attr_init', 'pthread_attr_destroy', 'pthread_attr_setstacksize', 'pthread_setname_np', 'pthread_sigmask', 'pthread_cancel')
def b_pthread_nop(ex, st, args, ins): return 0

@builtin('vf_spawn')
def vf_spawn(ex, st, args, ins):
    fn, arg = args
    name = ex.fname_at.get(fn)
    if name is None: raise MemError('bad-call', 'vf_spawn of a non-function')
    th = ex.new_thread(st, name, [arg], 'spawn:' + name[:40])
    return th.tid
@builtin('vf_join')
def vf_join(ex, st, args, ins):
    tid = args[0]
    t = st.threads[tid]
    if t.status == 'done': return t.result if t.result is not None else 0
    th = st.threads[st.cur]; th.status = 'blocked'
    th.wait = lambda ex_, st_, t_, tid=tid: st_.threads[tid].status == 'done'
    raise Blocked()
@builtin('vf_clock_ns')
def vf_clock_ns(ex, st, args, ins): return _clock(st)
@builtin('vf_cond_waiters')
def vf_cond_waiters(ex, st, args, ins):
    """number of threads currently blocked on any condition variable ("current waiters" of the primitives built on one)"""
    return sum(len(ws) for ws in st.ghost.get('cond_waiters', {}).values())
@builtin('vf_tid')
def vf_tid(ex, st, args, ins): return st.threads[st.cur].tid

SYNC_POINTS = {'pthread_mutex_lock', 'pthread_mutex_unlock', 'pthread_mutex_trylock', 'pthread_cond_wait', 'pthread_cond_timedwait',
               'pthread_cond_signal', 'pthread_cond_broadcast', 'sem_wait', 'sem_post', 'sem_trywait', 'sem_timedwait',
               'pthread_join', 'pthread_create', 'vf_yield', 'vf_join', 'usleep', 'sched_yield', 'nanosleep'}

_UF256 = None
@builtin('vf_uf256')
def vf_uf256(ex, st, args, ins):
    """state[0..7] <- F(state, block[0..15]) with F an uninterpreted function BV256 x BV512 -> BV256"""
    global _UF256
    if _UF256 is None:
        _UF256 = z3.Function('sha256_compress', z3.BitVecSort(256), z3.BitVecSort(512), z3.BitVecSort(256))
    sp, bp = args[0], args[1]
    sw = [to_bv(st.mem.load(sp + 4 * i, 4), 32) for i in range(8)]
    bw = [to_bv(st.mem.load(bp + 4 * i, 4), 32) for i in range(16)]
    r = _UF256(z3.simplify(z3.Concat(*sw)), z3.simplify(z3.Concat(*bw)))
    for i in range(8):
        st.mem.store(sp + 4 * i, 4, z3.Extract(255 - 32 * i, 224 - 32 * i, r))
    return None

import netmodel as _netmodel
_netmodel.register(builtin)
SYNC_POINTS |= {'epoll_wait', 'write', 'read'}

@builtin('sysconf')
def b_sysconf(ex, st, args, ins): return 2
@builtin('syscall')
def b_syscall(ex, st, args, ins): return st.threads[st.cur].tid + 100

import fsmodel as _fsmodel
_fsmodel.register(builtin)
