"""Front end: ./check <property> --tier quick|thorough  |  ./check <property> --replay <file>

Per property: props/<id>.py lists units (harness + real sources + entries + bounds). Every unit is lowered from
/repo's current tree to IR, every entry is explored symbolically (E2) or translated and model-checked (E1),
counterexamples are replayed on a native ASan/UBSan build, and evidence/<id>.json is written.
"""
import sys, os, time, json, pickle, importlib, traceback, subprocess, re, random, signal
HERE = os.path.dirname(os.path.abspath(__file__))
sys.path.insert(0, HERE)
VERIF = os.path.dirname(HERE)
EVID = os.environ.get('VERIF_EVIDENCE', os.path.join(VERIF, 'evidence'))
sys.path.insert(0, VERIF)
import lower

NPROC = int(os.environ.get('VERIF_NPROC', '16'))

def log(*a):
    print(*a, file=sys.stderr); sys.stderr.flush()

# ------------------------------------------------------------------------------------------ E2 jobs

SEM = None   # cross-process token pool (one token per busy core), created in main()

def _reset(ex):
    ex.stats = {k: (0 if isinstance(v, (int, float)) and not isinstance(v, bool) else v) for k, v in ex.stats.items()}
    ex.stats.pop('timeout', None)
    ex.violations = []; ex.samples = []; ex.reach_all = set(); ex.funcs_executed = set()
    ex.bound_exceeded_at = {}; ex.unsupported_at = {}; ex.viol_keys = {}

def _worker(ex, entry, t_end, outdir, depth=0):
    """explore ex.stack; while tokens are free, hand the older half of the pending states to a forked helper"""
    kids = []; last = time.time()
    while ex.stack:
        now = time.time()
        if t_end is not None and now > t_end:
            ex.stats['timeout'] = True; break
        ex.run(ex.stack.pop())
        if SEM is not None and len(ex.stack) >= 2 and now - last > 1.0 and SEM.acquire(False):
            n = len(ex.stack) // 2
            give = ex.stack[:n]
            pid = os.fork()
            if pid == 0:
                TOKEN[0] = True
                try:
                    _reset(ex); ex.stack = give
                    _worker(ex, entry, t_end, outdir, depth + 1)
                    res = collect(ex, entry, 0)
                except BaseException:
                    res = dict(entry=entry, error=traceback.format_exc())
                try:
                    with open(os.path.join(outdir, 'r_%d.pkl' % os.getpid()), 'wb') as f: pickle.dump(res, f)
                finally:
                    if TOKEN[0]: SEM.release()
                    os._exit(0)
            ex.stack = ex.stack[n:]
            kids.append(pid); last = time.time()
    # own work done: give the core token back before waiting for the helpers (an idle parent must not hold a core)
    if SEM is not None and TOKEN[0]:
        SEM.release(); TOKEN[0] = False
    for pid in kids:
        os.waitpid(pid, 0)

TOKEN = [False]    # does this process currently hold a core token?

def explore_entry(module, entry, opts, budget_s, split=0):
    """run one entry; with split>0 pending states are handed to helper processes whenever a core token is free"""
    import symex, tempfile, shutil
    ex = symex.Executor(module, opts)
    t0 = time.time()
    if split <= 1 or SEM is None:
        ex.explore(entry, budget_s)
        return collect(ex, entry, time.time() - t0)
    outdir = tempfile.mkdtemp(prefix='vfres_', dir=lower.BUILD)
    try:
        ex.stack = [ex.start(entry)]
        _worker(ex, entry, t0 + budget_s if budget_s else None, outdir)
        results = [collect(ex, entry, 0)]
        for fn in os.listdir(outdir):
            with open(os.path.join(outdir, fn), 'rb') as f: results.append(pickle.load(f))
    finally:
        shutil.rmtree(outdir, ignore_errors=True)
    out = merge(results, entry)
    out['wall_s'] = time.time() - t0
    out['helpers'] = len(results) - 1
    return out

def collect(ex, entry, wall):
    return dict(entry=entry, stats=dict(ex.stats), violations=list(ex.violations), samples=list(ex.samples),
                reach=sorted(ex.reach_all), funcs=sorted(ex.funcs_executed), bound_exceeded_at=dict(ex.bound_exceeded_at),
                unsupported_at=dict(ex.unsupported_at), wall_s=wall)

def merge(results, entry):
    out = dict(entry=entry, stats={}, violations=[], samples=[], reach=set(), funcs=set(), bound_exceeded_at={}, unsupported_at={}, wall_s=0)
    for r in results:
        if 'error' in r:
            out['error'] = r['error']; continue
        for k, v in r['stats'].items():
            if isinstance(v, bool): out['stats'][k] = out['stats'].get(k, False) or v
            elif k.startswith('max_'): out['stats'][k] = max(out['stats'].get(k, 0), v)
            elif isinstance(v, (int, float)): out['stats'][k] = out['stats'].get(k, 0) + v
        out['violations'] += r['violations']; out['samples'] += r['samples'][:2]
        out['reach'] |= set(r['reach']); out['funcs'] |= set(r['funcs'])
        for k, v in r['bound_exceeded_at'].items(): out['bound_exceeded_at'][k] = out['bound_exceeded_at'].get(k, 0) + v
        for k, v in r['unsupported_at'].items(): out['unsupported_at'][k] = out['unsupported_at'].get(k, 0) + v
    out['reach'] = sorted(out['reach']); out['funcs'] = sorted(out['funcs'])
    return out

def run_jobs(jobs, nproc):
    """jobs: list of (key, callable) ; runs in forked children, nproc at a time; returns {key: result}"""
    results = {}
    running = {}
    queue = list(jobs)
    while queue or running:
        while queue and len(running) < nproc:
            key, fn = queue.pop(0)
            r, w = os.pipe()
            pid = os.fork()
            if pid == 0:
                os.close(r)
                if SEM is not None:
                    SEM.acquire(); TOKEN[0] = True
                try: res = fn()
                except BaseException:
                    res = dict(error=traceback.format_exc())
                try:
                    with os.fdopen(w, 'wb') as f: pickle.dump(res, f)
                finally:
                    if SEM is not None and TOKEN[0]: SEM.release()
                    os._exit(0)
            os.close(w)
            running[pid] = (key, r)
        # wait for any child: read results in completion order (pipes can fill, so read before waitpid)
        import select as _sel
        fds = {r: pid for pid, (key, r) in running.items()}
        ready, _, _ = _sel.select(list(fds), [], [], 1.0)
        for r in ready:
            pid = fds[r]; key = running[pid][0]
            chunks = []
            while True:
                b = os.read(r, 1 << 20)
                if not b: break
                chunks.append(b)
            os.close(r); os.waitpid(pid, 0)
            del running[pid]
            data = b''.join(chunks)
            results[key] = pickle.loads(data) if data else dict(error='job process died')
    return results

# ------------------------------------------------------------------------------------------ replay / validation

def write_replay(path, values):
    with open(path, 'w') as f:
        for v in values: f.write('%d\n' % v)

def native_replay(exe, replay_file, timeout=60):
    env = dict(os.environ, VF_REPLAY=replay_file, ASAN_OPTIONS='detect_leaks=1:abort_on_error=0:exitcode=23', UBSAN_OPTIONS='halt_on_error=1:exitcode=24')
    try:
        p = subprocess.run([exe], env=env, stdout=subprocess.PIPE, stderr=subprocess.STDOUT, timeout=timeout)
        out = p.stdout.decode('utf-8', 'replace'); rc = p.returncode
    except subprocess.TimeoutExpired as e:
        out = (e.stdout or b'').decode('utf-8', 'replace') + '\nTIMEOUT'; rc = 124
    return rc, out

def validate_translation(unit, entry, module, opts, exe_plain, nruns, seed, outdir):
    """native random run (values logged) vs. E2 concrete replay of the same values: vf_trace streams must agree"""
    import symex
    agree = 0; checked = 0; problems = []
    for i in range(nruns):
        logf = os.path.join(outdir, 'val_%s_%d.log' % (entry, i)); trf = os.path.join(outdir, 'val_%s_%d.trace' % (entry, i))
        env = dict(os.environ, VF_SEED=str(seed * 1000 + i), VF_LOG=logf, VF_TRACE=trf)
        env.pop('VF_REPLAY', None)
        try:
            p = subprocess.run([exe_plain], env=env, stdout=subprocess.PIPE, stderr=subprocess.STDOUT, timeout=60)
        except subprocess.TimeoutExpired:
            problems.append('native timeout run %d' % i); continue
        nat_out = p.stdout.decode('utf-8', 'replace')
        vals = [int(x) for x in open(logf).read().split()] if os.path.exists(logf) else []
        ntrace = [int(x) for x in open(trf).read().split()] if os.path.exists(trf) else []
        o2 = dict(opts); o2['replay'] = vals; o2['check_leaks'] = False
        ex = symex.Executor(module, o2)
        st = ex.start(entry)
        reason = ex.run(st)
        checked += 1
        nat_reason = 'violation' if p.returncode == 1 else ('done' if p.returncode == 0 and 'pruned' not in nat_out else ('assume' if p.returncode == 0 else 'crash%d' % p.returncode))
        etrace = st.trace
        e_reason = reason
        ok = (ntrace == etrace[:len(ntrace)] if nat_reason != 'done' else ntrace == etrace)
        # outcome classes must agree too (done / pruned / violation)
        if nat_reason == 'done' and e_reason != 'done': ok = False
        if nat_reason == 'assume' and e_reason != 'assume': ok = False
        if nat_reason == 'violation' and e_reason != 'violation': ok = False
        if nat_reason.startswith('crash') and e_reason != 'violation': ok = False
        if ok: agree += 1
        else: problems.append('run %d: native %s trace %s... / engine %s trace %s... values %s' % (i, nat_reason, ntrace[:6], e_reason, etrace[:6], vals[:12]))
        for f in (logf, trf):
            if os.path.exists(f): os.remove(f)
    return dict(entry=entry, runs=checked, agree=agree, problems=problems[:5])

# ------------------------------------------------------------------------------------------ known findings

def load_known():
    p = os.path.join(VERIF, 'known_findings.json')
    if not os.path.exists(p): return []
    return json.load(open(p)).get('findings', [])

def match_known(known, prop, unit, entry, v):
    for k in known:
        if k.get('status') != 'known': continue        # 'fixed' entries suppress nothing
        if k['property'] != prop: continue
        m = k['match']
        if m.get('unit') and m['unit'] != unit: continue
        if m.get('entry') and not re.fullmatch(m['entry'], entry): continue
        if m.get('kind') and not re.fullmatch(m['kind'], v['kind']): continue
        if m.get('msg') and not re.search(m['msg'], v['msg']): continue
        return k
    return None

# ------------------------------------------------------------------------------------------ main

def main():
    import argparse, multiprocessing
    global SEM
    SEM = multiprocessing.BoundedSemaphore(NPROC)
    ap = argparse.ArgumentParser()
    ap.add_argument('prop')
    ap.add_argument('--tier', default=os.environ.get('VERIF_TIER', 'quick'))
    ap.add_argument('--replay')
    ap.add_argument('--unit'); ap.add_argument('--entry')
    ap.add_argument('--no-validate', action='store_true')
    ap.add_argument('-v', action='store_true')
    a = ap.parse_args()
    seed = int(os.environ.get('VERIF_SEED', '1'))
    prop = a.prop
    t0 = time.time()
    P = importlib.import_module('props.' + prop)
    if a.replay:
        return do_replay(P, prop, a.replay)
    tier = a.tier
    import irparse, glob
    for f in glob.glob(os.path.join(EVID, 'replays', prop + '_*')):
        os.remove(f)
    units = [u for u in P.UNITS if (not a.unit or u['name'] == a.unit) and tier in u.get('tiers', ('quick', 'thorough'))]
    known = load_known()
    # 1. lower every unit from /repo's current tree
    built = {}
    for u in units:
        tag = '%s/%s_%s' % (prop, u['name'], tier)
        defs = dict(u.get('defines', {}).get('all', {})); defs.update(u.get('defines', {}).get(tier, {}))
        tb = time.time()
        if u.get('engine', 'E2') == 'E2':
            ll = lower.lower(tag, [u['harness']] + u.get('sources', []), defs, u.get('flags'))
            mod = irparse.parse_file(ll)
            built[u['name']] = dict(ll=ll, mod=mod, defs=defs, tag=tag)
        else:
            built[u['name']] = dict(defs=defs, tag=tag)
        log('[%s] lowered unit %s in %.1fs' % (prop, u['name'], time.time() - tb))
    # 2. explore
    jobs = []
    for u in units:
        b = built[u['name']]
        entries = u['entries'] if not a.entry else [e for e in u['entries'] if e == a.entry]
        if u.get('engine', 'E2') == 'E1':
            import e1
            for e in entries:
                jobs.append(((u['name'], e), (lambda u=u, e=e, b=b: e1.run_entry(u, e, b, tier))))
            continue
        opts = dict(u.get('opts', {}).get('all', {})); opts.update(u.get('opts', {}).get(tier, {}))
        if a.v: opts['verbose'] = 1
        budget = u.get('budget', {}).get(tier, 240 if tier == 'quick' else 2400)
        split = u.get('split', {}).get(tier, 0)
        b['opts'] = opts
        for e in entries:
            sp = split.get(e, split.get('*', 0)) if isinstance(split, dict) else split
            jobs.append(((u['name'], e), (lambda mod=b['mod'], e=e, opts=opts, budget=budget, sp=sp: explore_entry(mod, e, opts, budget, sp))))
    results = run_jobs(jobs, max(NPROC, len(jobs)))
    # 3. judge
    violations = []; known_hits = {}; inconclusive = []; totals = {}
    funcs = set(); samples = []; per_entry = {}
    for u in units:
        exp_reach = u.get('reach', {})
        for e in u['entries']:
            if a.entry and e != a.entry: continue
            r = results.get((u['name'], e))
            if r is None: continue
            if 'error' in r:
                inconclusive.append('%s/%s: engine error: %s' % (u['name'], e, r['error'].strip().splitlines()[-1]))
                log(r['error']); continue
            s = r['stats']
            per_entry['%s/%s' % (u['name'], e)] = dict(paths=s.get('paths', 0), completed=s.get('completed', 0), queries=s.get('queries', 0),
                                                      asserts_checked=s.get('asserts_checked', 0), forks=s.get('forks', 0),
                                                      solver_s=round(s.get('solver_s', 0), 2), wall_s=round(r['wall_s'], 1),
                                                      bound_exceeded=s.get('bound_exceeded', 0), violations=s.get('violations', 0),
                                                      instrs=s.get('instrs', 0))
            for k, v in s.items():
                if isinstance(v, bool): continue
                if isinstance(v, (int, float)): totals[k] = (max(totals.get(k, 0), v) if k.startswith('max_') else totals.get(k, 0) + v)
            funcs |= set(r.get('funcs', []))
            for smp in r.get('samples', [])[:1]: samples.append(dict(unit=u['name'], entry=e, **smp))
            if s.get('timeout'): inconclusive.append('%s/%s: time budget exhausted' % (u['name'], e))
            if s.get('bound_exceeded'): inconclusive.append('%s/%s: bound exceeded %s' % (u['name'], e, r['bound_exceeded_at']))
            if s.get('unsupported'): inconclusive.append('%s/%s: unsupported %s' % (u['name'], e, r['unsupported_at']))
            if s.get('unknown'): inconclusive.append('%s/%s: %d solver queries returned unknown' % (u['name'], e, s['unknown']))
            need = exp_reach.get(e, exp_reach.get('*', ['end']))
            for tagname in need:
                if tagname not in r.get('reach', []) and not r['violations']:
                    inconclusive.append('%s/%s: vacuity witness "%s" not reached on any completed path' % (u['name'], e, tagname))
            for v in r['violations']:
                v = dict(v); v['unit'] = u['name']; v['entry'] = e
                violations.append(v)
    # 4. replay violations natively
    confirmed = []; unconfirmed = []
    outdir = os.path.join(lower.BUILD, prop, 'replays'); os.makedirs(outdir, exist_ok=True)
    exes = {}
    seen = set()
    for i, v in enumerate(violations):
        key = (v['unit'], v['entry'], v['kind'], v['msg'].split(' at ')[0])
        if key in seen: continue
        seen.add(key)
        u = [x for x in units if x['name'] == v['unit']][0]
        k = match_known(known, prop, v['unit'], v['entry'], v)
        rep = os.path.join(EVID, 'replays'); os.makedirs(rep, exist_ok=True)
        rfile = os.path.join(rep, '%s_%s_%s_%d.replay' % (prop, v['unit'], v['entry'], i))
        vals = v.get('inputs') or []
        with open(rfile, 'w') as f:
            f.write('# property=%s unit=%s entry=%s kind=%s tier=%s\n# %s\n' % (prop, v['unit'], v['entry'], v['kind'], tier, v['msg'].replace('\n', ' ')))
            for x in vals: f.write('%d\n' % x)
        status = 'unreplayed'
        if u.get('native', True) and v.get('inputs') is not None:
            ek = (v['unit'], v['entry'])
            try:
                if ek not in exes:
                    b = built[v['unit']]
                    exes[ek] = lower.native(b['tag'], [u['harness']] + u.get('native_sources', u.get('sources', [])), v['entry'], b['defs'], u.get('native_flags'))
                plain = rfile + '.vals'; write_replay(plain, vals)
                rc, out = native_replay(exes[ek], plain)
                os.remove(plain)
                status = 'confirmed' if rc not in (0, 4) else 'not-reproduced'
                v['native_rc'] = rc; v['native_out'] = out[-600:]
            except Exception as ex_:
                status = 'replay-build-failed'; v['native_out'] = str(ex_)[-300:]
        elif not u.get('native', True):
            # model environment (threads / kernel / file system): the counterexample is a choice + schedule sequence;
            # it is re-executed concretely by the engine (no solver), which must reach the same verdict
            status = 'engine-replay-only'
            try:
                import symex
                o2 = dict(u.get('opts', {}).get('all', {})); o2.update(u.get('opts', {}).get(tier, {})); o2['replay'] = vals
                ex2 = symex.Executor(built[v['unit']]['mod'], o2)
                ex2.explore(v['entry'], 120)
                v['engine_replay'] = 'reproduced' if [x for x in ex2.violations if x['kind'] == v['kind']] else 'not reproduced by the concrete re-execution (reported all the same)'
            except Exception as ex_:
                v['engine_replay'] = 'failed: %s' % str(ex_)[-200:]
        v['replay'] = rfile; v['status'] = status
        if k is not None:
            known_hits.setdefault(k['id'], []).append(v)
        elif status in ('confirmed', 'engine-replay-only', 'unreplayed', 'replay-build-failed'):
            confirmed.append(v)
        else:
            unconfirmed.append(v)
    # 5. translator validation (native random vs engine concrete)
    validation = []
    if not a.no_validate:
        vjobs = []
        for u in units:
            if u.get('engine', 'E2') != 'E2' or not u.get('native', True): continue
            b = built[u['name']]
            nval = u.get('validate_runs', {}).get(tier, 3 if tier == 'quick' else 10)
            for e in u.get('validate', u['entries'][:2]):
                if a.entry and e != a.entry: continue
                def vj(u=u, e=e, b=b, nval=nval):
                    exe = lower.native(b['tag'] + '_val', [u['harness']] + u.get('native_sources', u.get('sources', [])), e, b['defs'], u.get('native_flags'), sanitize=False)
                    return validate_translation(u, e, b['mod'], b['opts'], exe, nval, seed, os.path.join(lower.BUILD, b['tag'] + '_val'))
                vjobs.append((('val', u['name'], e), vj))
        vres = run_jobs(vjobs, NPROC)
        for key, r in sorted(vres.items()):
            if 'error' in r:
                inconclusive.append('validation %s/%s failed to run: %s' % (key[1], key[2], r['error'].strip().splitlines()[-1])); continue
            r['unit'] = key[1]; validation.append(r)
            if r['agree'] != r['runs']:
                inconclusive.append('ENGINE DISAGREEMENT %s/%s: %s' % (key[1], key[2], r['problems'][:2]))
    # 6. report
    wall = time.time() - t0
    rc = 0
    for kid, vs in sorted(known_hits.items()):
        kf = [k for k in known if k['id'] == kid][0]
        print('KNOWN-FINDING: property=%s %s [%s; re-confirmed by %d counterexample(s), e.g. %s]' % (prop, kf['what'], kid, len(vs), vs[0]['replay']))
    for k in known:
        if k['property'] == prop and k.get('status') == 'known' and k['id'] not in known_hits and not a.entry and not a.unit:
            if k.get('tiers') and tier not in k['tiers']: continue
            print('NOTE: known finding %s was not reproduced by this run (defect gone, or outside this tier\'s bounds)' % k['id'])
    for v in confirmed:
        print('VIOLATION property=%s replay=%s' % (prop, v['replay']))
        print('  unit=%s entry=%s kind=%s status=%s: %s' % (v['unit'], v['entry'], v['kind'], v['status'], v['msg']))
        rc = 1
    for v in unconfirmed:
        inconclusive.append('counterexample for %s/%s (%s: %s) did NOT reproduce natively -> engine/stub disagreement, not reported as violation; replay=%s' % (v['unit'], v['entry'], v['kind'], v['msg'][:100], v['replay']))
    for m in inconclusive: print('INCONCLUSIVE: ' + m)
    if rc == 0 and inconclusive: rc = 2
    ev = dict(property_id=prop, tier=tier, seed=seed, level='model_checking', wall_s=round(wall, 2),
              violations=len(confirmed),
              assumptions=list(getattr(P, 'ASSUMPTIONS', [])),
              coverage=dict(
                  states=int(totals.get('paths', 0)), transitions=int(totals.get('forks', 0)) + int(totals.get('paths', 0)),
                  traces_validated_against_impl=sum(r['runs'] for r in validation) + sum(1 for v in violations if v.get('status') == 'confirmed'),
                  samples=samples[:8] or [dict(note='no completed path')],
                  evaluations=int(totals.get('paths', 0)), distinct_nontrivial=int(totals.get('completed', 0)),
                  rule='one evaluation = one explored path of the real IR (a path stands for all scalar values satisfying its path condition); distinct_nontrivial = paths that ran to the end of the harness',
                  functions_encoded=sorted(f for f in funcs if not f.startswith('vf_'))[:400],
                  bounds=getattr(P, 'BOUNDS', {}).get(tier, getattr(P, 'BOUNDS', {})),
                  outside_bounds=getattr(P, 'OUTSIDE', ''),
                  queries_discharged=int(totals.get('queries', 0)), assertions_decided_by_solver=int(totals.get('asserts_checked', 0)),
                  assertions_concrete=int(totals.get('asserts_concrete', 0)),
                  queries_sat=int(totals.get('sat', 0)), queries_unsat=int(totals.get('unsat', 0)), queries_unknown=int(totals.get('unknown', 0)),
                  solver_time_s=round(totals.get('solver_s', 0), 2), instructions_interpreted=int(totals.get('instrs', 0)),
                  bound_exceeded=int(totals.get('bound_exceeded', 0)), per_entry=per_entry,
                  translator_validation=validation, inconclusive=inconclusive,
                  known_findings_reconfirmed=sorted(known_hits), violations_reported=[dict(unit=v['unit'], entry=v['entry'], kind=v['kind'], msg=v['msg'][:200], replay=v['replay'], status=v['status'], engine_replay=v.get('engine_replay')) for v in confirmed],
                  engine='E2 symbolic executor over clang-14 -O1 LLVM IR regenerated from /repo (python + z3 %s)' % _z3v(),
                  exhaustive=False))
    if hasattr(P, 'finish_evidence'): P.finish_evidence(ev, results)
    os.makedirs(EVID, exist_ok=True)
    with open(os.path.join(EVID, prop + '.json'), 'w') as f:
        json.dump(ev, f, indent=1, default=str)
    print('%s tier=%s: %d paths, %d solver queries (%.1fs solver), %d assertions decided, %d violation(s), %d known finding(s), %d inconclusive, wall %.1fs -> exit %d' % (
        prop, tier, totals.get('paths', 0), totals.get('queries', 0), totals.get('solver_s', 0), totals.get('asserts_checked', 0), len(confirmed), len(known_hits), len(inconclusive), wall, rc))
    return rc

def _z3v():
    import z3
    return z3.get_version_string()

def do_replay(P, prop, path):
    """re-run a counterexample file natively"""
    hdr = open(path).read().splitlines()
    m = re.search(r'unit=(\S+) entry=(\S+)', hdr[0])
    unit, entry = m.group(1), m.group(2)
    u = [x for x in P.UNITS if x['name'] == unit][0]
    vals = [int(x) for x in hdr if x and not x.startswith('#')]
    mt = re.search(r'tier=(\S+)', hdr[0]); rtier = mt.group(1) if mt else 'quick'
    defs = dict(u.get('defines', {}).get('all', {})); defs.update(u.get('defines', {}).get(rtier, {}))
    if not u.get('native', True):
        # model environment (threads / kernel): the counterexample is a choice and schedule sequence, re-executed by the engine
        import irparse, symex
        ll = lower.lower('%s/%s_replay' % (prop, unit), [u['harness']] + u.get('sources', []), defs, u.get('flags'))
        opts = dict(u.get('opts', {}).get('all', {})); opts.update(u.get('opts', {}).get(rtier, {})); opts['replay'] = vals; opts['verbose'] = 1
        ex = symex.Executor(irparse.parse_file(ll), opts)
        ex.explore(entry, 120)
        for v in ex.violations[:3]: print('engine replay: %s: %s' % (v['kind'], v['msg']))
        print('engine replay: %d violation(s)' % len(ex.violations))
        return 1 if ex.violations else 0
    exe = lower.native('%s/%s_replay' % (prop, unit), [u['harness']] + u.get('native_sources', u.get('sources', [])), entry, defs, u.get('native_flags'))
    plain = path + '.vals'; write_replay(plain, vals)
    rc, out = native_replay(exe, plain); os.remove(plain)
    print(out)
    print('replay exit code', rc)
    return 1 if rc else 0

if __name__ == '__main__':
    sys.exit(main())
