"""POSIX socket / epoll / eventfd model for C13 and C14 (the kernel is the trusted base, written from the man pages).

Per-path state lives in st.ghost['net'] (copied on fork):
  fds:   fd -> dict(kind='sock'|'epoll'|'eventfd'|'listen', peer=fd|None, inq=[byte values], peer_closed=bool, counter=int,
                    interest={fd: (mask, dataptr)}, pending_accepts=int)
  script: harness-controlled readiness / outcomes (vf_net_* intrinsics)
"""
import z3, copy
import ops
from mem import MemError

EPOLLIN, EPOLLOUT, EPOLLRDHUP, EPOLLHUP = 0x1, 0x4, 0x2000, 0x10
EAGAIN, ECONNRESET, EBADF, ENOENT, EEXIST = 11, 104, 9, 2, 17

class Net:
    def __init__(self):
        self.fds = {}; self.next_fd = 3
        self.send_script = {}      # fd -> list of scripted outcomes: ('block',) ('error',) ('zero',) ('n', k)  (default: choose)
        self.writable = set()      # fds the harness declared writable
        self.log = []
    def copy(self):
        n = Net.__new__(Net)
        n.fds = {k: dict(v, inq=list(v.get('inq', [])), interest=dict(v.get('interest', {}))) for k, v in self.fds.items()}
        n.next_fd = self.next_fd
        n.send_script = {k: list(v) for k, v in self.send_script.items()}
        n.writable = set(self.writable); n.log = list(self.log)
        return n

def net(st):
    n = st.ghost.get('net')
    if n is None:
        n = Net(); st.ghost['net'] = n
    return n

def _newfd(n, kind, **kw):
    fd = n.next_fd; n.next_fd += 1
    d = dict(kind=kind, peer=None, inq=[], peer_closed=False, counter=0, interest={}, pending_accepts=0, closed=False)
    d.update(kw); n.fds[fd] = d
    return fd

def _seterrno(ex, st, e):
    import builtins_ as B
    st.mem.store(B.b_errno(ex, st, [], None), 4, e)

def _fd(ex, st, v, what):
    if not isinstance(v, int): v = ex.concretize(st, v, 32, what)
    return ops.sgn(v & 0xffffffff, 32)

def register(builtin):
    import builtins_ as B

    @builtin('socket')
    def b_socket(ex, st, args, ins): return _newfd(net(st), 'sock')

    @builtin('socketpair')
    def b_socketpair(ex, st, args, ins):
        n = net(st); a = _newfd(n, 'sock'); b = _newfd(n, 'sock')
        n.fds[a]['peer'] = b; n.fds[b]['peer'] = a
        st.mem.store(args[3], 4, a); st.mem.store(args[3] + 4, 4, b)
        return 0

    @builtin('fcntl', 'fcntl64', 'setsockopt', 'ioctl', 'shutdown', 'bind', 'listen', 'connect')
    def b_ok(ex, st, args, ins): return 0

    @builtin('getsockopt')
    def b_getsockopt(ex, st, args, ins):
        st.mem.store(args[3], 4, 0); return 0

    @builtin('close')
    def b_close(ex, st, args, ins):
        n = net(st); fd = _fd(ex, st, args[0], 'close fd')
        d = n.fds.get(fd)
        if d is None or d['closed']:
            _seterrno(ex, st, EBADF); return ops.mask(32)
        d['closed'] = True
        if d['peer'] is not None and d['peer'] in n.fds: n.fds[d['peer']]['peer_closed'] = True
        for e in n.fds.values(): e['interest'].pop(fd, None)      # closing a descriptor removes it from epoll sets
        n.writable.discard(fd)
        return 0

    @builtin('send')
    def b_send(ex, st, args, ins):
        n = net(st); fd = _fd(ex, st, args[0], 'send fd'); buf = args[1]; size = args[2]
        if not isinstance(size, int): size = ex.concretize(st, size, 64, 'send size')
        d = n.fds.get(fd)
        if d is None or d['closed']:
            _seterrno(ex, st, EBADF); return ops.mask(64)
        if size: st.mem.resolve(buf, size)
        sc = n.send_script.get(fd)
        if sc:
            out = sc.pop(0)
        else:
            # the operating system may refuse, fail, or accept any non-empty prefix: split over all outcomes
            k = len(st.inputs)
            p = st.ghost.get('pick')
            nout = 2 + size
            if p is not None and p[0] == id(ins) and p[1] == k:
                st.ghost.pop('pick', None); idx = p[2]
            else:
                for i in range(nout - 1, 0, -1):
                    sib = st.fork(); sib.ghost['pick'] = (id(ins), k, i); ex.push_state(sib)
                idx = 0
                n = net(st)
                d = n.fds[fd]
            st.inputs.append(('send-outcome', idx))
            out = ('block',) if idx == 0 else ('error',) if idx == 1 else ('n', idx - 1)
        if out[0] == 'block':
            _seterrno(ex, st, EAGAIN); return ops.mask(64)
        if out[0] == 'error' or d['peer_closed']:
            _seterrno(ex, st, ECONNRESET); return ops.mask(64)
        if out[0] == 'zero': return 0
        k = min(out[1], size)
        peer = n.fds.get(d['peer'])
        data = [st.mem.load(buf + i, 1) for i in range(k)]
        if peer is not None: peer['inq'] += data
        n.log.append(('send', fd, k))
        return k

    @builtin('recv')
    def b_recv(ex, st, args, ins):
        n = net(st); fd = _fd(ex, st, args[0], 'recv fd'); buf = args[1]; size = args[2]
        if not isinstance(size, int): size = ex.concretize(st, size, 64, 'recv size')
        d = n.fds.get(fd)
        if d is None or d['closed']:
            _seterrno(ex, st, EBADF); return ops.mask(64)
        if not d['inq']:
            if d['peer_closed']: return 0
            _seterrno(ex, st, EAGAIN); return ops.mask(64)
        k = min(size, len(d['inq']))
        for i in range(k): st.mem.store(buf + i, 1, d['inq'][i])
        del d['inq'][:k]
        return k

    @builtin('accept4', 'accept')
    def b_accept(ex, st, args, ins):
        n = net(st); fd = _fd(ex, st, args[0], 'accept fd'); d = n.fds.get(fd)
        if d is None or d['closed'] or d['pending_accepts'] <= 0:
            _seterrno(ex, st, EAGAIN); return ops.mask(32)
        d['pending_accepts'] -= 1
        a = _newfd(n, 'sock'); b = _newfd(n, 'sock'); n.fds[a]['peer'] = b; n.fds[b]['peer'] = a
        if args[1]: st.mem.memset(args[1], 0, 16)
        return a

    @builtin('epoll_create1', 'epoll_create')
    def b_epoll_create(ex, st, args, ins): return _newfd(net(st), 'epoll')

    @builtin('epoll_ctl')
    def b_epoll_ctl(ex, st, args, ins):
        n = net(st); ep = _fd(ex, st, args[0], 'epfd'); op = args[1]; fd = _fd(ex, st, args[2], 'epoll_ctl fd'); ev = args[3]
        e = n.fds.get(ep); t = n.fds.get(fd)
        if e is None or e['kind'] != 'epoll' or e['closed'] or t is None or t['closed']:
            _seterrno(ex, st, EBADF); return ops.mask(32)
        if op == 1:      # ADD
            if fd in e['interest']: _seterrno(ex, st, EEXIST); return ops.mask(32)
            e['interest'][fd] = (st.mem.load(ev, 4), st.mem.load(ev + 4, 8))
        elif op == 3:    # MOD
            if fd not in e['interest']: _seterrno(ex, st, ENOENT); return ops.mask(32)
            e['interest'][fd] = (st.mem.load(ev, 4), st.mem.load(ev + 4, 8))
        elif op == 2:    # DEL
            if fd not in e['interest']: _seterrno(ex, st, ENOENT); return ops.mask(32)
            del e['interest'][fd]
        return 0

    def ready_mask(n, fd):
        d = n.fds[fd]; m = 0
        if d['kind'] == 'eventfd':
            return EPOLLIN if d['counter'] > 0 else 0
        if d['inq'] or d['pending_accepts'] > 0: m |= EPOLLIN
        if d['peer_closed']: m |= EPOLLIN | EPOLLRDHUP
        if fd in n.writable: m |= EPOLLOUT
        return m

    @builtin('epoll_wait')
    def b_epoll_wait(ex, st, args, ins):
        n = net(st); ep = _fd(ex, st, args[0], 'epfd'); evs = args[1]; maxev = args[2]; timeout = args[3]
        if not isinstance(timeout, int): timeout = ex.concretize(st, timeout, 32, 'epoll timeout')
        timeout = ops.sgn(timeout & 0xffffffff, 32)
        e = n.fds.get(ep)
        if e is None or e['closed']: _seterrno(ex, st, EBADF); return ops.mask(32)
        def collect():
            out = []
            for fd, (mask, data) in e['interest'].items():
                if n.fds[fd]['closed']: continue
                r = ready_mask(n, fd) & (mask | EPOLLHUP)
                if r: out.append((r, data))
            return out
        out = collect()
        if not out:
            if timeout == 0: return 0
            if timeout > 0:
                th = st.threads[st.cur]
                if len([t for t in st.threads if t.status != 'done']) > 1 and B._wake_reason(st, th.tid) != 'timeout':
                    # other threads exist: wait until something is ready; the timeout fires only when the scheduler lets time pass
                    th.status = 'blocked'
                    def w2(ex_, st_, t_, ep=ep):
                        nn = net(st_); ee = nn.fds[ep]
                        for fd, (mask, data) in ee['interest'].items():
                            if not nn.fds[fd]['closed'] and (ready_mask(nn, fd) & (mask | EPOLLHUP)): return True
                        return 'timeout'
                    th.wait = w2
                    raise B.Blocked()
                # nothing ready: the timeout expires (time passes)
                st.ghost['clock_ns'] = B._clock(st) + timeout * 1000000
                return 0
            # infinite wait: block until something becomes ready (another thread must make it so)
            th = st.threads[st.cur]
            th.status = 'blocked'
            def w(ex_, st_, t_, ep=ep):
                nn = net(st_); ee = nn.fds[ep]
                for fd, (mask, data) in ee['interest'].items():
                    if not nn.fds[fd]['closed'] and (ready_mask(nn, fd) & (mask | EPOLLHUP)): return True
                return False
            th.wait = w
            raise B.Blocked()
        out = out[:maxev]
        for i, (r, data) in enumerate(out):
            st.mem.store(evs + 12 * i, 4, r); st.mem.store(evs + 12 * i + 4, 8, data)
        n.writable.clear()       # writability is level-triggered in reality; the harness re-arms it per round
        return len(out)

    @builtin('eventfd')
    def b_eventfd(ex, st, args, ins):
        return _newfd(net(st), 'eventfd', counter=args[0] if isinstance(args[0], int) else 0)

    @builtin('write')
    def b_write(ex, st, args, ins):
        n = net(st); fd = _fd(ex, st, args[0], 'write fd'); d = n.fds.get(fd)
        if d is None or d['closed']: _seterrno(ex, st, EBADF); return ops.mask(64)
        if d['kind'] == 'eventfd':
            v = st.mem.load(args[1], 8)
            d['counter'] += v if isinstance(v, int) else 1
            return 8
        return args[2]

    @builtin('read')
    def b_read(ex, st, args, ins):
        n = net(st); fd = _fd(ex, st, args[0], 'read fd'); d = n.fds.get(fd)
        if d is None or d['closed']: _seterrno(ex, st, EBADF); return ops.mask(64)
        if d['kind'] == 'eventfd':
            if d['counter'] == 0: _seterrno(ex, st, EAGAIN); return ops.mask(64)
            st.mem.store(args[1], 8, d['counter']); d['counter'] = 0
            return 8
        return 0

    # ---- harness intrinsics
    @builtin('vf_net_writable')
    def vf_net_writable(ex, st, args, ins):
        net(st).writable.add(_fd(ex, st, args[0], 'fd')); return None
    @builtin('vf_net_feed')
    def vf_net_feed(ex, st, args, ins):
        n = net(st); fd = _fd(ex, st, args[0], 'fd'); cnt = args[2]
        n.fds[fd]['inq'] += [st.mem.load(args[1] + i, 1) for i in range(cnt)]
        return None
    @builtin('vf_net_pending_accept')
    def vf_net_pending_accept(ex, st, args, ins):
        net(st).fds[_fd(ex, st, args[0], 'fd')]['pending_accepts'] += 1; return None
    @builtin('vf_net_script_send')
    def vf_net_script_send(ex, st, args, ins):
        n = net(st); fd = _fd(ex, st, args[0], 'fd'); kind = args[1]; k = args[2]
        n.send_script.setdefault(fd, []).append([('block',), ('error',), ('zero',), ('n', k)][kind] if kind != 3 else ('n', k))
        return None
    @builtin('vf_clock_advance_ms')
    def vf_clock_advance_ms(ex, st, args, ins):
        ms = args[0]
        if not isinstance(ms, int): ms = ex.concretize(st, ms, 64, 'clock advance')
        st.ghost['clock_ns'] = B._clock(st) + ms * 1000000
        return None
