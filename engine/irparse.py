"""LLVM-14 textual IR parser (typed pointers) -- enough for clang++-14 -O1 output of libnstd harnesses.

Produces a Module with types, globals (with constant initialisers) and functions whose instructions
are parsed into small Python tuples/objects that engine/symex.py and engine/ll2c.py consume.
"""
import re, struct

# ----------------------------------------------------------------------------------------- types

class Type:
    __slots__ = ()
class VoidT(Type):
    __slots__ = ()
    def __repr__(self): return 'void'
class LabelT(Type):
    __slots__ = ()
    def __repr__(self): return 'label'
class MetaT(Type):
    __slots__ = ()
    def __repr__(self): return 'metadata'
class IntT(Type):
    __slots__ = ('bits',)
    def __init__(self, bits): self.bits = bits
    def __repr__(self): return 'i%d' % self.bits
class FloatT(Type):
    __slots__ = ('bits',)
    def __init__(self, bits): self.bits = bits
    def __repr__(self): return {32: 'float', 64: 'double', 80: 'x86_fp80'}[self.bits]
class PtrT(Type):
    __slots__ = ('elem',)
    def __init__(self, elem): self.elem = elem
    def __repr__(self): return '%r*' % (self.elem,)
class ArrT(Type):
    __slots__ = ('n', 'elem')
    def __init__(self, n, elem): self.n = n; self.elem = elem
    def __repr__(self): return '[%d x %r]' % (self.n, self.elem)
class VecT(Type):
    __slots__ = ('n', 'elem')
    def __init__(self, n, elem): self.n = n; self.elem = elem
    def __repr__(self): return '<%d x %r>' % (self.n, self.elem)
class StructT(Type):
    __slots__ = ('name', 'elems', 'packed', '_layout', 'opaque')
    def __init__(self, name, elems, packed=False):
        self.name = name; self.elems = elems; self.packed = packed; self._layout = None; self.opaque = False
    def __repr__(self): return self.name or ('{' + ', '.join(map(repr, self.elems)) + '}')
class FuncT(Type):
    __slots__ = ('ret', 'params', 'vararg')
    def __init__(self, ret, params, vararg): self.ret = ret; self.params = params; self.vararg = vararg
    def __repr__(self): return '%r (%s%s)' % (self.ret, ', '.join(map(repr, self.params)), ', ...' if self.vararg else '')

VOID = VoidT(); LABEL = LabelT(); META = MetaT()
_ints = {}
def IntTy(b):
    t = _ints.get(b)
    if t is None: t = _ints[b] = IntT(b)
    return t
I1 = IntTy(1); I8 = IntTy(8); I32 = IntTy(32); I64 = IntTy(64)
F32 = FloatT(32); F64 = FloatT(64); F80 = FloatT(80)

def align_of(t):
    if isinstance(t, IntT):
        b = t.bits
        return 1 if b <= 8 else 2 if b <= 16 else 4 if b <= 32 else 8 if b <= 64 else 16
    if isinstance(t, PtrT): return 8
    if isinstance(t, FloatT): return {32: 4, 64: 8, 80: 16}[t.bits]
    if isinstance(t, ArrT): return align_of(t.elem)
    if isinstance(t, VecT): return min(16, size_of(t))
    if isinstance(t, StructT):
        if t.packed: return 1
        return max([align_of(e) for e in t.elems] + [1])
    raise ValueError('align_of %r' % (t,))

def size_of(t):
    if isinstance(t, IntT): return (t.bits + 7) // 8 if t.bits not in (1,) else 1
    if isinstance(t, PtrT): return 8
    if isinstance(t, FloatT): return {32: 4, 64: 8, 80: 16}[t.bits]
    if isinstance(t, ArrT): return t.n * alloc_size(t.elem)
    if isinstance(t, VecT): return t.n * size_of(t.elem)
    if isinstance(t, StructT): return struct_layout(t)[1]
    raise ValueError('size_of %r' % (t,))

def alloc_size(t):
    s = size_of(t); a = align_of(t)
    return (s + a - 1) // a * a

def struct_layout(t):
    if t._layout is None:
        if t.opaque: raise ValueError('opaque struct %s' % t.name)
        off = 0; offs = []
        for e in t.elems:
            a = 1 if t.packed else align_of(e)
            off = (off + a - 1) // a * a
            offs.append(off)
            off += alloc_size(e) if not t.packed else size_of(e)
        a = 1 if t.packed else max([align_of(e) for e in t.elems] + [1])
        off = (off + a - 1) // a * a
        t._layout = (offs, off)
    return t._layout

# ----------------------------------------------------------------------------------------- values

class Const:
    """kinds: int(v) float(v) null undef zero str(bytes) array([..]) struct([..]) global(name) expr(op, args, extra)"""
    __slots__ = ('kind', 'ty', 'v', 'extra')
    def __init__(self, kind, ty, v=None, extra=None):
        self.kind = kind; self.ty = ty; self.v = v; self.extra = extra
    def __repr__(self): return 'Const(%s %r %r)' % (self.kind, self.ty, self.v)

class Local:
    __slots__ = ('name', 'ty')
    def __init__(self, name, ty): self.name = name; self.ty = ty
    def __repr__(self): return '%%%s' % self.name

class Instr:
    __slots__ = ('op', 'dest', 'ty', 'args', 'extra', 'line')
    def __init__(self, op, dest, ty, args, extra=None, line=''):
        self.op = op; self.dest = dest; self.ty = ty; self.args = args; self.extra = extra; self.line = line
    def __repr__(self): return self.line.strip()

class Block:
    __slots__ = ('name', 'instrs')
    def __init__(self, name): self.name = name; self.instrs = []

class Function:
    def __init__(self, name, fty, params, attrs):
        self.name = name; self.fty = fty; self.params = params; self.blocks = []; self.attrs = attrs
        self.is_decl = True

class Global:
    def __init__(self, name, ty, init, const, external):
        self.name = name; self.ty = ty; self.init = init; self.const = const; self.external = external

class Module:
    def __init__(self):
        self.types = {}; self.globals = {}; self.functions = {}; self.aliases = {}

# ----------------------------------------------------------------------------------------- lexer

_TOK = re.compile(r'''
    (?P<ws>\s+|;[^\n]*)
  | (?P<str>c?"[^"]*")
  | (?P<local>%(?:"[^"]*"|[-a-zA-Z$._0-9]+))
  | (?P<glob>@(?:"[^"]*"|[-a-zA-Z$._0-9]+))
  | (?P<meta>![-a-zA-Z$._0-9]*)
  | (?P<attr>\#\d+)
  | (?P<num>-?\d+\.\d+(?:e[+-]?\d+)?|0x[KLMHR]?[0-9A-Fa-f]+|-?\d+)
  | (?P<word>[a-zA-Z_][-a-zA-Z$._0-9]*)
  | (?P<punct>\.\.\.|[()\[\]{}<>=,*:])
''', re.X)

def tokenize(s):
    out = []; pos = 0; n = len(s)
    while pos < n:
        m = _TOK.match(s, pos)
        if not m: raise SyntaxError('lex error at %r' % s[pos:pos + 40])
        pos = m.end()
        k = m.lastgroup
        if k == 'ws': continue
        out.append((k, m.group()))
    return out

def _unquote(name):
    if name.startswith('"'): return name[1:-1]
    return name

def _cstring(tok):
    body = tok[2:-1]  # c"..."
    out = bytearray(); i = 0
    while i < len(body):
        ch = body[i]
        if ch == '\\':
            if body[i + 1] == '\\': out.append(92); i += 2
            else: out.append(int(body[i + 1:i + 3], 16)); i += 3
        else:
            out += ch.encode('utf-8'); i += 1
    return bytes(out)

PARAM_ATTRS = {'noundef', 'nonnull', 'zeroext', 'signext', 'nocapture', 'readonly', 'writeonly', 'noalias', 'immarg',
               'inreg', 'returned', 'readnone', 'nofree', 'nest', 'swiftself', 'noext', 'allocalign', 'allocptr'}
PARAM_ATTRS_ARG = {'align', 'dereferenceable', 'dereferenceable_or_null', 'byval', 'sret', 'byref', 'inalloca', 'preallocated', 'elementtype'}
LINKAGE = {'private', 'internal', 'available_externally', 'linkonce', 'weak', 'common', 'appending', 'extern_weak',
           'linkonce_odr', 'weak_odr', 'external', 'dso_local', 'dso_preemptable', 'default', 'hidden', 'protected',
           'unnamed_addr', 'local_unnamed_addr', 'thread_local', 'externally_initialized', 'dllimport', 'dllexport'}
CCONV = {'ccc', 'fastcc', 'coldcc'}
FMF = {'fast', 'nnan', 'ninf', 'nsz', 'arcp', 'contract', 'afn', 'reassoc'}
BINOPS = {'add', 'sub', 'mul', 'udiv', 'sdiv', 'urem', 'srem', 'shl', 'lshr', 'ashr', 'and', 'or', 'xor',
          'fadd', 'fsub', 'fmul', 'fdiv', 'frem'}
CASTS = {'trunc', 'zext', 'sext', 'fptrunc', 'fpext', 'fptoui', 'fptosi', 'uitofp', 'sitofp', 'ptrtoint', 'inttoptr',
         'bitcast', 'addrspacecast'}
ORDERINGS = {'unordered', 'monotonic', 'acquire', 'release', 'acq_rel', 'seq_cst'}

class P:
    """token stream parser"""
    def __init__(self, mod, toks, src=''):
        self.m = mod; self.t = toks; self.i = 0; self.src = src
    def peek(self, k=0):
        j = self.i + k
        return self.t[j] if j < len(self.t) else ('eof', '')
    def next(self):
        tok = self.peek(); self.i += 1; return tok
    def at(self, val): return self.peek()[1] == val
    def accept(self, val):
        if self.peek()[1] == val and self.peek()[0] != 'str':
            self.i += 1; return True
        return False
    def expect(self, val):
        tok = self.next()
        if tok[1] != val: raise SyntaxError('expected %r got %r in: %s' % (val, tok[1], self.src[:200]))
    def eof(self): return self.i >= len(self.t)

    # ---- types
    def type(self):
        k, v = self.next()
        if k == 'word':
            if v == 'void': t = VOID
            elif v[0] == 'i' and v[1:].isdigit(): t = IntTy(int(v[1:]))
            elif v == 'float': t = F32
            elif v == 'double': t = F64
            elif v == 'x86_fp80': t = F80
            elif v == 'label': t = LABEL
            elif v == 'metadata': t = META
            elif v == 'ptr': t = PtrT(I8)
            elif v == 'opaque':
                t = StructT(None, []); t.opaque = True
            else: raise SyntaxError('type? %r in %s' % (v, self.src[:200]))
        elif k == 'local':
            name = _unquote(v[1:])
            t = self.m.types.get(name)
            if t is None:
                t = StructT(name, []); t.opaque = True; self.m.types[name] = t
        elif v == '[':
            n = int(self.next()[1]); self.expect('x'); e = self.type(); self.expect(']'); t = ArrT(n, e)
        elif v == '{':
            t = StructT(None, self._struct_body('}'))
        elif v == '<':
            if self.at('{'):
                self.next(); t = StructT(None, self._struct_body('}'), packed=True); self.expect('>')
            else:
                n = int(self.next()[1]); self.expect('x'); e = self.type(); self.expect('>'); t = VecT(n, e)
        else: raise SyntaxError('type? %r in %s' % (v, self.src[:200]))
        # suffixes
        while True:
            if self.at('*'):
                self.next(); t = PtrT(t)
            elif self.at('(') :
                # function type
                self.next(); params = []; va = False
                while not self.at(')'):
                    if self.at('...'): self.next(); va = True
                    else: params.append(self.type())
                    self.accept(',')
                self.expect(')'); t = FuncT(t, params, va)
            elif self.at('addrspace'):
                self.next(); self.expect('('); self.next(); self.expect(')')
            else: break
        return t
    def _struct_body(self, close):
        elems = []
        while not self.at(close):
            elems.append(self.type()); self.accept(',')
        self.expect(close)
        return elems

    # ---- values
    def value(self, ty, locals_=None):
        k, v = self.next()
        if k == 'local':
            return Local(_unquote(v[1:]), ty)
        if k == 'glob':
            return Const('global', ty, _unquote(v[1:]))
        if k == 'num':
            if isinstance(ty, FloatT):
                return Const('float', ty, _parse_float(v, ty))
            return Const('int', ty, int(v) & ((1 << ty.bits) - 1))
        if k == 'str':
            return Const('str', ty, _cstring(v))
        if k == 'word':
            if v == 'true': return Const('int', ty, 1)
            if v == 'false': return Const('int', ty, 0)
            if v == 'null': return Const('null', ty, 0)
            if v in ('undef', 'poison'): return Const('undef', ty)
            if v == 'zeroinitializer': return Const('zero', ty)
            if v == 'getelementptr':
                inb = self.accept('inbounds'); self.expect('(')
                sty = self.type(); self.expect(',')
                bt = self.type(); base = self.value(bt)
                idx = []
                while self.accept(','):
                    self.accept('inrange')
                    it = self.type(); idx.append(self.value(it))
                self.expect(')')
                return Const('expr', ty, 'getelementptr', (sty, base, idx))
            if v in CASTS:
                self.expect('('); st = self.type(); a = self.value(st); self.expect('to'); dt = self.type(); self.expect(')')
                return Const('expr', dt, v, (a,))
            if v in BINOPS:
                while self.peek()[1] in ('nuw', 'nsw', 'exact'): self.next()
                self.expect('('); t1 = self.type(); a = self.value(t1); self.expect(','); t2 = self.type(); b = self.value(t2); self.expect(')')
                return Const('expr', t1, v, (a, b))
            if v == 'icmp':
                pred = self.next()[1]
                self.expect('('); t1 = self.type(); a = self.value(t1); self.expect(','); t2 = self.type(); b = self.value(t2); self.expect(')')
                return Const('expr', I1, 'icmp', (pred, a, b))
            if v == 'select':
                self.expect('('); t0 = self.type(); c = self.value(t0); self.expect(','); t1 = self.type(); a = self.value(t1); self.expect(','); t2 = self.type(); b = self.value(t2); self.expect(')')
                return Const('expr', t1, 'select', (c, a, b))
            if v == 'blockaddress' or v == 'dso_local_equivalent' or v == 'no_cfi':
                raise SyntaxError('unsupported constant ' + v)
        if v == '[':
            elems = []
            while not self.at(']'):
                et = self.type(); elems.append(self.value(et)); self.accept(',')
            self.expect(']')
            return Const('array', ty, elems)
        if v == '{':
            elems = []
            while not self.at('}'):
                et = self.type(); elems.append(self.value(et)); self.accept(',')
            self.expect('}')
            return Const('struct', ty, elems)
        if v == '<':
            if self.at('{'):
                self.next(); elems = []
                while not self.at('}'):
                    et = self.type(); elems.append(self.value(et)); self.accept(',')
                self.expect('}'); self.expect('>')
                return Const('struct', ty, elems)
            elems = []
            while not self.at('>'):
                et = self.type(); elems.append(self.value(et)); self.accept(',')
            self.expect('>')
            return Const('array', ty, elems)
        raise SyntaxError('value? %r (%s) in %s' % (v, k, self.src[:300]))

    def typed_value(self):
        t = self.type()
        self.skip_param_attrs()
        return self.value(t)

    def skip_param_attrs(self):
        while True:
            k, v = self.peek()
            if k != 'word': return
            if v in PARAM_ATTRS: self.next()
            elif v in PARAM_ATTRS_ARG:
                self.next()
                if v == 'align':
                    if self.at('('): self._skip_parens()
                    else: self.next()
                else:
                    if self.at('('): self._skip_parens()
            else: return
    def _skip_parens(self):
        self.expect('('); d = 1
        while d:
            v = self.next()[1]
            if v == '(': d += 1
            elif v == ')': d -= 1

def _parse_float(v, ty):
    if v.startswith('0x'):
        if v[2] in 'KLMHR':
            if v[2] == 'K':   # x86_fp80: keep raw 80-bit
                return ('fp80', int(v[3:], 16))
            raise SyntaxError('float format ' + v)
        bits = int(v, 16)
        d = struct.unpack('<d', struct.pack('<Q', bits))[0]
        return d   # float constants are written as the double value
    return float(v)

# ----------------------------------------------------------------------------------------- module parser

_label_re = re.compile(r'^(?:([-a-zA-Z$._0-9]+)|"([^"]*)"):')

def parse_module(text):
    mod = Module()
    lines = text.split('\n')
    i = 0; n = len(lines)
    # pass 1: named types (so forward references resolve to the same object)
    for ln in lines:
        if ln.startswith('%') and ' = type ' in ln:
            nm = ln.split(' = type ', 1)[0].strip()
            name = _unquote(nm[1:])
            t = StructT(name, []); t.opaque = True
            mod.types[name] = t
    pending_funcs = []
    while i < n:
        ln = lines[i]; i += 1
        if not ln or ln[0] == ';' or ln.startswith('source_filename') or ln.startswith('target ') \
           or ln.startswith('attributes ') or ln[0] == '!' or ln[0] == '$' or ln.startswith('module asm'):
            continue
        if ln[0] == '%':
            nm, rest = ln.split(' = type ', 1)
            name = _unquote(nm.strip()[1:])
            t = mod.types[name]
            rest = rest.strip()
            if rest == 'opaque': continue
            p = P(mod, tokenize(rest), ln)
            body = p.type()
            t.elems = body.elems; t.packed = body.packed; t.opaque = False
            continue
        if ln[0] == '@':
            _parse_global(mod, ln)
            continue
        if ln.startswith('declare'):
            _parse_func_header(mod, ln, False)
            continue
        if ln.startswith('define'):
            f = _parse_func_header(mod, ln, True)
            body = []
            while lines[i] != '}':
                body.append(lines[i]); i += 1
            i += 1
            pending_funcs.append((f, body))
            continue
        raise SyntaxError('toplevel? ' + ln[:200])
    for f, body in pending_funcs:
        _parse_body(mod, f, body)
    return mod

def _parse_global(mod, ln):
    toks = tokenize(ln)
    p = P(mod, toks, ln)
    name = _unquote(p.next()[1][1:]); p.expect('=')
    external = False
    while True:
        k, v = p.peek()
        if v in LINKAGE:
            if v in ('external', 'extern_weak'): external = True
            p.next()
            if v == 'thread_local' and p.at('('): p._skip_parens()
        elif v == 'addrspace': p.next(); p._skip_parens()
        else: break
    k, v = p.next()
    if v == 'alias' or v == 'ifunc':
        ty = p.type(); p.expect(','); t2 = p.type(); tgt = p.value(t2)
        mod.aliases[name] = tgt
        return
    const = (v == 'constant')
    ty = p.type()
    init = None
    if not p.eof() and not p.at(','):
        init = p.value(ty)
    mod.globals[name] = Global(name, ty, init, const, external and init is None)

def _parse_func_header(mod, ln, is_def):
    toks = tokenize(ln)
    p = P(mod, toks, ln)
    p.next()  # define/declare
    while True:
        k, v = p.peek()
        if v in LINKAGE or v in CCONV: p.next()
        elif v in PARAM_ATTRS: p.next()
        elif v in PARAM_ATTRS_ARG:
            p.skip_param_attrs()
        else: break
    ret = p.type()
    name = _unquote(p.next()[1][1:])
    p.expect('(')
    params = []; ptys = []; va = False; idx = 0
    while not p.at(')'):
        if p.at('...'):
            p.next(); va = True
        else:
            t = p.type(); p.skip_param_attrs()
            pname = None
            if p.peek()[0] == 'local':
                pname = _unquote(p.next()[1][1:])
                if pname.isdigit(): idx = int(pname) + 1
            else:
                pname = str(idx); idx += 1
            params.append(Local(pname, t)); ptys.append(t)
        p.accept(',')
    p.expect(')')
    attrs = [v for k, v in toks[p.i:]]
    f = Function(name, FuncT(ret, ptys, va), params, attrs)
    f.is_decl = not is_def
    old = mod.functions.get(name)
    if old is None or (old.is_decl and is_def):
        mod.functions[name] = f
    else:
        f = old if not is_def else f
    return f

def _parse_body(mod, f, lines):
    # merge multi-line switch
    merged = []
    j = 0
    while j < len(lines):
        ln = lines[j]; j += 1
        s = ln.strip()
        if not s: continue
        if s.startswith('switch ') and not s.rstrip().endswith(']'):
            while not lines[j].strip().startswith(']'):
                ln += ' ' + lines[j].strip(); j += 1
            ln += ' ]'; j += 1
        merged.append(ln)
    nparams = len(f.params)
    cur = Block(str(_first_label(f)))
    f.blocks = [cur]
    first = True
    for ln in merged:
        m = _label_re.match(ln)
        if m:
            name = m.group(1) if m.group(1) is not None else m.group(2)
            if first and not cur.instrs:
                cur.name = name
            else:
                cur = Block(name); f.blocks.append(cur)
            first = False
            continue
        first = False
        ins = _parse_instr(mod, ln)
        if ins is not None: cur.instrs.append(ins)
    f.is_decl = False

def _first_label(f):
    # unnamed entry block gets the next unnamed number after the unnamed params
    return sum(1 for p_ in f.params if p_.name.isdigit())

def _strip_meta(toks):
    # drop trailing ", !foo !N" metadata attachments and "#N" attribute refs
    out = []
    i = 0; n = len(toks)
    while i < n:
        k, v = toks[i]
        if k == 'meta':
            # remove preceding comma
            if out and out[-1][1] == ',': out.pop()
            # skip "!name !N" or "!N" or "!{...}"
            i += 1
            if i < n and toks[i][0] == 'meta': i += 1
            elif i < n and toks[i][1] == '{':
                d = 0
                while i < n:
                    if toks[i][1] == '{': d += 1
                    elif toks[i][1] == '}':
                        d -= 1
                        if d == 0: i += 1; break
                    i += 1
            continue
        if k == 'attr':
            i += 1; continue
        out.append(toks[i]); i += 1
    return out

def _parse_instr(mod, ln):
    toks = _strip_meta(tokenize(ln))
    if not toks: return None
    p = P(mod, toks, ln)
    dest = None
    if p.peek()[0] == 'local' and p.peek(1)[1] == '=':
        dest = _unquote(p.next()[1][1:]); p.next()
    op = p.next()[1]
    if op in ('tail', 'musttail', 'notail'):
        op = p.next()[1]
    I = lambda o, ty, args, extra=None: Instr(o, dest, ty, args, extra, ln)
    if op in BINOPS:
        while p.peek()[1] in ('nuw', 'nsw', 'exact') or p.peek()[1] in FMF: p.next()
        t = p.type(); a = p.value(t); p.expect(','); b = p.value(t)
        return I(op, t, [a, b])
    if op == 'fneg':
        while p.peek()[1] in FMF: p.next()
        t = p.type(); a = p.value(t)
        return I('fneg', t, [a])
    if op == 'icmp' or op == 'fcmp':
        while p.peek()[1] in FMF: p.next()
        pred = p.next()[1]; t = p.type(); a = p.value(t); p.expect(','); b = p.value(t)
        return I(op, I1, [a, b], (pred, t))
    if op in CASTS:
        st = p.type(); a = p.value(st); p.expect('to'); dt = p.type()
        return I(op, dt, [a], st)
    if op == 'load':
        atomic = p.accept('atomic'); vol = p.accept('volatile')
        t = p.type(); p.expect(','); pt = p.type(); a = p.value(pt)
        return I('load', t, [a], {'atomic': atomic, 'volatile': vol})
    if op == 'store':
        atomic = p.accept('atomic'); vol = p.accept('volatile')
        t = p.type(); v = p.value(t); p.expect(','); pt = p.type(); a = p.value(pt)
        return I('store', t, [v, a], {'atomic': atomic, 'volatile': vol})
    if op == 'alloca':
        p.accept('inalloca')
        t = p.type(); cnt = None
        if p.accept(','):
            if p.at('align'): pass
            else:
                ct = p.type(); cnt = p.value(ct)
        return I('alloca', PtrT(t), [cnt] if cnt is not None else [], t)
    if op == 'getelementptr':
        p.accept('inbounds')
        sty = p.type(); p.expect(','); bt = p.type(); base = p.value(bt)
        idx = []
        while p.accept(','):
            it = p.type(); idx.append(p.value(it))
        rty = _gep_result_type(sty, idx)
        return I('getelementptr', PtrT(rty), [base] + idx, sty)
    if op == 'phi':
        while p.peek()[1] in FMF: p.next()
        t = p.type(); inc = []
        while True:
            p.expect('['); v = p.value(t); p.expect(','); lbl = _unquote(p.next()[1][1:]); p.expect(']')
            inc.append((v, lbl))
            if not p.accept(','): break
        return I('phi', t, [v for v, _ in inc], [l for _, l in inc])
    if op == 'select':
        while p.peek()[1] in FMF: p.next()
        ct = p.type(); c = p.value(ct); p.expect(','); t = p.type(); a = p.value(t); p.expect(','); t2 = p.type(); b = p.value(t2)
        return I('select', t, [c, a, b])
    if op == 'br':
        if p.accept('label'):
            return I('br', VOID, [], [_unquote(p.next()[1][1:])])
        t = p.type(); c = p.value(t); p.expect(','); p.expect('label'); l1 = _unquote(p.next()[1][1:])
        p.expect(','); p.expect('label'); l2 = _unquote(p.next()[1][1:])
        return I('condbr', VOID, [c], [l1, l2])
    if op == 'switch':
        t = p.type(); v = p.value(t); p.expect(','); p.expect('label'); dflt = _unquote(p.next()[1][1:])
        p.expect('['); cases = []
        while not p.at(']'):
            ct = p.type(); cv = p.value(ct); p.expect(','); p.expect('label'); cl = _unquote(p.next()[1][1:])
            cases.append((cv.v, cl))
        return I('switch', VOID, [v], (dflt, cases, t))
    if op == 'ret':
        t = p.type()
        if isinstance(t, VoidT): return I('ret', VOID, [])
        return I('ret', t, [p.value(t)])
    if op == 'unreachable':
        return I('unreachable', VOID, [])
    if op == 'call' or op == 'invoke':
        while p.peek()[1] in FMF or p.peek()[1] in CCONV: p.next()
        p.skip_param_attrs()
        rt = p.type()
        # rt may be a function type "T (params)" (then strip to the return type) or its pointer
        fty = None
        if isinstance(rt, FuncT): fty = rt; rt = rt.ret
        elif isinstance(rt, PtrT) and isinstance(rt.elem, FuncT): fty = rt.elem; rt = fty.ret
        k, v = p.next()
        if k == 'glob': callee = Const('global', None, _unquote(v[1:]))
        elif k == 'local': callee = Local(_unquote(v[1:]), None)
        elif v == 'asm' or v == 'bitcast' or v == 'inttoptr':
            if v == 'asm':
                return I('asm', rt, [], ln)
            p.i -= 1
            callee = p.value(PtrT(fty or FuncT(rt, [], True)))
        else: raise SyntaxError('callee? %r in %s' % (v, ln))
        p.expect('(')
        args = []
        while not p.at(')'):
            t = p.type(); p.skip_param_attrs()
            if isinstance(t, MetaT):
                # metadata argument (debug intrinsics) -- skip
                d = 0
                while not (d == 0 and (p.at(',') or p.at(')'))):
                    v2 = p.next()[1]
                    if v2 in '({[': d += 1
                    elif v2 in ')}]': d -= 1
                args.append(Const('undef', t))
            else:
                args.append(p.value(t))
            p.accept(',')
        p.expect(')')
        extra = {'fty': fty}
        if op == 'invoke':
            # to label %ok unwind label %lp
            while not p.at('to'): p.next()
            p.next(); p.expect('label'); ok = _unquote(p.next()[1][1:])
            p.expect('unwind'); p.expect('label'); lp = _unquote(p.next()[1][1:])
            extra['ok'] = ok; extra['unwind'] = lp
        return I(op, rt, [callee] + args, extra)
    if op == 'extractvalue':
        t = p.type(); a = p.value(t); idx = []
        while p.accept(','): idx.append(int(p.next()[1]))
        rt = t
        for ix in idx: rt = rt.elems[ix] if isinstance(rt, StructT) else rt.elem
        return I('extractvalue', rt, [a], idx)
    if op == 'insertvalue':
        t = p.type(); a = p.value(t); p.expect(','); et = p.type(); e = p.value(et); idx = []
        while p.accept(','): idx.append(int(p.next()[1]))
        return I('insertvalue', t, [a, e], idx)
    if op == 'atomicrmw':
        p.accept('volatile')
        rop = p.next()[1]; pt = p.type(); a = p.value(pt); p.expect(','); t = p.type(); v = p.value(t)
        return I('atomicrmw', t, [a, v], rop)
    if op == 'cmpxchg':
        p.accept('weak'); p.accept('volatile')
        pt = p.type(); a = p.value(pt); p.expect(','); t = p.type(); c = p.value(t); p.expect(','); t2 = p.type(); nv = p.value(t2)
        return I('cmpxchg', StructT(None, [t, I1]), [a, c, nv], t)
    if op == 'fence':
        return I('fence', VOID, [])
    if op == 'freeze':
        t = p.type(); a = p.value(t)
        return I('freeze', t, [a])
    if op == 'va_arg':
        pt = p.type(); a = p.value(pt); p.expect(','); t = p.type()
        return I('va_arg', t, [a])
    if op == 'landingpad':
        return I('landingpad', VOID, [])
    if op == 'resume':
        return I('resume', VOID, [])
    raise SyntaxError('instr? %r in %s' % (op, ln))

def _gep_result_type(sty, idx):
    t = sty
    for ix in idx[1:]:
        if isinstance(t, StructT):
            t = t.elems[ix.v]
        elif isinstance(t, (ArrT, VecT)):
            t = t.elem
        else: raise SyntaxError('gep into %r' % (t,))
    return t

def parse_file(path):
    with open(path) as fh:
        return parse_module(fh.read())

if __name__ == '__main__':
    import sys
    m = parse_file(sys.argv[1])
    print(len(m.types), 'types', len(m.globals), 'globals', len(m.functions), 'functions')
    for f in m.functions.values():
        if not f.is_decl:
            print(f.name, len(f.blocks), sum(len(b.instrs) for b in f.blocks))
