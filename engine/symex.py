"""E2: symbolic executor for clang-14 LLVM IR (python + z3).

Scalars are z3 bit-vector terms or python ints, pointers are concrete addresses in a flat guarded address space
(symbolic addresses are split over their feasible values by the solver), branches/assertions are decided by the
solver under the path condition, states fork copy-on-write.  See DESIGN.md section 2.2.
"""
import sys, time, os, json
import z3
from irparse import *
import irparse
from mem import Memory, MemError, FUNC_BASE
import ops
from ops import binop, icmp, zext, sext, trunc, select, to_bv, to_bool, is_sym, simp

sys.setrecursionlimit(10000)

class PathEnd(Exception):
    def __init__(self, reason): self.reason = reason
class Unsupported(Exception):
    pass

# instruction kinds handled by the main loop
K_SIMPLE, K_CALL, K_BR, K_CONDBR, K_SWITCH, K_RET, K_UNREACHABLE, K_ATOMIC = range(8)

class CBlock:
    __slots__ = ('name', 'instrs', 'phis', 'idx', 'fn')
class CFunc:
    __slots__ = ('name', 'nregs', 'blocks', 'nparams', 'fn', 'vararg', 'regnames')

class Frame:
    __slots__ = ('cf', 'regs', 'blk', 'ip', 'allocas', 'varargs', 'dest')
    def copy(self):
        f = Frame(); f.cf = self.cf; f.regs = list(self.regs); f.blk = self.blk; f.ip = self.ip
        f.allocas = list(self.allocas); f.varargs = self.varargs; f.dest = self.dest
        return f

class Thread:
    __slots__ = ('tid', 'frames', 'status', 'wait', 'result', 'name')
    def copy(self):
        t = Thread(); t.tid = self.tid; t.frames = [f.copy() for f in self.frames]; t.status = self.status
        t.wait = self.wait; t.result = self.result; t.name = self.name
        return t

class State:
    def __init__(self):
        self.mem = Memory(); self.threads = []; self.cur = 0
        self.pc = []; self.model = None
        self.inputs = []; self.forks = {}; self.ninstr = 0; self.nforks = 0
        self.trace = []; self.reached = set(); self.preempt = 0
        self.ghost = {}            # engine-side per-path data for stubs (copied shallowly per key on fork)
        self.decisions = []
        self.asserts = 0
    def fork(self):
        s = State.__new__(State)
        s.mem = self.mem.fork(); s.threads = [t.copy() for t in self.threads]; s.cur = self.cur
        s.pc = list(self.pc); s.model = self.model
        s.inputs = list(self.inputs); s.forks = dict(self.forks); s.ninstr = self.ninstr; s.nforks = self.nforks
        s.trace = list(self.trace); s.reached = set(self.reached); s.preempt = self.preempt
        s.ghost = {k: (v.copy() if hasattr(v, 'copy') else v) for k, v in self.ghost.items()}
        s.decisions = list(self.decisions)
        s.asserts = self.asserts
        return s

def _vars_of(term, acc, seen):
    stack = [term]
    while stack:
        t = stack.pop()
        i = t.get_id()
        if i in seen: continue
        seen.add(i)
        if z3.is_const(t):
            if t.decl().kind() == z3.Z3_OP_UNINTERPRETED: acc.add(t.decl().name())
        else:
            stack.extend(t.children())

class Executor:
    def __init__(self, module, opts=None):
        self.m = module
        o = opts or {}
        self.unwind = o.get('unwind', 16)
        self.max_instr = o.get('max_instr', 2000000)
        self.timeout_ms = o.get('timeout_ms', 60000)
        self.max_alloc = o.get('max_alloc', 1 << 16)
        self.max_violations = o.get('max_violations', 50)
        self.max_addr_split = o.get('max_addr_split', 300)
        self.preempt_bound = o.get('preempt', 2)
        self.fair_streak = o.get('fair_streak', 40)
        self.ignore_unfinished_threads = o.get('ignore_unfinished_threads', False)
        self.overrides = o.get('overrides', {})
        self.replay = o.get('replay')            # list of ints: concrete mode
        self.verbose = o.get('verbose', 0)
        self.check_leaks = o.get('check_leaks', True)
        self.solver = z3.Solver()
        self.solver.set('timeout', self.timeout_ms)
        self.asserted = []
        self.cfuncs = {}
        self.faddr = {}; self.fname_at = {}
        self.gaddr = {}
        self.stack = []
        self.stats = dict(paths=0, completed=0, queries=0, sat=0, unsat=0, unknown=0, solver_s=0.0, forks=0,
                          bound_exceeded=0, violations=0, instrs=0, asserts_checked=0, asserts_concrete=0,
                          assume_pruned=0, infeasible=0, unsupported=0, addr_splits=0, max_path_instrs=0)
        self.violations = []; self.viol_keys = {}
        self.reach_all = set()
        self.funcs_executed = set()
        self.samples = []
        self.traces = []
        self.bound_exceeded_at = {}
        self.unsupported_at = {}
        self.fork_sites = {}
        import builtins_ as B
        self.builtins = dict(B.TABLE)
        self.B = B
        for i, name in enumerate(sorted(self.m.functions)):
            a = FUNC_BASE + 16 * i
            self.faddr[name] = a; self.fname_at[a] = name
        self.init_mem = Memory()
        self._init_globals()
        self.on_path_end = None

    # ------------------------------------------------------------------ globals
    def _init_globals(self):
        mem = self.init_mem
        for g in self.m.globals.values():
            sz = size_of(g.ty)
            o = mem.alloc(max(sz, 1), 'global', '@' + g.name)
            self.gaddr[g.name] = o.base
        for g in self.m.globals.values():
            o = mem.objs[self.gaddr[g.name]]
            if g.init is not None:
                self._write_const(mem, o.base, g.init)
            elif not g.external:
                mem.memset(o.base, 0, o.size)
            o.const = g.const

    def _write_const(self, mem, addr, c):
        t = c.ty; k = c.kind
        if k == 'zero' or (k == 'null' and not isinstance(t, PtrT)):
            mem.memset(addr, 0, size_of(t)); return
        if k == 'undef': return
        if k == 'str':
            for i, b in enumerate(c.v): mem.store(addr + i, 1, b)
            return
        if k == 'array':
            es = alloc_size(t.elem)
            for i, e in enumerate(c.v): self._write_const(mem, addr + i * es, e)
            return
        if k == 'struct':
            offs, _ = struct_layout(t)
            for off, e in zip(offs, c.v): self._write_const(mem, addr + off, e)
            return
        v = self.const_value(c)
        if isinstance(t, FloatT):
            if t.bits == 64: mem.store(addr, 8, ops.f64_bits(v))
            elif t.bits == 32:
                import struct as _s
                mem.store(addr, 4, _s.unpack('<I', _s.pack('<f', v))[0])
            else: raise Unsupported('fp80 constant')
            return
        mem.store(addr, size_of(t), v)

    def const_value(self, c):
        k = c.kind
        if k == 'int': return c.v
        if k == 'null': return 0
        if k == 'float': return c.v
        if k == 'undef' or k == 'zero':
            if isinstance(c.ty, (StructT, ArrT)):
                return self._zero_agg(c.ty)
            if isinstance(c.ty, FloatT): return 0.0
            return 0
        if k == 'global':
            n = c.v
            if n in self.gaddr: return self.gaddr[n]
            if n in self.faddr: return self.faddr[n]
            if n in self.m.aliases: return self.const_value(self.m.aliases[n])
            raise Unsupported('unknown global @' + n)
        if k == 'struct' or k == 'array':
            return [self.const_value(e) for e in c.v]
        if k == 'expr':
            op = c.v
            if op == 'getelementptr':
                sty, base, idx = c.extra
                a = self.const_value(base)
                t = sty
                a += sgn64(self.const_value(idx[0])) * alloc_size(sty)
                for ix in idx[1:]:
                    iv = self.const_value(ix)
                    if isinstance(t, StructT):
                        a += struct_layout(t)[0][iv]; t = t.elems[iv]
                    else:
                        a += sgn64(iv) * alloc_size(t.elem); t = t.elem
                return a & ops.mask(64)
            if op in ('bitcast', 'inttoptr', 'ptrtoint', 'addrspacecast'):
                v = self.const_value(c.extra[0])
                if op == 'ptrtoint' and isinstance(c.ty, IntT): v &= ops.mask(c.ty.bits)
                return v
            if op in ('trunc', 'zext'):
                v = self.const_value(c.extra[0]); return v & ops.mask(c.ty.bits)
            if op == 'sext':
                v = self.const_value(c.extra[0]); return ops.sext(v, c.extra[0].ty.bits, c.ty.bits)
            if op in irparse.BINOPS:
                a = self.const_value(c.extra[0]); b = self.const_value(c.extra[1])
                w = c.ty.bits if isinstance(c.ty, IntT) else 64
                return binop(op, a, b, w)
            if op == 'icmp':
                pred, a, b = c.extra
                w = a.ty.bits if isinstance(a.ty, IntT) else 64
                return icmp(pred, self.const_value(a), self.const_value(b), w)
            if op == 'select':
                cc, a, b = c.extra
                return self.const_value(a) if self.const_value(cc) else self.const_value(b)
        raise Unsupported('constant %r' % (c,))

    def _zero_agg(self, t):
        if isinstance(t, StructT): return [self._zero_agg(e) for e in t.elems]
        if isinstance(t, ArrT): return [self._zero_agg(t.elem) for _ in range(t.n)]
        if isinstance(t, FloatT): return 0.0
        return 0

    # ------------------------------------------------------------------ compilation
    def cfunc(self, name):
        cf = self.cfuncs.get(name)
        if cf is None:
            cf = self._compile(self.m.functions[name]); self.cfuncs[name] = cf
        return cf

    def _compile(self, fn):
        cf = CFunc(); cf.name = fn.name; cf.fn = fn; cf.nparams = len(fn.params); cf.vararg = fn.fty.vararg
        regmap = {}
        for p in fn.params: regmap[p.name] = len(regmap)
        for b in fn.blocks:
            for ins in b.instrs:
                if ins.dest is not None and ins.dest not in regmap: regmap[ins.dest] = len(regmap)
        cf.nregs = len(regmap)
        cf.regnames = regmap
        bidx = {b.name: i for i, b in enumerate(fn.blocks)}
        cf.blocks = []
        for i, b in enumerate(fn.blocks):
            cb = CBlock(); cb.name = b.name; cb.idx = i; cb.instrs = []; cb.phis = {}; cb.fn = cf
            cf.blocks.append(cb)
        for b, cb in zip(fn.blocks, cf.blocks):
            for ins in b.instrs:
                if ins.op == 'phi':
                    d = regmap[ins.dest]
                    for v, lbl in zip(ins.args, ins.extra):
                        cb.phis.setdefault(bidx[lbl], []).append((d, self._getter(v, regmap)))
                else:
                    cb.instrs.append(self._compile_instr(ins, regmap, bidx, cf))
        return cf

    def _getter(self, v, regmap):
        if isinstance(v, Local):
            i = regmap[v.name]
            return lambda regs: regs[i]
        val = self.const_value(v)
        return lambda regs: val

    def _is_const(self, v): return not isinstance(v, Local)

    def _compile_instr(self, ins, regmap, bidx, cf):
        op = ins.op
        G = lambda v: self._getter(v, regmap)
        d = regmap[ins.dest] if ins.dest is not None else None
        ex = self
        if op in ('add', 'sub', 'mul', 'udiv', 'sdiv', 'urem', 'srem', 'shl', 'lshr', 'ashr', 'and', 'or', 'xor'):
            if not isinstance(ins.ty, IntT): raise Unsupported('vector op: ' + ins.line)
            w = ins.ty.bits; ga = G(ins.args[0]); gb = G(ins.args[1])
            if op in ('udiv', 'sdiv', 'urem', 'srem'):
                def f(st, regs):
                    a = ga(regs); b = gb(regs)
                    if not isinstance(b, int):
                        b = ex.concretize(st, b, w, 'divisor')
                    if b == 0: raise MemError('div-by-zero', 'division by zero')
                    regs[d] = binop(op, a, b, w)
            else:
                def f(st, regs): regs[d] = binop(op, ga(regs), gb(regs), w)
            return (K_SIMPLE, f, ins)
        if op in ('fadd', 'fsub', 'fmul', 'fdiv', 'frem'):
            ga = G(ins.args[0]); gb = G(ins.args[1])
            def f(st, regs): regs[d] = ops.fbin(op, ga(regs), gb(regs))
            return (K_SIMPLE, f, ins)
        if op == 'fneg':
            ga = G(ins.args[0])
            def f(st, regs):
                a = ga(regs); regs[d] = -a if isinstance(a, float) else z3.fpNeg(a)
            return (K_SIMPLE, f, ins)
        if op == 'icmp':
            pred, t = ins.extra
            w = t.bits if isinstance(t, IntT) else 64
            ga = G(ins.args[0]); gb = G(ins.args[1])
            def f(st, regs): regs[d] = icmp(pred, ga(regs), gb(regs), w)
            return (K_SIMPLE, f, ins)
        if op == 'fcmp':
            pred, t = ins.extra
            ga = G(ins.args[0]); gb = G(ins.args[1])
            def f(st, regs): regs[d] = ops.fcmp(pred, ga(regs), gb(regs))
            return (K_SIMPLE, f, ins)
        if op in irparse.CASTS:
            return (K_SIMPLE, self._compile_cast(ins, d, G), ins)
        if op == 'select':
            gc = G(ins.args[0]); ga = G(ins.args[1]); gb = G(ins.args[2])
            t = ins.ty
            if isinstance(t, (StructT, ArrT)):
                def f(st, regs):
                    c = gc(regs)
                    if not isinstance(c, int): c = ex.concretize_bool(st, c)
                    regs[d] = ga(regs) if c else gb(regs)
                return (K_SIMPLE, f, ins)
            w = t.bits if isinstance(t, IntT) else 64
            def f(st, regs): regs[d] = select(gc(regs), ga(regs), gb(regs), w)
            return (K_SIMPLE, f, ins)
        if op == 'freeze':
            ga = G(ins.args[0])
            def f(st, regs): regs[d] = ga(regs)
            return (K_SIMPLE, f, ins)
        if op == 'getelementptr':
            return (K_SIMPLE, self._compile_gep(ins, d, G), ins)
        if op == 'load':
            t = ins.ty; ga = G(ins.args[0])
            vol = ins.extra['volatile'] or ins.extra['atomic']
            f = self._compile_load(t, d, ga)
            if vol: return (K_ATOMIC, f, ins)
            return (K_SIMPLE, f, ins)
        if op == 'store':
            t = ins.ty; gv = G(ins.args[0]); ga = G(ins.args[1])
            vol = ins.extra['volatile'] or ins.extra['atomic']
            f = self._compile_store(t, gv, ga)
            if vol: return (K_ATOMIC, f, ins)
            return (K_SIMPLE, f, ins)
        if op == 'alloca':
            t = ins.extra; sz = alloc_size(t)
            gc = G(ins.args[0]) if ins.args else None
            nm = '%s:%%%s' % (cf.name[:40], ins.dest)
            def f(st, regs):
                n = sz
                if gc is not None:
                    c = gc(regs)
                    if not isinstance(c, int): c = ex.concretize(st, c, 64, 'alloca count')
                    n = sz * c
                o = st.mem.alloc(max(n, 1), 'stack', nm)
                st.threads[st.cur].frames[-1].allocas.append(o.base)
                regs[d] = o.base
            return (K_SIMPLE, f, ins)
        if op == 'extractvalue':
            ga = G(ins.args[0]); idx = ins.extra
            def f(st, regs):
                v = ga(regs)
                for i in idx: v = v[i]
                regs[d] = v
            return (K_SIMPLE, f, ins)
        if op == 'insertvalue':
            ga = G(ins.args[0]); ge = G(ins.args[1]); idx = ins.extra
            def f(st, regs):
                v = _deepcopy(ga(regs)); e = ge(regs)
                cur = v
                for i in idx[:-1]: cur = cur[i]
                cur[idx[-1]] = e
                regs[d] = v
            return (K_SIMPLE, f, ins)
        if op == 'atomicrmw':
            rop = ins.extra; ga = G(ins.args[0]); gv = G(ins.args[1]); w = ins.ty.bits; n = w // 8
            def f(st, regs):
                a = ex.addr(st, ga(regs), n); v = gv(regs)
                old = st.mem.load(a, n)
                if rop == 'xchg': new = v
                elif rop in ('add', 'sub', 'and', 'or', 'xor'): new = binop(rop, old, v, w)
                elif rop == 'nand': new = binop('xor', binop('and', old, v, w), ops.mask(w), w)
                elif rop in ('max', 'min', 'umax', 'umin'):
                    pred = {'max': 'sgt', 'min': 'slt', 'umax': 'ugt', 'umin': 'ult'}[rop]
                    new = select(icmp(pred, old, v, w), old, v, w)
                else: raise Unsupported('atomicrmw ' + rop)
                st.mem.store(a, n, new if isinstance(new, int) else to_bv(new, w))
                regs[d] = old
            return (K_ATOMIC, f, ins)
        if op == 'cmpxchg':
            t = ins.extra; ga = G(ins.args[0]); gc = G(ins.args[1]); gn = G(ins.args[2])
            w = t.bits if isinstance(t, IntT) else 64; n = w // 8
            def f(st, regs):
                a = ex.addr(st, ga(regs), n); c = gc(regs); nv = gn(regs)
                old = st.mem.load(a, n)
                eq = icmp('eq', old, c, w)
                if not isinstance(eq, int): eq = ex.concretize_bool(st, eq)
                if eq: st.mem.store(a, n, nv if isinstance(nv, int) else to_bv(nv, w))
                regs[d] = [old, 1 if eq else 0]
            return (K_ATOMIC, f, ins)
        if op == 'fence':
            def f(st, regs): pass
            return (K_ATOMIC, f, ins)
        if op == 'call':
            callee = ins.args[0]
            gargs = [G(a) for a in ins.args[1:]]
            if isinstance(callee, Local):
                gcal = G(callee); name = None
            else:
                if callee.kind == 'global': name = callee.v; gcal = None
                else:
                    name = None; gcal = G(callee)
            if name is not None:
                if name.startswith('llvm.'):
                    h = self.B.llvm_intrinsic(self, name, ins, d, gargs)
                    if h is not None: return (K_SIMPLE, h, ins)
                name = self.overrides.get(name, name)
            return (K_CALL, name, gcal, gargs, d, ins)
        if op == 'br':
            return (K_BR, bidx[ins.extra[0]], ins)
        if op == 'condbr':
            return (K_CONDBR, G(ins.args[0]), bidx[ins.extra[0]], bidx[ins.extra[1]], ins)
        if op == 'switch':
            dflt, cases, t = ins.extra
            table = {cv: bidx[cl] for cv, cl in cases}
            return (K_SWITCH, G(ins.args[0]), table, bidx[dflt], t.bits, ins)
        if op == 'ret':
            return (K_RET, G(ins.args[0]) if ins.args else None, ins)
        if op == 'unreachable':
            return (K_UNREACHABLE, None, ins)
        if op == 'va_arg':
            raise Unsupported('va_arg instruction')
        if op == 'asm':
            def f(st, regs):
                raise Unsupported('inline asm: ' + ins.line.strip()[:80])
            return (K_SIMPLE, f, ins)
        raise Unsupported('instruction ' + op + ': ' + ins.line)

    def _compile_cast(self, ins, d, G):
        op = ins.op; st_ = ins.extra; dt = ins.ty; ga = G(ins.args[0])
        sw = st_.bits if isinstance(st_, IntT) else 64
        dw = dt.bits if isinstance(dt, IntT) else 64
        if op == 'zext':
            def f(st, regs): regs[d] = zext(ga(regs), sw, dw)
        elif op == 'sext':
            def f(st, regs): regs[d] = sext(ga(regs), sw, dw)
        elif op == 'trunc':
            def f(st, regs): regs[d] = trunc(ga(regs), sw, dw)
        elif op == 'ptrtoint':
            if dw == 64:
                def f(st, regs): regs[d] = ga(regs)
            else:
                def f(st, regs): regs[d] = trunc(ga(regs), 64, dw)
        elif op == 'inttoptr':
            if sw == 64:
                def f(st, regs): regs[d] = ga(regs)
            else:
                def f(st, regs): regs[d] = zext(ga(regs), sw, 64)
        elif op in ('bitcast', 'addrspacecast'):
            sf = isinstance(st_, FloatT); df = isinstance(dt, FloatT)
            if sf and not df:
                if st_.bits != 64: raise Unsupported('bitcast float')
                def f(st, regs): regs[d] = ops.f64_bits(ga(regs))
            elif df and not sf:
                if dt.bits != 64: raise Unsupported('bitcast float')
                def f(st, regs): regs[d] = ops.bits_f64(ga(regs))
            else:
                def f(st, regs): regs[d] = ga(regs)
        elif op in ('sitofp', 'uitofp'):
            signed = op == 'sitofp'
            def f(st, regs):
                a = ga(regs)
                if isinstance(a, int):
                    regs[d] = float(ops.sgn(a, sw) if signed else a)
                else:
                    a = to_bv(a, sw)
                    regs[d] = z3.fpSignedToFP(ops.RNE, a, ops.F64S) if signed else z3.fpUnsignedToFP(ops.RNE, a, ops.F64S)
        elif op in ('fptosi', 'fptoui'):
            signed = op == 'fptosi'
            def f(st, regs):
                a = ga(regs)
                if isinstance(a, float):
                    if a != a or a in (float('inf'), float('-inf')): regs[d] = (1 << (dw - 1)) if dw in (32, 64) else 0
                    else:
                        iv = int(a)
                        lo, hi = (-(1 << (dw - 1)), (1 << (dw - 1)) - 1) if signed else (0, (1 << dw) - 1)
                        regs[d] = (iv & ops.mask(dw)) if lo <= iv <= hi else (1 << (dw - 1))   # x86 'indefinite'
                else:
                    regs[d] = z3.fpToSBV(ops.RTZ, a, z3.BitVecSort(dw)) if signed else z3.fpToUBV(ops.RTZ, a, z3.BitVecSort(dw))
        elif op in ('fpext', 'fptrunc'):
            if op == 'fptrunc':
                import struct as _s
                def f(st, regs):
                    a = ga(regs)
                    if isinstance(a, float):
                        try: regs[d] = _s.unpack('<f', _s.pack('<f', a))[0]
                        except OverflowError: regs[d] = float('inf') if a > 0 else float('-inf')
                    else: raise Unsupported('symbolic fptrunc')
            else:
                def f(st, regs): regs[d] = ga(regs)
        else:
            raise Unsupported('cast ' + op)
        return f

    def _compile_gep(self, ins, d, G):
        sty = ins.extra
        base = ins.args[0]; idx = ins.args[1:]
        gb = G(base)
        const_off = 0; dyn = []
        t = sty
        first = True
        for ix in idx:
            if first:
                scale = alloc_size(sty); first = False
                nt = t
            elif isinstance(t, StructT):
                iv = self.const_value(ix)
                const_off += struct_layout(t)[0][iv]; t = t.elems[iv]
                continue
            else:
                scale = alloc_size(t.elem); nt = t.elem
            if self._is_const(ix):
                const_off += sgn64(ops.sext(self.const_value(ix), ix.ty.bits, 64)) * scale
            else:
                dyn.append((G(ix), ix.ty.bits, scale))
            t = nt
        M = ops.mask(64)
        if not dyn:
            def f(st, regs):
                b = gb(regs)
                regs[d] = (b + const_off) & M if isinstance(b, int) else b + const_off
        elif len(dyn) == 1:
            gi, iw, sc = dyn[0]
            def f(st, regs):
                b = gb(regs); i = gi(regs)
                if isinstance(b, int) and isinstance(i, int):
                    regs[d] = (b + const_off + ops.sgn(i, iw) * sc) & M
                else:
                    i = sext(i, iw, 64) if iw < 64 else i
                    regs[d] = binop('add', binop('add', b, const_off & M, 64), binop('mul', i, sc, 64), 64)
        else:
            def f(st, regs):
                a = binop('add', gb(regs), const_off & M, 64)
                for gi, iw, sc in dyn:
                    i = gi(regs)
                    i = sext(i, iw, 64) if iw < 64 else i
                    a = binop('add', a, binop('mul', i, sc, 64), 64)
                regs[d] = a
        return f

    def _compile_load(self, t, d, ga):
        ex = self
        if isinstance(t, IntT):
            w = t.bits
            if w == 1:
                def f(st, regs):
                    v = st.mem.load(ex.addr(st, ga(regs), 1), 1)
                    regs[d] = (v & 1) if isinstance(v, int) else (z3.Extract(0, 0, v) == z3.BitVecVal(1, 1))
                return f
            n = (w + 7) // 8
            if w % 8: raise Unsupported('load of i%d' % w)
            def f(st, regs):
                a = ga(regs)
                if not isinstance(a, int):
                    regs[d] = ex.sym_load(st, a, n); return
                regs[d] = st.mem.load(a, n)
            return f
        if isinstance(t, PtrT):
            def f(st, regs):
                a = ga(regs)
                if not isinstance(a, int): a = ex.addr(st, a, 8)
                regs[d] = st.mem.load(a, 8)
            return f
        if isinstance(t, FloatT):
            if t.bits == 64:
                def f(st, regs):
                    regs[d] = ops.bits_f64(st.mem.load(ex.addr(st, ga(regs), 8), 8))
                return f
            if t.bits == 32:
                import struct as _s
                def f(st, regs):
                    v = st.mem.load(ex.addr(st, ga(regs), 4), 4)
                    if not isinstance(v, int): raise Unsupported('symbolic float32')
                    regs[d] = _s.unpack('<f', _s.pack('<I', v))[0]
                return f
        if isinstance(t, (StructT, ArrT)):
            def f(st, regs):
                regs[d] = ex.load_agg(st, ex.addr(st, ga(regs), size_of(t)), t)
            return f
        raise Unsupported('load of %r' % (t,))

    def load_agg(self, st, a, t):
        if isinstance(t, StructT):
            offs, _ = struct_layout(t)
            return [self.load_agg(st, a + o, e) for o, e in zip(offs, t.elems)]
        if isinstance(t, ArrT):
            es = alloc_size(t.elem)
            return [self.load_agg(st, a + i * es, t.elem) for i in range(t.n)]
        if isinstance(t, FloatT): return ops.bits_f64(st.mem.load(a, 8))
        n = size_of(t)
        v = st.mem.load(a, n)
        if isinstance(t, IntT) and t.bits == 1: v = v & 1 if isinstance(v, int) else to_bool(v)
        return v

    def store_agg(self, st, a, t, v):
        if isinstance(t, StructT):
            offs, _ = struct_layout(t)
            for o, e, x in zip(offs, t.elems, v): self.store_agg(st, a + o, e, x)
            return
        if isinstance(t, ArrT):
            es = alloc_size(t.elem)
            for i, x in enumerate(v): self.store_agg(st, a + i * es, t.elem, x)
            return
        if isinstance(t, FloatT): st.mem.store(a, 8, ops.f64_bits(v)); return
        n = size_of(t)
        st.mem.store(a, n, v if isinstance(v, int) else to_bv(v, 8 * n))

    def _compile_store(self, t, gv, ga):
        ex = self
        if isinstance(t, IntT):
            w = t.bits
            n = (w + 7) // 8
            if w == 1:
                def f(st, regs):
                    v = gv(regs)
                    st.mem.store(ex.addr(st, ga(regs), 1), 1, v if isinstance(v, int) else to_bv(v, 8))
                return f
            if w % 8: raise Unsupported('store of i%d' % w)
            def f(st, regs):
                a = ga(regs)
                if not isinstance(a, int): a = ex.addr(st, a, n)
                st.mem.store(a, n, gv(regs))
            return f
        if isinstance(t, PtrT):
            def f(st, regs):
                a = ga(regs)
                if not isinstance(a, int): a = ex.addr(st, a, 8)
                st.mem.store(a, 8, gv(regs))
            return f
        if isinstance(t, FloatT):
            if t.bits == 64:
                def f(st, regs): st.mem.store(ex.addr(st, ga(regs), 8), 8, ops.f64_bits(gv(regs)))
                return f
            if t.bits == 32:
                import struct as _s
                def f(st, regs):
                    v = gv(regs)
                    if not isinstance(v, float): raise Unsupported('symbolic float32')
                    st.mem.store(ex.addr(st, ga(regs), 4), 4, _s.unpack('<I', _s.pack('<f', v))[0])
                return f
        if isinstance(t, (StructT, ArrT)):
            def f(st, regs): ex.store_agg(st, ex.addr(st, ga(regs), size_of(t)), t, gv(regs))
            return f
        raise Unsupported('store of %r' % (t,))

    # ------------------------------------------------------------------ solver
    def sync(self, pc):
        a = self.asserted; s = self.solver
        n = min(len(a), len(pc)); i = 0
        while i < n and a[i] is pc[i]: i += 1
        k = len(a) - i
        if k:
            s.pop(k); del a[i:]
        for c in pc[i:]:
            s.push(); s.add(c); a.append(c)

    def check(self, st, extra):
        """sat?(pc and extra) -> ('sat', model) | ('unsat', None) | ('unknown', None)"""
        self.sync(st.pc)
        s = self.solver
        t0 = time.time()
        s.push(); s.add(extra)
        r = s.check()
        m = s.model() if r == z3.sat else None
        s.pop()
        dt = time.time() - t0
        self.stats['queries'] += 1; self.stats['solver_s'] += dt
        if r == z3.sat: self.stats['sat'] += 1; return 'sat', m
        if r == z3.unsat: self.stats['unsat'] += 1; return 'unsat', None
        # z3 gave up (typically multiply/divide/remainder by constants): second back end, cvc5 with integer blasting
        t0 = time.time()
        r2, m2 = self.cvc5_check(st.pc + [extra])
        self.stats['solver_s'] += time.time() - t0
        self.stats['cvc5_queries'] = self.stats.get('cvc5_queries', 0) + 1
        if r2 == 'sat': self.stats['sat'] += 1; return 'sat', m2
        if r2 == 'unsat': self.stats['unsat'] += 1; return 'unsat', None
        self.stats['unknown'] += 1
        return 'unknown', None

    def cvc5_check(self, constraints):
        import subprocess, tempfile, re as _re
        s = z3.Solver(); s.add(*constraints)
        text = s.to_smt2()
        for op in ('bvsrem', 'bvsdiv', 'bvudiv', 'bvurem', 'bvsmod'): text = text.replace(op + '_i', op)
        text = '(set-option :produce-models true)\n(set-logic ALL)\n' + text + '\n(get-model)\n'
        with tempfile.NamedTemporaryFile('w', suffix='.smt2', delete=False, dir=os.environ.get('VERIF_TMP', None)) as f:
            f.write(text); path = f.name
        try:
            p = subprocess.run(['cvc5', '--solve-bv-as-int=sum', '--tlimit=%d' % max(self.timeout_ms, 60000), path],
                               stdout=subprocess.PIPE, stderr=subprocess.STDOUT, timeout=max(self.timeout_ms, 60000) / 1000 + 30)
            out = p.stdout.decode('utf-8', 'replace')
        except Exception:
            out = ''
        finally:
            try: os.remove(path)
            except OSError: pass
        first = out.strip().split('\n')[0].strip() if out.strip() else ''
        if first == 'unsat': return 'unsat', None      # (the trailing get-model then reports an error, which is expected)
        if '(error' in out: return 'unknown', None
        if first == 'sat':
            vals = {}
            for m in _re.finditer(r'\(define-fun\s+(\S+)\s+\(\)\s+\(_ BitVec (\d+)\)\s+#([xb])([0-9a-fA-F]+)\)', out):
                vals[m.group(1).strip('|')] = (int(m.group(4), 16 if m.group(3) == 'x' else 2), int(m.group(2)))
            return 'sat', _DictModel(vals)
        return 'unknown', None

    def model_of(self, st):
        if st.model is None:
            self.sync(st.pc)
            r = self.solver.check()
            if r != z3.sat: raise PathEnd('infeasible')
            st.model = self.solver.model()
        return st.model

    def eval_bool(self, st, c):
        v = self.model_of(st).eval(c, True)
        if z3.is_true(v): return True
        if z3.is_false(v): return False
        v = z3.simplify(v)
        if z3.is_true(v): return True
        if z3.is_false(v): return False
        raise Unsupported('model evaluation not boolean: %s' % v)

    def eval_int(self, st, v):
        if isinstance(v, int): return v
        if isinstance(v, z3.BoolRef): return 1 if self.eval_bool(st, v) else 0
        r = self.model_of(st).eval(v, True)
        if not z3.is_bv_value(r): r = z3.simplify(r)
        return r.as_long()

    def add_constraint(self, st, c, model=None):
        st.pc.append(c)
        if model is not None: st.model = model

    def feasible(self, st, c):
        """split on boolean term c: returns (can_true, m_true, can_false, m_false)"""
        mv = self.eval_bool(st, c)
        other = z3.Not(c) if mv else c
        r, m = self.check(st, other)
        if r == 'unknown':
            self.note_unsupported('solver-unknown-on-branch')
            r = 'unsat'     # treated as infeasible but recorded as inconclusive
        if mv: return True, st.model, r == 'sat', m
        return r == 'sat', m, True, st.model

    def concretize_bool(self, st, c):
        """fork on a boolean inside an instruction; the sibling re-executes the instruction"""
        c = simp(to_bool(c))
        if isinstance(c, int): return c
        ct, mt, cf_, mf = self.feasible(st, c)
        if ct and cf_:
            sib = st.fork(); self.add_constraint(sib, z3.Not(c), mf); sib.decisions.append(0)
            self.push_state(sib)
            self.add_constraint(st, c, mt); st.decisions.append(1)
            return 1
        if ct: self.add_constraint(st, c, mt); return 1
        self.add_constraint(st, z3.Not(c), mf); return 0

    def concretize(self, st, v, w, what):
        """pick a feasible concrete value of term v; sibling keeps v != value and re-executes"""
        v = simp(v)
        if isinstance(v, int): return v
        val = self.eval_int(st, v)
        eqc = to_bv(v, w) == z3.BitVecVal(val, w)
        r, m = self.check(st, z3.Not(eqc))
        if r == 'sat':
            key = ('split', what)
            n = st.forks.get(key, 0) + 1
            if n > self.max_addr_split:
                self.bound_exceeded(st, 'value split of %s' % what)
            st.forks[key] = n
            sib = st.fork(); self.add_constraint(sib, z3.Not(eqc), m); sib.decisions.append(('ne', val))
            self.push_state(sib); self.stats['addr_splits'] += 1
        elif r == 'unknown':
            self.note_unsupported('solver-unknown-on-split')
        self.add_constraint(st, eqc)
        st.decisions.append(('eq', val))
        return val

    def addr(self, st, a, n):
        if isinstance(a, int): return a
        return self.concretize(st, a, 64, 'address')

    def sym_load(self, st, a, n):
        """load through a symbolic address: constant tables become ite-chains, everything else is split"""
        a = simp(a)
        if isinstance(a, int): return st.mem.load(a, n)
        val = self.eval_int(st, a)
        o = st.mem.find(val)
        if o is not None and o.alive and o.kind == 'global' and o.size <= 1024 and n == 1:
            # table look-up: the in-bounds condition is decided by the solver, then an ite-chain over the table
            lo = z3.BitVecVal(o.base, 64); hi = z3.BitVecVal(o.base + o.size - n, 64)
            inb = z3.And(z3.UGE(a, lo), z3.ULE(a, hi))
            r, m = self.check(st, z3.Not(inb))
            if r == 'sat':
                # some feasible index leaves the table: that value is reported (resolve() raises), the in-bounds rest continues
                bad = m.eval(a, True).as_long()
                sib = st.fork(); sib.pc.append(inb); sib.model = None
                self.push_state(sib)
                self.add_constraint(st, a == z3.BitVecVal(bad, 64), m)
                return st.mem.load(bad, n)
            if r == 'unknown': self.note_unsupported('solver-unknown-on-table')
            self.add_constraint(st, inb)
            nb = max(1, (o.size - 1).bit_length())
            idx = z3.simplify(z3.Extract(nb - 1, 0, a - lo))
            tbl = [st.mem.load(o.base + i, 1) for i in range(o.size)]
            # balanced multiplexer tree over the index bits (cheap for the SAT back end, unlike a linear ite chain)
            def mux(lo_i, bit):
                if bit < 0:
                    return to_bv(tbl[lo_i] if lo_i < len(tbl) else 0, 8)
                hi_i = lo_i + (1 << bit)
                if hi_i >= len(tbl): return mux(lo_i, bit - 1)
                lo_t = mux(lo_i, bit - 1); hi_t = mux(hi_i, bit - 1)
                if lo_t.eq(hi_t): return lo_t
                return z3.If(z3.Extract(bit, bit, idx) == z3.BitVecVal(1, 1), hi_t, lo_t)
            return mux(0, nb - 1)
        return st.mem.load(self.concretize(st, a, 64, 'address'), n)

    # ------------------------------------------------------------------ bookkeeping
    def push_state(self, st):
        self.stats['forks'] += 1
        self.stack.append(st)

    def note_unsupported(self, what):
        self.stats['unsupported'] += 1
        self.unsupported_at[what] = self.unsupported_at.get(what, 0) + 1

    def bound_exceeded(self, st, where):
        self.stats['bound_exceeded'] += 1
        self.bound_exceeded_at[where] = self.bound_exceeded_at.get(where, 0) + 1
        raise PathEnd('bound_exceeded')

    def where(self, st):
        try:
            th = st.threads[st.cur]
            out = []
            for fr in th.frames[-4:]:
                ins = fr.blk.instrs[fr.ip] if fr.ip < len(fr.blk.instrs) else None
                out.append('%s/%s' % (fr.cf.name, fr.blk.name))
            return ' <- '.join(reversed(out))
        except Exception:
            return '?'

    def input_values(self, st, model=None):
        m = model if model is not None else self.model_of(st)
        vals = []
        for kind, term in st.inputs:
            if isinstance(term, int): vals.append(term)
            else:
                r = m.eval(term, True)
                if z3.is_bv_value(r): vals.append(r.as_long())
                elif z3.is_true(r): vals.append(1)
                elif z3.is_false(r): vals.append(0)
                else: vals.append(z3.simplify(r).as_long())
        return vals

    def violation(self, st, kind, msg, model=None, fatal=True):
        key = (kind, msg.split(' at ')[0][:160])
        self.stats['violations'] += 1
        n = self.viol_keys.get(key, 0)
        self.viol_keys[key] = n + 1
        if n < 3 and len(self.violations) < self.max_violations:
            try:
                vals = self.input_values(st, model)
            except Exception as e:
                vals = None
            self.violations.append(dict(kind=kind, msg=msg, where=self.where(st), inputs=vals,
                                        input_kinds=[k for k, _ in st.inputs], trace=list(st.trace[-40:]),
                                        thread=st.cur, ninstr=st.ninstr))
            if self.verbose:
                print('VIOLATION-CANDIDATE', kind, msg, 'inputs=', vals, 'at', self.where(st), file=sys.stderr)
        if fatal: raise PathEnd('violation')

    def mentions_undef(self, st, term):
        if st.mem.undef_count == 0: return False
        acc = set(); _vars_of(term, acc, set())
        return any(n.startswith('undef!') for n in acc)

    # ------------------------------------------------------------------ input intrinsics
    def fresh(self, st, kind, w):
        i = len(st.inputs)
        if self.replay is not None:
            if i >= len(self.replay): raise PathEnd('replay-exhausted')
            v = self.replay[i] & ops.mask(w)
            st.inputs.append((kind, v))
            return v
        v = z3.BitVec('in!%d!%s' % (i, kind), w)
        st.inputs.append((kind, v))
        return v

    # ------------------------------------------------------------------ main loop
    def new_thread(self, st, fname, args, name=''):
        th = Thread(); th.tid = len(st.threads); th.frames = []; th.status = 'run'; th.wait = None; th.result = None
        th.name = name or fname
        st.threads.append(th)
        self.push_frame(st, th, fname, args, None)
        return th

    def push_frame(self, st, th, fname, args, dest):
        cf = self.cfunc(fname)
        if len(th.frames) > 400: raise MemError('stack-overflow', 'call depth > 400 in ' + fname)
        fr = Frame(); fr.cf = cf; fr.regs = [None] * cf.nregs; fr.blk = cf.blocks[0]; fr.ip = 0; fr.allocas = []
        fr.dest = dest
        np_ = cf.nparams
        fr.regs[:np_] = args[:np_]
        fr.varargs = args[np_:] if cf.vararg else None
        th.frames.append(fr)
        self.funcs_executed.add(fname)
        return fr

    def start(self, entry, args=()):
        st = State()
        st.mem = self.init_mem.fork()
        th = self.new_thread(st, entry, list(args), 'main')
        # static initialisers (llvm.global_ctors) run before the entry, on the same path
        g = self.m.globals.get('llvm.global_ctors')
        ctors = []
        if g is not None and g.init is not None and g.init.kind == 'array':
            for e in g.init.v:
                prio = e.v[0].v; fn = e.v[1]
                if fn.kind == 'global': ctors.append((prio, fn.v))
        for prio, name in sorted(ctors, reverse=True):
            if name in self.m.functions and not self.m.functions[name].is_decl:
                self.push_frame(st, th, name, [], CTOR)
        if not ctors: st.ghost['leak_base'] = st.mem.nextid
        return st

    def explore(self, entry, budget_s=None, on_pending=None):
        t0 = time.time()
        st0 = self.start(entry)
        self.stack = [st0]
        while self.stack:
            if budget_s is not None and time.time() - t0 > budget_s:
                self.stats['timeout'] = True
                break
            if on_pending is not None:
                if on_pending(self): break
                st = self.stack.pop(0)      # expansion phase before a parallel split: oldest first, so the frontier widens
            else:
                st = self.stack.pop()
            self.run(st)
        return self.stats

    def run(self, st):
        self.stats['paths'] += 1
        reason = None
        try:
            self._run(st)
            reason = 'done'
        except PathEnd as e:
            reason = e.reason
        except MemError as e:
            try:
                self.violation(st, e.kind, e.msg + ' at ' + self.where(st))
            except PathEnd: pass
            reason = 'violation'
        except Unsupported as e:
            self.note_unsupported(str(e)[:120])
            reason = 'unsupported'
        except z3.Z3Exception as e:
            self.note_unsupported('z3: ' + str(e)[:100])
            reason = 'unsupported'
        self.stats['instrs'] += st.ninstr
        if st.ninstr > self.stats['max_path_instrs']: self.stats['max_path_instrs'] = st.ninstr
        if reason in ('done', 'exit'):
            self.stats['completed'] += 1
            self.reach_all |= st.reached
            if len(self.samples) < 5:
                try: self.samples.append(dict(inputs=self.input_values(st), kinds=[k for k, _ in st.inputs], pc_len=len(st.pc)))
                except Exception: pass
        elif reason == 'infeasible':
            self.stats['infeasible'] += 1
        elif reason == 'assume':
            self.stats['assume_pruned'] += 1
        if self.on_path_end is not None: self.on_path_end(st, reason)
        return reason

    def _run(self, st):
        stats = self.stats
        max_instr = self.max_instr
        multi = False
        while True:
            th = st.threads[st.cur]
            if th.status != 'run':
                self.schedule(st, forced=True)
                continue
            fr = th.frames[-1]
            regs = fr.regs
            instrs = fr.blk.instrs
            ip = fr.ip
            # fast inner loop over simple instructions
            ip0 = ip
            try:
                while True:
                    ins = instrs[ip]
                    if ins[0] != 0: break
                    fr.ip = ip          # a fork inside the instruction must copy the right resume point
                    ins[1](st, regs)
                    ip += 1
            finally:
                st.ninstr += ip - ip0 + 1
                fr.ip = ip
            if st.ninstr > max_instr:
                self.violation(st, 'non-termination', 'path exceeds %d instructions (loop does not terminate within the budget) at %s' % (max_instr, self.where(st)))
            k = ins[0]
            if k == K_CALL:
                self.do_call(st, th, fr, ins)
            elif k == K_BR:
                self.jump(fr, ins[1])
            elif k == K_CONDBR:
                c = ins[1](regs)
                if isinstance(c, int):
                    self.jump(fr, ins[2] if c else ins[3])
                else:
                    self.cond_branch(st, fr, c, ins)
            elif k == K_RET:
                rv = ins[1](regs) if ins[1] is not None else None
                self.do_ret(st, th, rv)
                if not th.frames:
                    th.status = 'done'; th.result = rv
                    if th.tid == 0:
                        self.finish(st)
                        return
                    self.schedule(st, forced=True)
            elif k == K_ATOMIC:
                if len(st.threads) > 1: self.schedule(st)
                if st.threads[st.cur] is th:
                    ins[1](st, regs); fr.ip += 1
                # else: another thread was scheduled; this thread re-executes the instruction later
                else:
                    pass
            elif k == K_SWITCH:
                v = ins[1](regs)
                if not isinstance(v, int):
                    v = simp(v)
                if isinstance(v, int):
                    self.jump(fr, ins[2].get(v, ins[3]))
                else:
                    self.switch_branch(st, fr, v, ins)
            elif k == K_UNREACHABLE:
                raise MemError('unreachable', 'reached unreachable')
            else:
                raise Unsupported('kind %r' % k)

    def jump(self, fr, bi, frm=None):
        src = fr.blk.idx
        blk = fr.cf.blocks[bi]
        ph = blk.phis.get(src)
        if ph:
            regs = fr.regs
            if len(ph) == 1:
                d, g = ph[0]; regs[d] = g(regs)
            else:
                vals = [g(regs) for d, g in ph]
                for (d, g), v in zip(ph, vals): regs[d] = v
        fr.blk = blk; fr.ip = 0

    def cond_branch(self, st, fr, c, ins):
        c = simp(to_bool(c))
        if isinstance(c, int):
            self.jump(fr, ins[2] if c else ins[3]); return
        ct, mt, cf_, mf = self.feasible(st, c)
        if ct and cf_:
            if self.mentions_undef(st, c):
                self.violation(st, 'uninitialised-read', 'branch depends on uninitialised memory at ' + self.where(st), fatal=False)
            key = id(ins)
            n = st.forks.get(key, 0) + 1
            if n > self.unwind:
                self.bound_exceeded(st, 'unwind %s/%s' % (fr.cf.name, fr.blk.name))
            st.forks[key] = n
            st.nforks += 1
            if self.verbose:
                w = '%s/%s' % (fr.cf.name, fr.blk.name); self.fork_sites[w] = self.fork_sites.get(w, 0) + 1
            sib = st.fork()
            self.add_constraint(sib, z3.Not(c), mf); sib.decisions.append(0)
            sfr = sib.threads[sib.cur].frames[-1]
            self.jump(sfr, ins[3])
            self.push_state(sib)
            self.add_constraint(st, c, mt); st.decisions.append(1)
            self.jump(fr, ins[2])
        elif ct:
            self.add_constraint(st, c); self.jump(fr, ins[2])
        elif cf_:
            self.add_constraint(st, z3.Not(c)); self.jump(fr, ins[3])
        else:
            raise PathEnd('infeasible')

    def switch_branch(self, st, fr, v, ins):
        """symbolic switch: one successor state per feasible *target* (not per value)"""
        w = ins[4]; table = ins[2]; dflt = ins[3]
        v = to_bv(v, w)
        by_target = {}
        for cv, bi in table.items(): by_target.setdefault(bi, []).append(cv)
        conds = []
        for bi, cvs in by_target.items():
            if bi == dflt: continue
            conds.append((bi, z3.Or([v == z3.BitVecVal(c, w) for c in cvs]) if len(cvs) > 1 else v == z3.BitVecVal(cvs[0], w)))
        non_default = [c for bi, cvs in by_target.items() if bi != dflt for c in cvs]
        conds.append((dflt, z3.And([v != z3.BitVecVal(c, w) for c in non_default]) if non_default else z3.BoolVal(True)))
        # enumerate the feasible targets with (#feasible + 1) queries: ask for a model outside the targets found so far
        feas = []
        remaining = list(conds)
        model = self.model_of(st)
        while remaining:
            hit = None
            for k, (bi, c) in enumerate(remaining):
                v_ = model.eval(c, True)
                if z3.is_true(v_) or z3.is_true(z3.simplify(v_)): hit = k; break
            if hit is None: break     # cannot happen: the targets partition the value space
            bi, c = remaining.pop(hit)
            feas.append((bi, c, model))
            if not remaining: break
            r, m = self.check(st, z3.Not(z3.Or([c2 for _, c2, _ in feas])))
            if r == 'sat': model = m
            else:
                if r == 'unknown': self.note_unsupported('solver-unknown-on-switch')
                break
        if not feas: raise PathEnd('infeasible')
        key = id(ins)
        if len(feas) > 1:
            n = st.forks.get(key, 0) + 1
            if n > self.unwind: self.bound_exceeded(st, 'unwind %s/%s' % (fr.cf.name, fr.blk.name))
            st.forks[key] = n
        for bi, c, m in feas[1:]:
            sib = st.fork(); self.add_constraint(sib, c, m); sib.decisions.append(('sw', bi))
            self.jump(sib.threads[sib.cur].frames[-1], bi)
            self.push_state(sib)
        bi, c, m = feas[0]
        self.add_constraint(st, c, m); st.decisions.append(('sw', bi))
        self.jump(fr, bi)

    def do_ret(self, st, th, rv):
        fr = th.frames.pop()
        mem = st.mem
        for b in reversed(fr.allocas): mem.free_stack(b)
        if fr.dest is CTOR:
            if th.frames and th.frames[-1].dest is not CTOR: st.ghost['leak_base'] = st.mem.nextid
            return
        if th.frames and fr.dest is not None:
            th.frames[-1].regs[fr.dest] = rv
        if th.frames:
            th.frames[-1].ip += 1

    def do_call(self, st, th, fr, ins):
        _, name, gcal, gargs, d, raw = ins
        regs = fr.regs
        if name is None:
            a = gcal(regs)
            if not isinstance(a, int): a = self.concretize(st, a, 64, 'callee')
            name = self.fname_at.get(a)
            if name is None:
                raise MemError('bad-call', 'indirect call to non-function address 0x%x' % a)
            name = self.overrides.get(name, name)
        args = [g(regs) for g in gargs]
        al = self.m.aliases.get(name)
        if al is not None and al.kind == 'global': name = al.v
        fn = self.m.functions.get(name)
        b = self.builtins.get(name)
        if b is not None:
            if len(st.threads) > 1 and name in self.B.SYNC_POINTS:
                self.schedule(st)
                if st.threads[st.cur] is not th: return     # preempted before the call: it is executed when th runs again
            try:
                r = b(self, st, args, raw)
            except self.B.Blocked:
                return      # thread blocked inside the call: it re-executes the call when it is scheduled again
            if r is NotImplemented:
                pass
            else:
                if st.threads[st.cur] is th and th.frames and th.frames[-1] is fr:
                    if d is not None: regs[d] = r
                    fr.ip += 1
                return
        if fn is None or fn.is_decl:
            pb = self.B.prefix_builtin(name)
            if pb is not None:
                r = pb(self, st, args, raw)
                if d is not None: regs[d] = r
                fr.ip += 1
                return
            raise Unsupported('call to undefined function ' + name)
        self.push_frame(st, th, name, args, d)

    def finish(self, st):
        """main thread returned from the harness entry"""
        for t in st.threads:
            if t.status != 'done' and not self.ignore_unfinished_threads:
                self.violation(st, 'thread-not-finished', 'harness returned while thread %s is %s' % (t.name, t.status))
        if self.check_leaks:
            base = st.ghost.get('leak_base', 0)
            live = [o for o in st.mem.live_heap() if o.id >= base]
            if live:
                self.violation(st, 'leak', 'heap object(s) still allocated at harness exit: %s' % ', '.join(o.name for o in live[:4]), fatal=False)

    # ------------------------------------------------------------------ threads
    def runnable(self, st):
        """[(tid, kind)] kind: 'run' | 'ready' (blocked, condition now true) | 'spurious' | 'timeout' (wake-up the model may inject)"""
        out = []
        for t in st.threads:
            if t.status == 'run': out.append((t.tid, 'run'))
            elif t.status == 'blocked':
                r = t.wait(self, st, t)
                if r is True: out.append((t.tid, 'ready'))
                elif r: out.append((t.tid, r))
        return out

    def schedule(self, st, forced=False):
        """scheduling point. forced: the current thread cannot continue (blocked / finished)."""
        cand = self.runnable(st)
        cur = st.cur
        if self.replay is not None:
            # concrete mode: follow the recorded schedule
            i = len(st.inputs)
            fair = False
            if forced or len([c for c in cand]) > 1 or (cand and cand[0][0] != cur):
                if forced and not [c for c in cand if c[1] in ('run', 'ready', 'timeout')]:
                    # same verdict as in exploration: a spurious wake-up never rescues a blocked system
                    if all(t.status == 'done' for t in st.threads): raise PathEnd('done-all')
                    self.violation(st, 'deadlock', 'all live threads are blocked: ' + ', '.join('%s:%s in %s' % (t.name[:24], t.status, self._thread_where(t)) for t in st.threads if t.status != 'done'))
                if not forced:
                    rs = st.ghost.get('run_streak', (cur, 0))
                    rs = (cur, rs[1] + 1) if rs[0] == cur else (cur, 1)
                    st.ghost['run_streak'] = rs
                    fair = rs[1] > self.fair_streak and [c for c in cand if c[0] != cur and c[1] in ('run', 'ready')]
                    if fair: st.ghost['run_streak'] = (cur, 0)
                    elif st.preempt >= self.preempt_bound: return
                    if not fair and len(cand) == 1 and cand[0][0] == cur: return
                if i >= len(self.replay): raise PathEnd('replay-exhausted')
                tid = self.replay[i]
                kinds = dict(cand)
                if tid not in kinds: raise PathEnd('replay-schedule-mismatch')
                st.inputs.append(('sched', tid))
                if not forced and tid != cur and not fair: st.preempt += 1
                self._switch_to(st, tid, kinds[tid])
            return
        if forced:
            real = [c for c in cand if c[1] in ('run', 'ready')]
            y = st.ghost.pop('yielder', None)
            if y is not None and len(real) > 1: real = [c for c in real if c[0] != y]      # a yielding thread lets another one run
            injected = [c for c in cand if c[1] not in ('run', 'ready')]
            # time only passes / spurious wake-ups only matter when chosen: free when nothing else can run, else they cost a preemption
            choices = list(real)
            if not real: choices = [c for c in injected if c[1] == 'timeout']      # time may pass; a spurious wake-up must never be what rescues a lost wake-up
            elif st.preempt < self.preempt_bound: choices += injected
            if not choices:
                if all(t.status == 'done' for t in st.threads): raise PathEnd('done-all')
                self.violation(st, 'deadlock', 'all live threads are blocked: ' + ', '.join('%s:%s in %s' % (t.name[:24], t.status, self._thread_where(t)) for t in st.threads if t.status != 'done'))
        else:
            # fairness: a thread that keeps passing scheduling points while others could run is spinning; after
            # self.fair_streak points it yields once for free (an unfair scheduler is not part of any property here)
            rs = st.ghost.get('run_streak', (cur, 0))
            rs = (cur, rs[1] + 1) if rs[0] == cur else (cur, 1)
            st.ghost['run_streak'] = rs
            if rs[1] > self.fair_streak:
                others = [c for c in cand if c[0] != cur and c[1] in ('run', 'ready')]
                if others:
                    # starvation freedom: the runnable thread that has not run for the longest time goes next (no choice here)
                    st.ghost['run_streak'] = (cur, 0)
                    lr = st.ghost.get('last_run', {})
                    first = min(others, key=lambda c: (lr.get(c[0], -1), c[0]))
                    st.inputs.append(('sched', first[0])); self._switch_to(st, first[0], first[1])
                    return
            if st.preempt >= self.preempt_bound: return
            choices = [c for c in cand if c[0] == cur] + [c for c in cand if c[0] != cur]
            if len(choices) <= 1: return
        first = choices[0]
        for alt in choices[1:]:
            sib = st.fork()
            if (not forced) or alt[1] not in ('run', 'ready'): sib.preempt += 1
            sib.decisions.append(('sched', alt[0]))
            sib.inputs.append(('sched', alt[0]))
            self._switch_to(sib, alt[0], alt[1])
            self.push_state(sib)
        if forced and first[1] not in ('run', 'ready') and [c for c in cand if c[1] in ('run', 'ready')]: st.preempt += 1
        st.inputs.append(('sched', first[0]))
        self._switch_to(st, first[0], first[1])

    def _thread_where(self, t):
        try: return '<-'.join(fr.cf.name[:44] for fr in reversed(t.frames[-3:]))
        except Exception: return '?'

    def _switch_to(self, st, tid, kind='run'):
        t = st.threads[tid]
        if tid != st.cur or True:
            lr = dict(st.ghost.get('last_run', {})); lr[tid] = st.ninstr; st.ghost['last_run'] = lr
        if t.status == 'blocked':
            t.status = 'run'; t.wait = None
            if kind in ('spurious', 'timeout'):
                w = dict(st.ghost.get('wake', {})); w[tid] = kind; st.ghost['wake'] = w
        st.cur = tid

def sgn64(v): return v - (1 << 64) if v >> 63 else v

class _DictModel:
    """model returned by the cvc5 back end: name -> value; evaluation by substitution"""
    def __init__(self, vals): self.vals = vals
    def eval(self, t, completion=True):
        acc = set(); _vars_of(t, acc, set())
        sub = []
        stack = [t]; seen = set(); consts = {}
        while stack:
            x = stack.pop()
            if x.get_id() in seen: continue
            seen.add(x.get_id())
            if z3.is_const(x) and x.decl().kind() == z3.Z3_OP_UNINTERPRETED: consts[x.decl().name()] = x
            else: stack.extend(x.children())
        for name, c in consts.items():
            if z3.is_bv(c):
                v = self.vals.get(name, (0, c.size()))[0]
                sub.append((c, z3.BitVecVal(v, c.size())))
            elif z3.is_bool(c):
                sub.append((c, z3.BoolVal(False)))
        return z3.simplify(z3.substitute(t, *sub)) if sub else z3.simplify(t)
CTOR = 'ctor-frame'

def _deepcopy(v):
    if isinstance(v, list): return [_deepcopy(x) for x in v]
    return v
