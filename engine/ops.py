"""Scalar operations on mixed concrete (python int / float) and symbolic (z3) values.

ints: unsigned canonical python ints or z3 BitVecRef; i1: python 0/1 or z3 BoolRef; doubles: python float or z3 FPRef.
"""
import z3, struct, math

BV = z3.BitVecRef
BoolRef = z3.BoolRef

def is_sym(v):
    return not isinstance(v, (int, float, list, type(None)))

def mask(w): return (1 << w) - 1

def sgn(v, w):
    return v - (1 << w) if v >> (w - 1) else v

def to_bv(v, w):
    """any i<w> value -> z3 BitVec(w)"""
    if isinstance(v, int): return z3.BitVecVal(v, w)
    if isinstance(v, BoolRef): return z3.If(v, z3.BitVecVal(1, w), z3.BitVecVal(0, w))
    return v

def to_bool(v):
    """i1 value -> python bool-int or z3 Bool"""
    if isinstance(v, int): return v & 1
    if isinstance(v, BoolRef): return v
    # BV1
    return v == z3.BitVecVal(1, 1) if v.size() == 1 else (z3.Extract(0, 0, v) == z3.BitVecVal(1, 1))

def simp(v):
    """light simplification: fold to a python value when the term is a numeral"""
    if isinstance(v, (int, float)) or v is None: return v
    v = z3.simplify(v)
    if z3.is_bv_value(v): return v.as_long()
    if z3.is_true(v): return 1
    if z3.is_false(v): return 0
    return v

def _fold(v):
    if z3.is_bv_value(v): return v.as_long()
    if z3.is_true(v): return 1
    if z3.is_false(v): return 0
    return v

def binop(op, a, b, w):
    if isinstance(a, int) and isinstance(b, int):
        m = (1 << w) - 1
        if op == 'add': return (a + b) & m
        if op == 'sub': return (a - b) & m
        if op == 'mul': return (a * b) & m
        if op == 'and': return a & b
        if op == 'or': return a | b
        if op == 'xor': return a ^ b
        if op == 'shl': return (a << b) & m if b < w else 0
        if op == 'lshr': return a >> b if b < w else 0
        if op == 'ashr': return (sgn(a, w) >> min(b, w - 1)) & m
        if op == 'udiv':
            if b == 0: raise ZeroDivisionError
            return a // b
        if op == 'urem':
            if b == 0: raise ZeroDivisionError
            return a % b
        if op == 'sdiv':
            if b == 0: raise ZeroDivisionError
            x = sgn(a, w); y = sgn(b, w)
            q = abs(x) // abs(y)
            if (x < 0) != (y < 0): q = -q
            return q & m
        if op == 'srem':
            if b == 0: raise ZeroDivisionError
            x = sgn(a, w); y = sgn(b, w)
            r = abs(x) % abs(y)
            if x < 0: r = -r
            return r & m
        raise NotImplementedError(op)
    if w == 1:
        a = to_bool(a); b = to_bool(b)
        if op == 'and':
            if isinstance(a, int): return b if a else 0
            if isinstance(b, int): return a if b else 0
            return z3.And(a, b)
        if op == 'or':
            if isinstance(a, int): return 1 if a else b
            if isinstance(b, int): return 1 if b else a
            return z3.Or(a, b)
        if op in ('xor', 'add', 'sub'):
            if isinstance(a, int): return z3.Not(b) if a else b
            if isinstance(b, int): return z3.Not(a) if b else a
            return z3.Xor(a, b)
        raise NotImplementedError('i1 ' + op)
    # cheap identities keep terms small
    if isinstance(b, int):
        if b == 0 and op in ('add', 'sub', 'or', 'xor', 'shl', 'lshr', 'ashr'): return a
        if b == 0 and op in ('mul', 'and'): return 0
        if b == 1 and op in ('mul', 'udiv', 'sdiv'): return a
        if op == 'and' and b == (1 << w) - 1: return a
    elif isinstance(a, int):
        if a == 0 and op in ('add', 'or', 'xor'): return b
        if a == 0 and op in ('mul', 'and', 'shl', 'lshr', 'ashr'): return 0
        if a == 1 and op == 'mul': return b
        if op == 'and' and a == (1 << w) - 1: return b
    a = to_bv(a, w); b = to_bv(b, w)
    if op == 'add': r = a + b
    elif op == 'sub': r = a - b
    elif op == 'mul': r = a * b
    elif op == 'and': r = a & b
    elif op == 'or': r = a | b
    elif op == 'xor': r = a ^ b
    elif op == 'shl': r = a << b
    elif op == 'lshr': r = z3.LShR(a, b)
    elif op == 'ashr': r = a >> b
    elif op == 'udiv': r = z3.UDiv(a, b)
    elif op == 'urem': r = z3.URem(a, b)
    elif op == 'sdiv': r = a / b
    elif op == 'srem': r = z3.SRem(a, b)
    else: raise NotImplementedError(op)
    return r

def icmp(pred, a, b, w):
    if isinstance(a, int) and isinstance(b, int):
        if pred == 'eq': return int(a == b)
        if pred == 'ne': return int(a != b)
        if pred == 'ult': return int(a < b)
        if pred == 'ule': return int(a <= b)
        if pred == 'ugt': return int(a > b)
        if pred == 'uge': return int(a >= b)
        x = sgn(a, w); y = sgn(b, w)
        if pred == 'slt': return int(x < y)
        if pred == 'sle': return int(x <= y)
        if pred == 'sgt': return int(x > y)
        if pred == 'sge': return int(x >= y)
        raise NotImplementedError(pred)
    if w == 1:
        a = to_bool(a); b = to_bool(b)
        if isinstance(a, int): a = z3.BoolVal(bool(a))
        if isinstance(b, int): b = z3.BoolVal(bool(b))
        if pred == 'eq': return z3.simplify(a == b)
        if pred == 'ne': return z3.simplify(a != b)
        raise NotImplementedError('i1 icmp ' + pred)
    a = to_bv(a, w); b = to_bv(b, w)
    if pred == 'eq': return a == b
    if pred == 'ne': return a != b
    if pred == 'ult': return z3.ULT(a, b)
    if pred == 'ule': return z3.ULE(a, b)
    if pred == 'ugt': return z3.UGT(a, b)
    if pred == 'uge': return z3.UGE(a, b)
    if pred == 'slt': return a < b
    if pred == 'sle': return a <= b
    if pred == 'sgt': return a > b
    if pred == 'sge': return a >= b
    raise NotImplementedError(pred)

def zext(v, sw, dw):
    if isinstance(v, int): return v
    if sw == 1:
        b = to_bool(v)
        return z3.If(b, z3.BitVecVal(1, dw), z3.BitVecVal(0, dw))
    return z3.ZeroExt(dw - sw, v)

def sext(v, sw, dw):
    if isinstance(v, int): return sgn(v, sw) & mask(dw) if sw > 1 else (mask(dw) if v else 0)
    if sw == 1:
        b = to_bool(v)
        return z3.If(b, z3.BitVecVal(mask(dw), dw), z3.BitVecVal(0, dw))
    return z3.SignExt(dw - sw, v)

def trunc(v, sw, dw):
    if isinstance(v, int): return v & mask(dw)
    if dw == 1:
        return z3.Extract(0, 0, v) == z3.BitVecVal(1, 1)
    return z3.Extract(dw - 1, 0, v)

def select(c, a, b, w):
    if isinstance(c, int): return a if c else b
    c = to_bool(c)
    if a is b: return a
    if isinstance(a, int) and isinstance(b, int) and a == b: return a
    if w == 1:
        a = to_bool(a); b = to_bool(b)
        if isinstance(a, int): a = z3.BoolVal(bool(a))
        if isinstance(b, int): b = z3.BoolVal(bool(b))
        return z3.If(c, a, b)
    if isinstance(a, float) or isinstance(b, float) or isinstance(a, z3.FPRef) or isinstance(b, z3.FPRef):
        return z3.If(c, to_fp(a), to_fp(b))
    return z3.If(c, to_bv(a, w), to_bv(b, w))

def neg_bool(c):
    if isinstance(c, int): return 1 - (c & 1)
    return z3.Not(to_bool(c))

# ---- floating point (double only; float handled by conversion)
F64S = z3.Float64()
RNE = z3.RNE()
RTZ = z3.RTZ()

def to_fp(v):
    if isinstance(v, float): return z3.FPVal(v, F64S)
    if isinstance(v, int): return z3.FPVal(float(v), F64S)
    return v

def f64_bits(v):
    if isinstance(v, float): return struct.unpack('<Q', struct.pack('<d', v))[0]
    return z3.fpToIEEEBV(v)

def bits_f64(v):
    if isinstance(v, int): return struct.unpack('<d', struct.pack('<Q', v))[0]
    return z3.fpBVToFP(v, F64S)

def fbin(op, a, b):
    if isinstance(a, float) and isinstance(b, float):
        try:
            if op == 'fadd': return a + b
            if op == 'fsub': return a - b
            if op == 'fmul': return a * b
            if op == 'fdiv':
                if b == 0.0:
                    if a == 0.0 or a != a: return float('nan')
                    return math.copysign(float('inf'), a) * math.copysign(1.0, b)
                return a / b
            if op == 'frem': return math.fmod(a, b)
        except OverflowError:
            return float('inf')
    a = to_fp(a); b = to_fp(b)
    if op == 'fadd': return z3.fpAdd(RNE, a, b)
    if op == 'fsub': return z3.fpSub(RNE, a, b)
    if op == 'fmul': return z3.fpMul(RNE, a, b)
    if op == 'fdiv': return z3.fpDiv(RNE, a, b)
    if op == 'frem': return z3.fpRem(a, b)
    raise NotImplementedError(op)

def fcmp(pred, a, b):
    if isinstance(a, float) and isinstance(b, float):
        un = (a != a) or (b != b)
        if pred == 'oeq': return int(not un and a == b)
        if pred == 'one': return int(not un and a != b)
        if pred == 'olt': return int(not un and a < b)
        if pred == 'ole': return int(not un and a <= b)
        if pred == 'ogt': return int(not un and a > b)
        if pred == 'oge': return int(not un and a >= b)
        if pred == 'ord': return int(not un)
        if pred == 'uno': return int(un)
        if pred == 'ueq': return int(un or a == b)
        if pred == 'une': return int(un or a != b)
        if pred == 'ult': return int(un or a < b)
        if pred == 'ule': return int(un or a <= b)
        if pred == 'ugt': return int(un or a > b)
        if pred == 'uge': return int(un or a >= b)
        if pred == 'true': return 1
        if pred == 'false': return 0
    a = to_fp(a); b = to_fp(b)
    un = z3.Or(z3.fpIsNaN(a), z3.fpIsNaN(b))
    base = {'eq': z3.fpEQ, 'ne': lambda x, y: z3.Not(z3.fpEQ(x, y)), 'lt': z3.fpLT, 'le': z3.fpLEQ, 'gt': z3.fpGT, 'ge': z3.fpGEQ}
    if pred == 'ord': return z3.Not(un)
    if pred == 'uno': return un
    k = pred[1:]
    r = base[k](a, b)
    if pred[0] == 'o': return z3.And(z3.Not(un), r)
    return z3.Or(un, r)
