"""clang driver: harness TU + real libnstd sources -> one linked .ll (regenerated from /repo on every run)."""
import os, subprocess, hashlib, sys

REPO = os.environ.get('VERIF_REPO', '/repo')
VERIF = os.path.dirname(os.path.dirname(os.path.abspath(__file__)))
BUILD = os.environ.get('VERIF_BUILD', os.path.join(VERIF, 'build'))      # scratch; VERIF_BUILD / VERIF_EVIDENCE let a second run (seed regression on a worktree) work beside the registered one

CXXFLAGS = ['-std=c++11', '-O1', '-fno-exceptions', '-fno-rtti', '-fno-vectorize', '-fno-slp-vectorize',
            '-fno-unroll-loops', '-fno-strict-aliasing', '-Wno-everything',
            '-I' + os.path.join(REPO, 'include'), '-I' + os.path.join(VERIF, 'harness'), '-I' + os.path.join(VERIF, 'stubs'),
            '-DVF_SYMBOLIC=1', '-DLIBNSTD_VERIF=1']

def run(cmd, **kw):
    p = subprocess.run(cmd, stdout=subprocess.PIPE, stderr=subprocess.STDOUT, **kw)
    if p.returncode != 0:
        sys.stderr.write('command failed: %s\n%s\n' % (' '.join(cmd), p.stdout.decode('utf-8', 'replace')))
        raise RuntimeError('build failed: ' + cmd[0])
    return p.stdout.decode('utf-8', 'replace')

def _path(src):
    if os.path.isabs(src): return src
    if src.startswith('repo:'): return os.path.join(REPO, src[5:])
    return os.path.join(VERIF, src)

def lower(tag, sources, defines=None, extra_flags=None, outdir=None):
    """compile every source to IR and link; returns path of the linked .ll"""
    outdir = outdir or os.path.join(BUILD, tag)
    os.makedirs(outdir, exist_ok=True)
    defs = ['-D%s=%s' % (k, v) for k, v in sorted((defines or {}).items())]
    lls = []
    for i, src in enumerate(sources):
        flags = list(extra_flags or [])
        if isinstance(src, tuple): src, f2 = src; flags += f2
        p = _path(src)
        out = os.path.join(outdir, '%d_%s.ll' % (i, os.path.basename(p).replace('.cpp', '')))
        run(['clang++-14'] + CXXFLAGS + defs + flags + ['-S', '-emit-llvm', p, '-o', out])
        lls.append(out)
    linked = os.path.join(outdir, 'linked.ll')
    if len(lls) == 1:
        os.replace(lls[0], linked)
    else:
        run(['llvm-link-14', '-S'] + lls + ['-o', linked])
        for f in lls: os.remove(f)
    return linked

NATIVE_FLAGS = ['-std=c++11', '-O1', '-g', '-fno-omit-frame-pointer', '-fsanitize=address,undefined', '-fno-sanitize=alignment', '-fno-sanitize-recover=undefined',
                '-w', '-I' + os.path.join(REPO, 'include'), '-I' + os.path.join(VERIF, 'harness'), '-I' + os.path.join(VERIF, 'stubs'),
                '-DVF_NATIVE=1', '-DLIBNSTD_VERIF=1']

def native(tag, sources, entry, defines=None, extra_flags=None, sanitize=True):
    """g++ build of the same harness for replay / validation; returns the executable path"""
    outdir = os.path.join(BUILD, tag)
    os.makedirs(outdir, exist_ok=True)
    defs = ['-D%s=%s' % (k, v) for k, v in sorted((defines or {}).items())]
    exe = os.path.join(outdir, 'native_' + entry)
    flags = list(NATIVE_FLAGS)
    if not sanitize: flags = [f for f in flags if not f.startswith('-fsanitize') and not f.startswith('-fno-sanitize')]
    srcs = []
    for src in sources:
        if isinstance(src, tuple): src = src[0]
        srcs.append(_path(src))
    srcs.append(os.path.join(VERIF, 'harness', 'vf_native.cpp'))
    if not any(x.endswith('src/Debug.cpp') for x in srcs): srcs.append(os.path.join(VERIF, 'stubs', 'native_debug.cpp'))
    run(['g++'] + flags + defs + list(extra_flags or []) + ['-DVF_ENTRY=' + entry] + srcs + ['-o', exe, '-lpthread', '-lrt'])
    return exe
