"""debug helper: python3-vt engine/dbg.py <prop> <unit> <entry> [--tier t] [--replay file | --vals 1,2,3]  -> runs one entry (optionally concretely) verbosely"""
import sys, os, argparse, importlib
HERE = os.path.dirname(os.path.abspath(__file__)); sys.path.insert(0, HERE); sys.path.insert(0, os.path.dirname(HERE))
import lower, irparse, symex
ap = argparse.ArgumentParser(); ap.add_argument('prop'); ap.add_argument('unit'); ap.add_argument('entry'); ap.add_argument('--tier', default='quick')
ap.add_argument('--replay'); ap.add_argument('--vals'); ap.add_argument('--budget', type=float, default=60); ap.add_argument('--trace', action='store_true')
a = ap.parse_args()
P = importlib.import_module('props.' + a.prop)
u = [x for x in P.UNITS if x['name'] == a.unit][0]
defs = dict(u.get('defines', {}).get('all', {})); defs.update(u.get('defines', {}).get(a.tier, {}))
ll = lower.lower('%s/%s_%s_dbg' % (a.prop, a.unit, a.tier), [u['harness']] + u.get('sources', []), defs, u.get('flags'))
mod = irparse.parse_file(ll)
opts = dict(u.get('opts', {}).get('all', {})); opts.update(u.get('opts', {}).get(a.tier, {})); opts['verbose'] = 1
if a.replay: opts['replay'] = [int(x) for x in open(a.replay).read().split('\n') if x and not x.startswith('#')]
if a.vals: opts['replay'] = [int(x) for x in a.vals.split(',')]
ex = symex.Executor(mod, opts)
if a.trace:
    ex.trace_calls = True
ex.explore(a.entry, a.budget)
print(ex.stats)
for v in ex.violations[:5]: print(v)
print('unsupported', ex.unsupported_at, 'bound', ex.bound_exceeded_at, 'reach', ex.reach_all)
