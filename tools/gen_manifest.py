#!/usr/bin/env python3
"""Regenerates MANIFEST.json from props/*.py (claimed properties) and tools/not_applicable.json."""
import json, os, sys, importlib
V = os.path.dirname(os.path.dirname(os.path.abspath(__file__)))
sys.path.insert(0, V)
ALL = ['C%02d' % i for i in range(1, 21)]
na = json.load(open(os.path.join(V, 'tools', 'not_applicable.json')))
checks = []
for pid in ALL:
    if pid in na: continue
    if not os.path.exists(os.path.join(V, 'props', pid + '.py')):
        na[pid] = 'no check built yet for this property (work in progress; nothing is claimed)'
        continue
    P = importlib.import_module('props.' + pid)
    checks.append(dict(
        property_id=pid,
        quick_cmd='./check %s --tier quick' % pid,
        thorough_cmd='./check %s --tier thorough' % pid,
        evidence_file='/verif/evidence/%s.json' % pid,
        replay_cmd_template='./check %s --replay {path}' % pid,
        engine=getattr(P, 'ENGINE', 'E2'),
        level_claimed=dict(category='model_checking', design_ref='DESIGN.md section 3 (%s)' % pid,
                           text=getattr(P, 'LEVEL_TEXT', 'Bounded symbolic model checking of the real code: the anchored functions are lowered from /repo to LLVM IR on every run and executed symbolically; every branch and assertion is decided by z3 over all scalar values within the stated bounds; counterexamples are replayed on a native ASan/UBSan build before being reported.')),
        level_note=getattr(P, 'LEVEL_NOTE', '; '.join(getattr(P, 'ASSUMPTIONS', []))),
        technique=getattr(P, 'TECHNIQUE', 'solver-based bounded symbolic execution of clang-14 LLVM IR (own executor, z3) with native counterexample replay'),
    ))
m = dict(
    version=1,
    setup_cmd='python3-vt -c "import z3" && clang++-14 --version >/dev/null && mkdir -p /verif/build /verif/evidence',
    hooks=dict(guard='LIBNSTD_VERIF', enable='harness TUs are compiled with -DLIBNSTD_VERIF=1 (no source hooks were needed: private state is reached with "#define private public" inside harness TUs only)',
               baseline_off_cmd='cmake --build /repo/_build && ctest --test-dir /repo/_build -j8 --timeout 900', source_commits=[], add_only=True),
    engines=[dict(name='E2', path='/verif/engine/symex.py', serves_properties=[c['property_id'] for c in checks if c['engine'] != 'E1'],
                  kind_free_text='own symbolic executor for clang-14 LLVM IR (python + z3): symbolic scalars, concrete guarded address space, solver-decided branches/assertions, COW state forking, native replay'),
             ],
    checks=checks,
    not_applicable=[dict(property_id=k, reason=v) for k, v in sorted(na.items())],
    notes='Exit codes of ./check: 0 property held on everything explored; 1 VIOLATION (replayed natively); 2 INCONCLUSIVE (bound exceeded, solver unknown, time budget, engine disagreement) - nothing is claimed from an inconclusive run.',
)
json.dump(m, open(os.path.join(V, 'MANIFEST.json'), 'w'), indent=1)
print('claimed:', [c['property_id'] for c in checks]); print('not applicable:', sorted(na))
