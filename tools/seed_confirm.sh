#!/bin/sh
# tools/seed_confirm.sh <id>: confirm a sub-agent's seeded change in its worktree /tmp/wt_<id> from its _seed/patch.diff:
# tests pass with it, demo fails with it and passes without. (No git stash: the stash is shared by all worktrees.)
W=${SEED_WT:-/tmp/wt_$1}
cd $W || exit 9
[ -s $W/_seed/patch.diff ] || git diff -- include src > $W/_seed/patch.diff
git checkout -- include src
git apply $W/_seed/patch.diff || { echo "patch.diff does not apply to HEAD"; exit 9; }
echo "== patch"; git diff --stat -- include src | tail -3
echo "== tests with change"; (cmake -G Ninja -S $W -B $W/_build -DCMAKE_BUILD_TYPE=RelWithDebInfo >/dev/null 2>&1 && cmake --build $W/_build >/dev/null 2>&1 && ctest --test-dir $W/_build -j8 --timeout 900 2>&1 | tail -3)
echo "== demo with change"; (cd $W/_seed && sh ./build_and_run.sh >/tmp/seed_demo_with_$1.log 2>&1; echo "rc=$?"; tail -3 /tmp/seed_demo_with_$1.log)
git apply -R $W/_seed/patch.diff
(cmake --build $W/_build >/dev/null 2>&1)
echo "== demo without change"; (cd $W/_seed && sh ./build_and_run.sh >/tmp/seed_demo_without_$1.log 2>&1; echo "rc=$?"; tail -3 /tmp/seed_demo_without_$1.log)
git apply $W/_seed/patch.diff
