#!/bin/sh
# tools/seed_confirm.sh <id>: confirm a sub-agent's seeded change in its worktree /tmp/wt_<id>: tests pass with it, demo fails with it and passes without
W=/tmp/wt_$1
cd $W || exit 9
echo "== patch"; git diff --stat -- include src | tail -3
echo "== tests with change"; (cmake -G Ninja -S $W -B $W/_build -DCMAKE_BUILD_TYPE=RelWithDebInfo >/dev/null && cmake --build $W/_build >/dev/null && ctest --test-dir $W/_build -j8 --timeout 900 2>&1 | tail -3)
echo "== demo with change"; (cd $W/_seed && sh ./build_and_run.sh >/tmp/seed_demo_with.log 2>&1; echo "rc=$?"; tail -3 /tmp/seed_demo_with.log)
git stash -q
echo "== demo without change"; (cd $W/_seed && sh ./build_and_run.sh >/tmp/seed_demo_without.log 2>&1; echo "rc=$?"; tail -3 /tmp/seed_demo_without.log)
git stash pop -q
git diff -- include src > $W/_seed/patch.diff
