#!/usr/bin/env python3
"""tools/kf_fixed.py <id> <property> <unit> <entry> <kind> "<what failed>": record the HEAD fix: commit of /repo as a fixed entry (suppresses nothing)"""
import json, subprocess, sys
kid, prop, unit, entry, kind, what = sys.argv[1:7]
line = subprocess.check_output(['git', '-C', '/repo', 'log', '--oneline', '-1']).decode().strip()
h = line.split()[0]
assert ' fix:' in line, line
k = json.load(open('/verif/known_findings.json'))
assert not [f for f in k['findings'] if f['id'] == kid], 'duplicate id'
k['findings'].append(dict(id=kid, property=prop, status='fixed', commit=line,
                          what='fixed: property=%s %s %s' % (prop, h, what), match=dict(unit=unit, entry=entry, kind=kind)))
json.dump(k, open('/verif/known_findings.json', 'w'), indent=1)
print('recorded', kid, line)
