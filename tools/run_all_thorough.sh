#!/bin/sh
# runs every registered thorough check on the current tree, one line per property (logs in /tmp/allt_<id>.log)
cd "$(dirname "$0")/.."
for p in ${@:-C01 C02 C03 C04 C05 C06 C07 C08 C09 C10 C11 C12 C13 C14 C15 C16 C17 C18 C19 C20}; do
  s=$(date +%s); ./check $p --tier thorough > /tmp/allt_$p.log 2>&1; rc=$?; e=$(date +%s)
  echo "$p rc=$rc $((e-s))s $(grep -c '^INCONCLUSIVE' /tmp/allt_$p.log) inconclusive $(grep -c '^VIOLATION' /tmp/allt_$p.log) violations | $(tail -1 /tmp/allt_$p.log | cut -c1-160)"
done
