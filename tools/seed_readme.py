#!/usr/bin/env python3
"""regenerates seeded/README.md from seeded/*/meta.json"""
import json, os, glob
rows = []
for f in sorted(glob.glob('/verif/seeded/*/meta.json')):
    m = json.load(open(f)); rows.append(m)
out = ['# Seeded changes', '',
       'Each change was written by an independent sub-agent that saw only the property text and a scratch worktree of /repo (after the `fix:` commits),',
       'compiles, passes the 34 existing tests, and comes with a demonstration that fails with it and passes without it (confirmed by `tools/seed_confirm.sh`, log in each directory).',
       'Applied to /repo with `git apply`, checked with the registered quick command, undone with `git checkout -- .` (`tools/seed_check.sh`).', '',
       '| seed | property | needs to manifest | caught by the registered check | what reported it / what was strengthened |', '|---|---|---|---|---|']
for m in rows:
    v = m['violations_reported'][0] if m['violations_reported'] else None
    rep = ('%s/%s %s: %s' % (v['unit'], v['entry'], v['kind'], v['msg'][:70])) if v else '-'
    out.append('| %s | %s | %s | %s (%s) | %s. %s |' % (m['seed'], m['breaks_property'], m['needs_to_manifest'], m['caught_by_registered_check'], m['tier'], rep, m['notes']))
n = len(rows); c = sum(1 for m in rows if m['caught_by_registered_check'] == 'yes'); a = sum(1 for m in rows if m['caught_by_registered_check'].startswith('after'))
out += ['', '%d seeded changes: %d caught by the checks as they were, %d caught after strengthening a bound or a harness, %d not caught.' % (n, c, a, n - c - a)]
open('/verif/seeded/README.md', 'w').write('\n'.join(out) + '\n')
print(out[-1])
