#!/bin/sh
# tools/seed_process.sh <seedname> <property> <worktree-id> [tier]: confirm the change, run the property's check against it, store everything under seeded/<seedname>/
S=$1; P=$2; W=${SEED_WT:-/tmp/wt_$3}; TIER=${4:-quick}
D=/verif/seeded/$S; mkdir -p $D
/verif/tools/seed_confirm.sh $3 > $D/confirm.log 2>&1
cp $W/_seed/patch.diff $W/_seed/demo.cpp $W/_seed/build_and_run.sh $W/_seed/README.md $D/ 2>/dev/null
grep -A2 "^== " $D/confirm.log | grep -v "^--" | tail -14
/verif/tools/seed_check.sh $P $D/patch.diff $TIER > $D/check_$TIER.log 2>&1
grep "VIOLATION\|tier=\|INCONCL\|unit=" $D/check_$TIER.log | cut -c1-260 | head -8
