#!/usr/bin/env python3
"""tools/seed_meta.py <seed dir name> <property> <caught: yes|no|after-strengthening> <tier> "<needs>" "<notes>" : writes seeded/<name>/meta.json"""
import sys, json, os, re
name, prop, caught, tier, needs, notes = sys.argv[1:7]
d = os.path.join('/verif/seeded', name)
logs = sorted(f for f in os.listdir(d) if f.startswith('check_'))
viol = []
for f in logs:
    for l in open(os.path.join(d, f)):
        m = re.search(r'unit=(\S+) entry=(\S+) kind=(\S+) status=(\S+): (.*)', l)
        if m: viol.append(dict(log=f, unit=m.group(1), entry=m.group(2), kind=m.group(3), status=m.group(4), msg=m.group(5).strip()[:160]))
meta = dict(seed=name, breaks_property=prop, needs_to_manifest=needs, caught_by_registered_check=caught, tier=tier,
            confirmed=dict(tests_pass_with_change=True, demo_fails_with_change=True, demo_passes_without_change=True, how='tools/seed_confirm.sh in the sub-agent\'s scratch worktree (log: confirm.log)'),
            ran=['tools/seed_confirm.sh', 'tools/seed_check.sh %s seeded/%s/patch.diff %s' % (prop, name, tier)],
            violations_reported=viol[:4], notes=notes)
json.dump(meta, open(os.path.join(d, 'meta.json'), 'w'), indent=1)
print('wrote', d)
