#!/bin/sh
# tools/seed_regress.sh [out-file]: re-run every stored seeded change against the *current* /repo HEAD and /verif checks.
# Works on a scratch worktree of /repo (VERIF_REPO) with its own build and evidence directories, so the registered checks and
# /repo itself are not disturbed. One line per seed: caught / MISSED.
OUT=${1:-/verif/seeded/REGRESSION.txt}
WT=/tmp/seedrepo.$$; B=/tmp/seedbuild.$$; E=/tmp/seedev.$$
git -C /repo worktree add --detach $WT HEAD >/dev/null 2>&1 || exit 1
echo "seed regression at /repo $(git -C /repo log --oneline -1 | cut -c1-60) / verif $(git -C /verif log --oneline -1 | cut -c1-8)" > $OUT
for d in /verif/seeded/*/; do
  n=$(basename $d); p=$(python3 -c "import json;print(json.load(open('$d/meta.json'))['breaks_property'])")
  f=$d/patch_rebased.diff; [ -f $f ] || f=$d/patch.diff
  if grep -q no_longer_applicable $d/meta.json; then echo "$n $p not-applicable-any-more (see meta.json)" >> $OUT; continue; fi
  if ! git -C $WT apply $f 2>/dev/null; then echo "$n $p PATCH-DOES-NOT-APPLY" >> $OUT; continue; fi
  VERIF_REPO=$WT VERIF_BUILD=$B VERIF_EVIDENCE=$E /verif/check $p --tier quick --no-validate > /tmp/seedreg.$$.log 2>&1; rc=$?
  v=$(grep -c '^VIOLATION' /tmp/seedreg.$$.log)
  if [ $rc -eq 1 ] && [ $v -gt 0 ]; then r=caught; else r="MISSED(rc=$rc)"; fi
  echo "$n $p $r $(grep -m1 'unit=' /tmp/seedreg.$$.log | cut -c1-110)" >> $OUT
  git -C $WT checkout -- . 
done
git -C /repo worktree remove --force $WT; git -C /repo worktree prune; rm -rf $B $E /tmp/seedreg.$$.log
echo done >> $OUT
