#!/bin/sh
# tools/seed_check.sh <property> <patch.diff> [tier] [extra check args]: apply a seeded change to /repo, run the property's check, undo.
P=$1; PATCH=$2; TIER=${3:-quick}; shift 3 2>/dev/null
cd /repo || exit 9
if ! git diff --quiet; then echo "/repo has uncommitted changes"; exit 9; fi
git apply "$PATCH" || { echo "patch does not apply"; exit 9; }
cd /verif && ./check "$P" --tier "$TIER" --no-validate "$@" 2>&1 | grep -v "^\[" | cut -c1-400 | head -30
RC=$?
git -C /repo checkout -- .
echo "(undone) $(git -C /repo status --short | grep -v _build | wc -l) modified files left"
