#!/bin/sh
# tools/fix_commit.sh <message-file> <files...>: build /repo, run the pinned test suite, commit the given files as one fix: commit
M=$1; shift
cd /repo || exit 1
cmake --build _build 2>&1 | grep -E "error|warning: unused" | head -5
R=$(ctest --test-dir _build -j8 --timeout 900 2>&1 | grep "tests passed")
echo "$R"
case "$R" in "100% tests passed, 0 tests failed out of 34") ;; *) echo "TESTS NOT CLEAN - not committed"; exit 1;; esac
git add "$@" && git commit -q -F "$M" && git log --oneline | head -1
