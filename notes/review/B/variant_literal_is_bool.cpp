// [C07] "A Variant reports the type and value it was last given": a string literal
// given to a Variant is silently stored as the boolean true, because the only viable
// conversion is const char* -> bool -> Variant(bool) / operator=(bool).
#include "demo.h"
#include <nstd/Variant.hpp>

static int construct()
{
  Variant v("hello");
  EXPECT(v.getType() == Variant::stringType); // observed: boolType
  EXPECT(v.toString() == "hello");            // observed: "true"
  return 0;
}

static int assign()
{
  Variant v;
  v = "hello";
  EXPECT(v.getType() == Variant::stringType);
  EXPECT(((const Variant&)v).toString() == "hello");
  return 0;
}

static int assignEmptyLiteral()
{
  Variant v(String("old"));
  v = "";                                      // "given" the empty string
  EXPECT(((const Variant&)v).toString() == ""); // observed: "true"
  return 0;
}

static int mapValue()
{
  HashMap<String, Variant> map;
  map.append("name", "hello");
  EXPECT(map.find("name")->getType() == Variant::stringType);
  EXPECT(map.find("name")->toString() == "hello");
  return 0;
}

static int control()
{
  Variant v(String("hello"));
  EXPECT(v.getType() == Variant::stringType && ((const Variant&)v).toString() == "hello");
  return 0;
}

int main()
{
  runCase("control: Variant v(String(\"hello\"))", control);
  runCase("Variant v(\"hello\") is a string", construct);
  runCase("v = \"hello\" is a string", assign);
  runCase("v = \"\" is the empty string", assignEmptyLiteral);
  runCase("HashMap<String, Variant>::append(\"name\", \"hello\") stores a string", mapValue);
  return demoFailed;
}
