// tiny helper for the demonstration programs: runs each case in a child process
// so that a crash / sanitizer abort is reported as FAIL instead of killing the demo
#pragma once
#include <stdio.h>
#include <string.h>
#include <stdlib.h>
#include <unistd.h>
#include <sys/wait.h>

static int demoFailed = 0;

// the case function returns 0 when the library behaved as the property demands
static void runCase(const char* name, int (*fn)())
{
  fflush(stdout);
  pid_t pid = fork();
  if(pid == 0)
  {
    alarm(20);
    int r = fn();
    fflush(stdout);
    _exit(r ? 1 : 0);
  }
  int status = 0;
  waitpid(pid, &status, 0);
  if(WIFEXITED(status) && WEXITSTATUS(status) == 0)
    printf("ok:   %s\n", name);
  else if(WIFEXITED(status))
  {
    printf("FAIL: %s (wrong result or sanitizer report, exit code %d)\n", name, WEXITSTATUS(status));
    demoFailed = 1;
  }
  else
  {
    printf("FAIL: %s (killed by signal %d)\n", name, WTERMSIG(status));
    demoFailed = 1;
  }
}

#define EXPECT(c) do { if(!(c)) { printf("      expectation violated: %s (line %d)\n", #c, __LINE__); return 1; } } while(0)
