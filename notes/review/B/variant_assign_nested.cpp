// [C07]/[C09] Variant::operator=(const String& / const List& / const Array& /
// const HashMap&) with an argument that lives inside the Variant's own payload:
// clear() releases the payload (and the argument with it) before the argument
// is copied.  (The Variant-from-Variant overload was repaired, these were not.)
#include "demo.h"
#include <nstd/Variant.hpp>
#include <nstd/Document/Xml.hpp>

static void churn()
{ // reuse freed blocks so that stale reads become visible without a sanitizer
  char* junk[32];
  for(int i = 0; i < 32; ++i) { junk[i] = new char[16 + i * 8]; memset(junk[i], 'Z', 16 + i * 8); }
  for(int i = 0; i < 32; ++i) delete[] junk[i];
}

// list variant replaced by the string held by its first element
static int listFromOwnString()
{
  Variant v;
  v.toList().append(Variant(String("first element, long enough to live on the heap")));
  v.toList().append(Variant(String("second")));
  v = v.toList().front().toString(); // String& into the payload of v
  churn();
  EXPECT(v.getType() == Variant::stringType);
  EXPECT(((const Variant&)v).toString() == "first element, long enough to live on the heap");
  return 0;
}

// list variant replaced by the map nested in its first element
static int listFromOwnMap()
{
  HashMap<String, Variant> inner;
  inner.append("k", Variant(42));
  Variant v;
  v.toList().append(Variant(inner));
  const Variant& cv = v;
  v = cv.toList().front().toMap(); // const HashMap& into the payload of v
  churn();
  EXPECT(v.getType() == Variant::mapType);
  EXPECT(cv.toMap().size() == 1);
  EXPECT(cv.toMap().find("k") != cv.toMap().end() && cv.toMap().find("k")->toInt() == 42);
  return 0;
}

// unshared map variant (assigned in place) replaced by a map nested in it
static int mapFromNestedMap()
{
  HashMap<String, Variant> inner;
  inner.append("k", Variant(42));
  Variant v;
  v.toMap().append("child", Variant(inner));
  const Variant& cv = v;
  v = cv.toMap().find("child")->toMap();
  churn();
  EXPECT(cv.toMap().size() == 1);
  EXPECT(cv.toMap().find("k") != cv.toMap().end() && cv.toMap().find("k")->toInt() == 42);
  return 0;
}

// array variant replaced by the list nested in its first element
static int arrayFromOwnList()
{
  List<Variant> inner;
  inner.append(Variant(7));
  Variant v;
  v.toArray().append(Variant(inner));
  const Variant& cv = v;
  v = cv.toArray().front().toList();
  churn();
  EXPECT(v.getType() == Variant::listType);
  EXPECT(cv.toList().size() == 1 && cv.toList().front().toInt() == 7);
  return 0;
}

// Xml::Variant holding an element replaced by that element's type name
static int xmlVariantFromOwnString()
{
  Xml::Variant v;
  v.toElement().type = String("element type name, long enough for the heap");
  v = v.toElement().type; // String& into the payload of v
  churn();
  EXPECT(v.isText());
  EXPECT(v.toString() == "element type name, long enough for the heap");
  return 0;
}

// control: the repaired Variant-from-Variant overload
static int listFromOwnElement()
{
  Variant v;
  v.toList().append(Variant(String("first element, long enough to live on the heap")));
  v = v.toList().front();
  churn();
  EXPECT(((const Variant&)v).toString() == "first element, long enough to live on the heap");
  return 0;
}

int main()
{
  runCase("control: v = v.toList().front()                 (Variant overload, repaired)", listFromOwnElement);
  runCase("v = v.toList().front().toString()               (String overload)", listFromOwnString);
  runCase("v = cv.toList().front().toMap()                 (HashMap overload)", listFromOwnMap);
  runCase("v = cv.toMap().find(\"child\")->toMap()           (HashMap overload, in place)", mapFromNestedMap);
  runCase("v = cv.toArray().front().toList()               (List overload)", arrayFromOwnList);
  runCase("xv = xv.toElement().type                        (Xml::Variant String overload)", xmlVariantFromOwnString);
  return demoFailed;
}
