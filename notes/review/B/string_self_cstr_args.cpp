// [C06] "... including when an argument is the String itself": the C-string view of
// the String itself as argument of printf ("%s") or append(const char*, usize).
// Both functions call detach() first, which either truncates the buffer the
// argument points to (unshared, capacity sufficient) or frees it (reallocation).
#include "demo.h"
#include <nstd/String.hpp>

// heap string with small capacity: detach(0, 200) frees the buffer the argument points to
static int printfSelfSmall()
{
  String s;
  s.append("abc");
  s.printf("%s-%s", (const char*)s, "x");
  EXPECT(s == "abc-x");                   // observed: heap-use-after-free
  return 0;
}

// unshared heap string with capacity >= 200: detach(0, 200) truncates it in place
static int printfSelfBig()
{
  String s(300);
  s.append("abc");
  s.printf("%s-%s", (const char*)s, "x");
  EXPECT(s == "abc-x");                   // observed: "-x"
  return 0;
}

static int appendOwnData()
{
  String s;
  s.append("abcdefgh");
  s.append((const char*)s + 1, 6);        // detach() reallocates and frees the source
  EXPECT(s == "abcdefghbcdefg");          // observed: heap-use-after-free
  return 0;
}

// controls: the String overloads and prepend cope with the string itself
static int control()
{
  String s;
  s.append("abcdefgh");
  s.append(s);
  EXPECT(s == "abcdefghabcdefgh");
  String t;
  t.append("abcdefgh");
  t.prepend((const char*)t + 1, 6);
  EXPECT(t == "bcdefgabcdefgh");
  String u;
  u.append("abc");
  u.prepend(u);
  EXPECT(u == "abcabc");
  return 0;
}

int main()
{
  runCase("control: s.append(s), s.prepend((const char*)s + 1, 6), s.prepend(s)", control);
  runCase("s.printf(\"%s-%s\", (const char*)s, \"x\"), small heap string", printfSelfSmall);
  runCase("s.printf(\"%s-%s\", (const char*)s, \"x\"), capacity 300", printfSelfBig);
  runCase("s.append((const char*)s + 1, 6)", appendOwnData);
  return demoFailed;
}
