// [C06] The empty string as needle (a NUL-free "small byte string"):
//  - String::replace(needle, replacement) never returns: strstr() finds the empty
//    needle at p, p advances by needle.length() == 0, and the loop appends the
//    replacement for ever (until memory is exhausted);
//  - String::findLast(const char*) never returns either: strstr(match + 1, "") is never
//    null, so the scan walks past the terminator and out of the string's storage.
#include "demo.h"
#include <nstd/String.hpp>

static int replaceEmptyNeedle()
{
  alarm(3); // the call below would otherwise run until memory is exhausted
  String s("abc");
  s.replace(String(), String("x"));
  // any terminating result would do; the usual choices are "unchanged" or "xaxbxcx"
  EXPECT(s == "abc" || s == "xaxbxcx");
  return 0;
}

static int replaceEmptyNeedleInEmptyString()
{
  alarm(3);
  String s;
  s.replace("", "x");
  EXPECT(s == "" || s == "x");
  return 0;
}

static int findLastEmptyNeedle()
{
  alarm(3);
  String s("abc");
  const char* p = s.findLast("");
  EXPECT(p == (const char*)s + 3); // a reference byte string finds "" last at length()
  return 0;
}

static int control()
{
  String s("abcabc");
  EXPECT(s.find("") == (const char*)s);            // find() copes with the empty needle
  EXPECT(s.findLast("bc") == (const char*)s + 4);
  s.replace("b", "xy");
  EXPECT(s == "axycaxyc");
  return 0;
}

int main()
{
  runCase("control: find(\"\"), findLast(\"bc\"), replace(\"b\", \"xy\")", control);
  runCase("\"abc\".replace(\"\", \"x\") terminates", replaceEmptyNeedle);
  runCase("\"\".replace(\"\", \"x\") terminates", replaceEmptyNeedleInEmptyString);
  runCase("\"abc\".findLast(\"\") terminates inside the string", findLastEmptyNeedle);
  return demoFailed;
}
