// Reproduced, but minor or arguable observations (not ranked as findings).
#include "demo.h"
#include <nstd/String.hpp>
#include <nstd/Buffer.hpp>
#include <nstd/Variant.hpp>

// [C06] find(char, start) uses strchr and so "finds" the NUL terminator; find(char) does not.
static int findNulChar()
{
  String s("abc");
  EXPECT(s.find('\0') == 0);            // holds
  EXPECT(s.find('\0', (usize)0) == 0);  // observed: pointer to the terminator
  return 0;
}

// [C06] find(str, start) refuses start == length() although the empty needle occurs there;
// find("") at start 0 of an empty string and find("") in general do report it.
static int findEmptyAtEnd()
{
  String s("abc");
  EXPECT(s.find("") == (const char*)s);
  EXPECT(s.find("", (usize)3) == (const char*)s + 3); // observed: null
  return 0;
}

// [C08] Buffer self-assignment with a front offset copies overlapping ranges with memcpy
// (undefined behaviour; correct bytes with glibc, reported by AddressSanitizer).
static int bufferSelfAssignOffset()
{
  Buffer b((const byte*)"0123456789", 10);
  b.removeFront(2);
  b = b;
  EXPECT(b.size() == 8 && memcmp((const byte*)b, "23456789", 8) == 0);
  return 0;
}

// [C07]/[C09] A reference obtained from a mutable accessor stays writable after the
// Variant has been copied; writing through it then changes the copy too (the shared
// payload is modified in place while another handle refers to it).
static int staleAccessorReference()
{
  Variant v;
  List<Variant>& list = v.toList();
  list.append(Variant(1));
  Variant copy = v;         // shares the payload
  list.append(Variant(2));  // written through the reference obtained before the copy
  EXPECT(((const Variant&)copy).toList().size() == 1); // observed: 2
  return 0;
}

int main()
{
  runCase("String::find('\\0', 0) does not find a byte that is not part of the string", findNulChar);
  runCase("String::find(\"\", length()) finds the empty needle at the end", findEmptyAtEnd);
  runCase("Buffer: b.removeFront(2); b = b (clean under AddressSanitizer)", bufferSelfAssignOffset);
  runCase("Variant: reference from toList() used after the Variant was copied", staleAccessorReference);
  return demoFailed;
}
