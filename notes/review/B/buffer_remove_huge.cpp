// [C08] Buffer::removeFront / removeBack clamp a size larger than the content
// ("remove everything"), but compute bufferStart + size first; for sizes near the
// maximum the pointer wraps around, the clamp is skipped and the buffer then
// exposes bytes in front of its allocation.
#include "demo.h"
#include <nstd/Buffer.hpp>

static int control()
{
  Buffer b((const byte*)"abcdef", 6);
  b.removeFront(100);
  EXPECT(b.size() == 0 && *(const byte*)b == 0);
  Buffer c((const byte*)"abcdef", 6);
  c.removeBack(100);
  EXPECT(c.size() == 0 && *(const byte*)c == 0);
  return 0;
}

static int removeFrontMax()
{
  Buffer b((const byte*)"abcdef", 6);
  b.removeFront((usize)-1);      // reference queue: empty
  EXPECT(b.size() == 0);         // observed: 7
  return 0;
}

static int removeFrontMaxThenRead()
{
  Buffer b((const byte*)"abcdef", 6);
  b.removeFront((usize)-1);
  Buffer copy(b);                // reads size() bytes starting one byte before the allocation
  EXPECT(copy.size() == 0);
  return 0;
}

static int removeBackMax()
{
  Buffer b((const byte*)"abcdef", 6);
  b.removeBack((usize)-1);       // reference queue: empty
  EXPECT(b.size() == 0);         // observed: bufferEnd moved one byte past the end, size 7
  return 0;
}

int main()
{
  runCase("control: removeFront(100) / removeBack(100) of 6 bytes empty the buffer", control);
  runCase("removeFront((usize)-1) empties the buffer", removeFrontMax);
  runCase("removeFront((usize)-1), then copy stays inside the allocation", removeFrontMaxThenRead);
  runCase("removeBack((usize)-1) empties the buffer", removeBackMax);
  return demoFailed;
}
