// [C06] A String built from a buffer is a byte string with an explicit length and may
// contain NUL bytes (append, ==, find(char), substr, startsWith ... all honour the
// length).  The in-place mappers and compare() walk to the first NUL instead of
// length() and so disagree with a reference byte string.
#include "demo.h"
#include <nstd/String.hpp>

static bool same(const String& s, const char* bytes, usize len)
{
  return s.length() == len && memcmp((const char*)s, bytes, len) == 0;
}

static int control()
{
  String s("ab\0ab", 5);
  EXPECT(s.length() == 5);
  EXPECT(s.find('b') == (const char*)s + 1 && s.findLast('b') == (const char*)s + 4);
  EXPECT(s == String("ab\0ab", 5) && s != String("ab\0ac", 5));
  String t = s;
  t.append(s);
  EXPECT(same(t, "ab\0abab\0ab", 10));
  return 0;
}

static int replaceChar()
{
  String s("ab\0ab", 5);
  s.replace('a', 'x');
  EXPECT(same(s, "xb\0xb", 5)); // observed: "xb\0ab"
  return 0;
}

static int upper()
{
  String s("ab\0ab", 5);
  s.toUpperCase();
  EXPECT(same(s, "AB\0AB", 5)); // observed: "AB\0ab"
  return 0;
}

static int lower()
{
  String s("AB\0AB", 5);
  s.toLowerCase();
  EXPECT(same(s, "ab\0ab", 5)); // observed: "ab\0AB"
  return 0;
}

static int compareOrder()
{
  String a("ab\0a", 4), b("ab\0b", 4);
  EXPECT(a != b);             // holds
  EXPECT(a.compare(b) < 0);   // observed: 0, i.e. !(a < b) && !(b < a) && a != b
  EXPECT(a < b);
  return 0;
}

static int trimKeepsNul()
{
  String s("\0ab ", 4);
  s.trim(" ");                // NUL is not in the set of characters to trim
  EXPECT(same(s, "\0ab", 3)); // observed: "ab"
  return 0;
}

int main()
{
  runCase("control: length / find(char) / == / append honour embedded NUL", control);
  runCase("replace(char, char) maps bytes behind a NUL", replaceChar);
  runCase("toUpperCase maps bytes behind a NUL", upper);
  runCase("toLowerCase maps bytes behind a NUL", lower);
  runCase("compare / operator< order strings that differ behind a NUL", compareOrder);
  runCase("trim does not remove a NUL byte it was not asked to remove", trimKeepsNul);
  return demoFailed;
}
