// [C08] Buffer::prepend(const Buffer&) with the buffer itself as argument, when the
// data must be shifted inside the existing allocation: the shift overwrites the
// source bytes before they are copied to the front.
#include "demo.h"
#include <nstd/Buffer.hpp>

static bool holds(const Buffer& b, const char* bytes)
{
  usize len = strlen(bytes);
  return b.size() == len && memcmp((const byte*)b, bytes, len) == 0 && ((const byte*)b)[len] == 0;
}

// front gap (1) smaller than the size (3), capacity sufficient -> in-place shift
static int shiftInPlace()
{
  Buffer b(16);
  b.append((const byte*)"Xabc", 4);
  b.removeFront(1);            // data "abc" at offset 1
  b.prepend(b);
  EXPECT(holds(b, "abcabc"));  // observed: "abaabc"
  return 0;
}

static int shiftInPlaceLonger()
{
  Buffer b(64);
  b.append((const byte*)"..0123456789", 12);
  b.removeFront(2);
  b.prepend(b);
  EXPECT(holds(b, "01234567890123456789"));
  return 0;
}

// controls: the two other branches handle the same call correctly
static int enoughGap()
{
  Buffer b(16);
  b.append((const byte*)"XXXXabc", 7);
  b.removeFront(4);
  b.prepend(b);
  EXPECT(holds(b, "abcabc"));
  return 0;
}

static int reallocate()
{
  Buffer b((const byte*)"abc", 3);
  b.prepend(b);
  EXPECT(holds(b, "abcabc"));
  return 0;
}

static int appendSelf()
{
  Buffer b((const byte*)"abc", 3);
  b.append(b);
  EXPECT(holds(b, "abcabc"));
  return 0;
}

int main()
{
  runCase("control: b.append(b)", appendSelf);
  runCase("control: b.prepend(b), front gap >= size", enoughGap);
  runCase("control: b.prepend(b), reallocation", reallocate);
  runCase("b.prepend(b), 0 < front gap < size, capacity sufficient", shiftInPlace);
  runCase("b.prepend(b), same with 10 bytes", shiftInPlaceLonger);
  return demoFailed;
}
