// C20: "A process started through Process receives exactly ... the environment it was given".
// Process::open(executable, const List<String>& args, streams, environment) forwards to
// open(executable, argc, argv, streams) and drops its `environment` parameter, so the child
// inherits the parent's environment instead of the one that was passed.
#include <stdio.h>
#include <string.h>
#include <nstd/Process.hpp>
#include <nstd/List.hpp>

static String readAll(Process& p)
{
  String out; char buf[256]; ssize n;
  while((n = p.read(buf, sizeof(buf))) > 0) out.append(buf, n);
  return out;
}

int main()
{
  int fails = 0;
  Map<String, String> env;
  env.insert("RV_TEST_VAR", "42");
  env.insert("PATH", "/usr/bin:/bin");

  // reference: the argc/argv overload passes the environment on
  {
    Process p;
    char* argv[] = {(char*)"sh", (char*)"-c", (char*)"echo var=[$RV_TEST_VAR]"};
    if(!p.open("sh", 3, argv, Process::stdoutStream, env)) { printf("open failed\n"); return 2; }
    String out = readAll(p); uint32 code; p.join(code);
    printf("argv overload: %s", (const char*)out);
    if(out != "var=[42]\n") ++fails;
  }
  // the List overload
  {
    Process p;
    List<String> args;
    args.append("sh"); args.append("-c"); args.append("echo var=[$RV_TEST_VAR]");
    if(!p.open("sh", args, Process::stdoutStream, env)) { printf("open failed\n"); return 2; }
    String out = readAll(p); uint32 code; p.join(code);
    printf("List overload: %s", (const char*)out);
    if(out != "var=[42]\n") ++fails;
  }
  if(fails) { printf("FAIL\n"); return 1; }
  printf("OK\n");
  return 0;
}
