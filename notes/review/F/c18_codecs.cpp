// C18 check: Unicode round trip (exhaustive), bounds of decoders on exact-size heap
// buffers (run with ASan), integer conversions, fromHex, fromBase64.
#include <stdio.h>
#include <string.h>
#include <stdlib.h>
#include <limits.h>
#include <nstd/Unicode.hpp>
#include <nstd/String.hpp>

static int fails = 0;
#define CHECK(c, ...) do { if(!(c)) { if(fails < 20) { printf("FAIL: " __VA_ARGS__); printf("\n"); } ++fails; } } while(0)

static usize refUtf8(uint32 ch, unsigned char* out)
{
  if(ch < 0x80) { out[0] = ch; return 1; }
  if(ch < 0x800) { out[0] = 0xC0 | (ch >> 6); out[1] = 0x80 | (ch & 0x3F); return 2; }
  if(ch < 0x10000) { out[0] = 0xE0 | (ch >> 12); out[1] = 0x80 | ((ch >> 6) & 0x3F); out[2] = 0x80 | (ch & 0x3F); return 3; }
  out[0] = 0xF0 | (ch >> 18); out[1] = 0x80 | ((ch >> 12) & 0x3F); out[2] = 0x80 | ((ch >> 6) & 0x3F); out[3] = 0x80 | (ch & 0x3F); return 4;
}

static const char b64[] = "ABCDEFGHIJKLMNOPQRSTUVWXYZabcdefghijklmnopqrstuvwxyz0123456789+/";
static usize refB64(const unsigned char* in, usize n, char* out)
{
  usize o = 0;
  for(usize i = 0; i < n; i += 3)
  {
    unsigned v = in[i] << 16; if(i + 1 < n) v |= in[i + 1] << 8; if(i + 2 < n) v |= in[i + 2];
    out[o++] = b64[v >> 18]; out[o++] = b64[(v >> 12) & 63];
    out[o++] = i + 1 < n ? b64[(v >> 6) & 63] : '=';
    out[o++] = i + 2 < n ? b64[v & 63] : '=';
  }
  return o;
}

int main()
{
  // Unicode: exhaustive
  for(uint32 ch = 0; ch < 0x110000; ++ch)
  {
    unsigned char ref[4]; usize n = refUtf8(ch, ref);
    String s = Unicode::toString(ch);
    CHECK(s.length() == n && memcmp((const char*)s, ref, n) == 0, "toString U+%X", ch);
    // decode from an exact-size heap buffer
    char* p = (char*)malloc(n); memcpy(p, ref, n);
    CHECK(Unicode::fromString(p, n) == ch, "fromString U+%X", ch);
    CHECK(Unicode::length(p[0]) == n, "length U+%X", ch);
    CHECK(Unicode::isValid(p, n), "isValid U+%X", ch);
    for(usize k = 0; k < n; ++k) // truncated: must not read beyond k bytes
    {
      char* q = (char*)malloc(k ? k : 1); memcpy(q, ref, k);
      Unicode::fromString(q, k);
      if(k) CHECK(n == 1 || !Unicode::isValid(q, k), "isValid truncated U+%X", ch);
      free(q);
    }
    free(p);
    CHECK(Unicode::fromString(s) == ch, "fromString(String) U+%X", ch);
  }
  CHECK(Unicode::toString(0x110000).isEmpty(), "toString 0x110000");
  CHECK(Unicode::toString(0xFFFFFFFF).isEmpty(), "toString 0xffffffff");
  {
    uint32 arr[5] = {0x41, 0xE9, 0x20AC, 0x1F600, 0};
    String s = Unicode::toString(arr, 5);
    CHECK(s.length() == 1 + 2 + 3 + 4 + 1, "toString array");
  }
  // all byte strings up to length 3 over interesting bytes, exact-size buffers
  {
    static const unsigned char bytes[] = {0x00, 0x41, 0x7f, 0x80, 0xbf, 0xc0, 0xc2, 0xdf, 0xe0, 0xef, 0xf0, 0xf4, 0xf7, 0xf8, 0xff};
    const int nb = sizeof(bytes);
    for(int len = 0; len <= 4; ++len)
    {
      int total = 1; for(int i = 0; i < len; ++i) total *= nb;
      for(int c = 0; c < total; ++c)
      {
        char* p = (char*)malloc(len ? len : 1);
        int x = c; for(int i = 0; i < len; ++i) { p[i] = bytes[x % nb]; x /= nb; }
        Unicode::isValid(p, len);
        Unicode::fromString(p, len);
        free(p);
      }
    }
  }
  // integers
  {
    CHECK(String::fromInt(INT_MIN) == "-2147483648" && String::fromInt(INT_MIN).toInt() == INT_MIN, "INT_MIN");
    CHECK(String::fromInt(INT_MAX).toInt() == INT_MAX, "INT_MAX");
    CHECK(String::fromUInt(UINT_MAX) == "4294967295" && String::fromUInt(UINT_MAX).toUInt() == UINT_MAX, "UINT_MAX");
    CHECK(String::fromInt64(LLONG_MIN) == "-9223372036854775808" && String::fromInt64(LLONG_MIN).toInt64() == LLONG_MIN, "LLONG_MIN");
    CHECK(String::fromInt64(LLONG_MAX).toInt64() == LLONG_MAX, "LLONG_MAX");
    CHECK(String::fromUInt64(ULLONG_MAX) == "18446744073709551615" && String::fromUInt64(ULLONG_MAX).toUInt64() == ULLONG_MAX, "ULLONG_MAX");
    srand(7);
    for(int i = 0; i < 200000; ++i)
    {
      uint64 v = ((uint64)rand() << 62) ^ ((uint64)rand() << 31) ^ rand();
      v >>= rand() % 64;
      char buf[32];
      sprintf(buf, "%llu", (unsigned long long)v);
      CHECK(String::fromUInt64(v).toUInt64() == v && String::compare((const char*)String::fromUInt64(v), buf) == 0, "u64 %llu", (unsigned long long)v);
      CHECK(String::toUInt64(buf) == v, "static u64");
      int64 sv = (int64)v; sprintf(buf, "%lld", (long long)sv);
      CHECK(String::fromInt64(sv).toInt64() == sv && String::compare((const char*)String::fromInt64(sv), buf) == 0, "i64 %lld", (long long)sv);
      CHECK(String::fromInt((int)v).toInt() == (int)v, "int %d", (int)v);
      CHECK(String::fromUInt((uint)v).toUInt() == (uint)v, "uint %u", (uint)v);
      // attached, non-terminated source
      String a; sprintf(buf, "%lldX9", (long long)sv); a.attach(buf, strlen(buf) - 2);
      CHECK(a.toInt64() == sv, "attached i64 %lld", (long long)sv);
    }
  }
  // fromHex
  for(usize n = 0; n <= 70; ++n)
  {
    byte* p = (byte*)malloc(n ? n : 1);
    char ref[200];
    for(usize i = 0; i < n; ++i) { p[i] = (byte)(i * 37 + n * 11 + (i == 3 ? 255 : 0)); sprintf(ref + 2 * i, "%02X", p[i]); }
    ref[2 * n] = 0;
    String h = String::fromHex(p, n);
    CHECK(h.length() == 2 * n && strcmp((const char*)h, ref) == 0, "fromHex n=%zu", (size_t)n);
    free(p);
  }
  {
    byte all[256]; for(int i = 0; i < 256; ++i) all[i] = i;
    String h = String::fromHex(all, 256);
    for(int i = 0; i < 256; ++i) { char r[3]; sprintf(r, "%02X", i); CHECK(((const char*)h)[2 * i] == r[0] && ((const char*)h)[2 * i + 1] == r[1], "fromHex byte %d", i); }
  }
  // fromBase64: all inputs of length 0..3 over all byte values (sampled for 3), longer random
  {
    unsigned char in[64]; char enc[128];
    for(int a = 0; a < 256; ++a)
    {
      in[0] = a; usize e = refB64(in, 1, enc);
      String src; char* heap = (char*)malloc(e); memcpy(heap, enc, e); src.attach(heap, e);
      String s = String::fromBase64(String(heap, e));
      CHECK(s.length() == 1 && (unsigned char)((const char*)s)[0] == a, "b64 1 byte %d", a);
      free(heap);
      for(int b = 0; b < 256; ++b)
      {
        in[1] = b; e = refB64(in, 2, enc);
        String s2 = String::fromBase64(String(enc, e));
        CHECK(s2.length() == 2 && memcmp((const char*)s2, in, 2) == 0, "b64 2 bytes %d %d", a, b);
        for(int c = 0; c < 256; c += 5)
        {
          in[2] = c; e = refB64(in, 3, enc);
          String s3 = String::fromBase64(String(enc, e));
          CHECK(s3.length() == 3 && memcmp((const char*)s3, in, 3) == 0, "b64 3 bytes %d %d %d", a, b, c);
        }
      }
    }
    CHECK(String::fromBase64(String()).isEmpty(), "b64 empty");
    srand(99);
    for(int i = 0; i < 20000; ++i)
    {
      usize n = rand() % 64;
      for(usize k = 0; k < n; ++k) in[k] = rand();
      usize e = refB64(in, n, enc);
      String s = String::fromBase64(String(enc, e));
      CHECK(s.length() == n && memcmp((const char*)s, in, n) == 0, "b64 random n=%zu", (size_t)n);
    }
    // arbitrary byte strings: exhaustive for len<=2 (all bytes), len 4/8 over a small alphabet incl. '=' and high bytes
    static const unsigned char alpha[] = {'A', 'z', '/', '+', '=', '0', 0, 0x7b, 0x80, 0xff, ' ', '-'};
    const int na = sizeof(alpha);
    for(int len = 0; len <= 8; ++len)
    {
      long total = 1; for(int i = 0; i < len; ++i) total *= na;
      long step = total > 3000000 ? total / 3000000 : 1;
      for(long c = 0; c < total; c += step)
      {
        char* p = (char*)malloc(len ? len : 1);
        long x = c; for(int i = 0; i < len; ++i) { p[i] = alpha[x % na]; x /= na; }
        String s = String::fromBase64(String(p, len));
        CHECK(s.length() <= (usize)len, "b64 len bound");
        free(p);
      }
    }
  }
  if(fails) { printf("FAIL (%d)\n", fails); return 1; }
  printf("OK\n");
  return 0;
}
