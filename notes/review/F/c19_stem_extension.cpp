// C19: "directory name plus base name (and stem plus extension) recompose the path".
// File::getStem(file) cuts the base name at its FIRST dot (the backwards scan keeps overwriting
// `dot`), File::getExtension(file) returns what follows the LAST dot. For a name with more than
// one dot the middle part is lost, and getStem(file) disagrees with getStem(file, getExtension(file)).
#include <stdio.h>
#include <nstd/File.hpp>

static int check(const char* path)
{
  String p = String::fromCString(path);
  String base = File::getBaseName(p);
  String stem = File::getStem(p);
  String ext = File::getExtension(p);
  String recomposed = ext.isEmpty() ? stem : stem + "." + ext;
  String stem2 = File::getStem(p, ext);
  bool ok = recomposed == base && stem == stem2;
  printf("%-28s base='%s' stem='%s' ext='%s' stem+'.'+ext='%s' getStem(file, ext)='%s' %s\n", path,
    (const char*)base, (const char*)stem, (const char*)ext, (const char*)recomposed, (const char*)stem2, ok ? "ok" : "MISMATCH");
  return ok ? 0 : 1;
}

int main()
{
  int fails = 0;
  fails += check("/home/u/test.blah");
  fails += check("/home/u/archive.tar.gz");
  fails += check("lib/libfoo.so.1");
  fails += check("v1.2/notes.2024.txt");
  if(fails) { printf("FAIL\n"); return 1; }
  printf("OK\n");
  return 0;
}
