// C17 check: Sha256/hmac against OpenSSL for all lengths/chunkings/key lengths.
#include <stdio.h>
#include <string.h>
#include <stdlib.h>
#include <openssl/sha.h>
#include <openssl/hmac.h>
#include <openssl/evp.h>
#include <nstd/Crypto/Sha256.hpp>

static unsigned char msg[70000];

int main()
{
  srand(12345);
  for(size_t i = 0; i < sizeof(msg); ++i) msg[i] = (unsigned char)rand();
  int fails = 0;
  // all lengths 0..300, all 2-way chunkings; 3-way for len <= 140
  for(size_t len = 0; len <= 300 && !fails; ++len)
  {
    unsigned char ref[32]; SHA256(msg, len, ref);
    byte out[32];
    Sha256::hash(msg, len, out);
    if(memcmp(ref, out, 32)) { printf("FAIL hash len=%zu\n", len); ++fails; }
    Sha256 h; // reused hasher
    for(size_t a = 0; a <= len; ++a)
    {
      h.update(msg, a); h.update(msg + a, len - a); h.finalize(out);
      if(memcmp(ref, out, 32)) { printf("FAIL 2-chunk len=%zu a=%zu\n", len, a); ++fails; break; }
      if(len <= 140)
        for(size_t b = a; b <= len; ++b)
        {
          h.update(msg, a); h.update(msg + a, b - a); h.update(msg + b, len - b); h.finalize(out);
          if(memcmp(ref, out, 32)) { printf("FAIL 3-chunk len=%zu a=%zu b=%zu\n", len, a, b); ++fails; break; }
        }
    }
    // reset in the middle
    h.update(msg, len / 2 + 1); h.reset(); h.update(msg, len); h.finalize(out);
    if(memcmp(ref, out, 32)) { printf("FAIL reset len=%zu\n", len); ++fails; }
  }
  // larger sampled
  for(int k = 0; k < 300 && !fails; ++k)
  {
    size_t len = rand() % sizeof(msg);
    unsigned char ref[32]; SHA256(msg, len, ref);
    byte out[32];
    size_t a = rand() % (len + 1), b = a + rand() % (len - a + 1);
    Sha256 h; h.update(msg, a); h.update(msg + a, b - a); h.update(msg + b, len - b); h.finalize(out);
    if(memcmp(ref, out, 32)) { printf("FAIL big len=%zu\n", len); ++fails; }
  }
  // hmac: key lengths 0..200, message lengths sample
  for(size_t kl = 0; kl <= 200 && !fails; ++kl)
    for(size_t ml = 0; ml <= 200; ml += (ml < 70 ? 1 : 13))
    {
      unsigned char ref[32]; unsigned int rl = 32;
      HMAC(EVP_sha256(), msg + 1000, (int)kl, msg, ml, ref, &rl);
      byte out[32];
      Sha256::hmac(msg + 1000, kl, msg, ml, out);
      if(memcmp(ref, out, 32)) { printf("FAIL hmac kl=%zu ml=%zu\n", kl, ml); ++fails; break; }
    }
  // RFC 4231 test case 1
  {
    byte key[20]; memset(key, 0x0b, 20);
    byte out[32]; Sha256::hmac(key, 20, (const byte*)"Hi There", 8, out);
    static const unsigned char exp[32] = {0xb0,0x34,0x4c,0x61,0xd8,0xdb,0x38,0x53,0x5c,0xa8,0xaf,0xce,0xaf,0x0b,0xf1,0x2b,0x88,0x1d,0xc2,0x00,0xc9,0x83,0x3d,0xa7,0x26,0xe9,0x37,0x6c,0x2e,0x32,0xcf,0xf7};
    if(memcmp(exp, out, 32)) { printf("FAIL rfc4231 #1\n"); ++fails; }
  }
  if(fails) { printf("FAIL\n"); return 1; }
  printf("OK\n");
  return 0;
}
