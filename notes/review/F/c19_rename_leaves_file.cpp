// C19: "failed operations report failure without leaving new files behind".
// File::rename(from, to, failIfExists = true) creates `to` as a placeholder with O_CREAT|O_EXCL
// before calling ::rename(); when ::rename() fails the placeholder is not removed.
#include <stdio.h>
#include <stdlib.h>
#include <nstd/File.hpp>
#include <nstd/Directory.hpp>

int main()
{
  String dir("/tmp/rv_F_rename_demo");
  Directory::unlink(dir, true);
  if(!Directory::create(dir)) { printf("setup failed\n"); return 2; }
  int fails = 0;

  // 1. source does not exist
  String from = dir + "/does-not-exist", to = dir + "/target";
  bool r = File::rename(from, to); // failIfExists defaults to true
  printf("rename(nonexistent, target) = %d, target exists afterwards = %d\n", (int)r, (int)File::exists(to));
  if(r || File::exists(to)) ++fails;

  // 1b. a second attempt, now with an existing source, fails because of the left-over placeholder
  {
    File f; f.open(dir + "/src", File::writeFlag); f.write(String("data")); f.close();
    bool r2 = File::rename(dir + "/src", to);
    printf("rename(src, target) after the failed attempt = %d (expected 1)\n", (int)r2);
    if(!r2) ++fails;
  }

  // 2. source is a directory that cannot replace a file (rename(2) fails with ENOTDIR)
  Directory::create(dir + "/subdir");
  String to2 = dir + "/target2";
  r = File::rename(dir + "/subdir", to2);
  printf("rename(subdir, target2) = %d, target2 exists afterwards = %d\n", (int)r, (int)File::exists(to2));
  if(!r && File::exists(to2)) ++fails;

  Directory::unlink(dir, true);
  if(fails) { printf("FAIL\n"); return 1; }
  printf("OK\n");
  return 0;
}
