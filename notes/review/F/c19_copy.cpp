// C19: File::copy
//  (a) copy(x, x, false) - source and destination are the same file: the destination is opened
//      with O_TRUNC before anything is read, so the file content is destroyed (and false is returned).
//  (b) a copy that fails after the destination was created leaves the new destination file behind
//      (source is a directory: open() succeeds, sendfile() fails).
#include <stdio.h>
#include <stdlib.h>
#include <nstd/File.hpp>
#include <nstd/Directory.hpp>

int main()
{
  String dir("/tmp/rv_F_copy_demo");
  Directory::unlink(dir, true);
  if(!Directory::create(dir)) { printf("setup failed\n"); return 2; }
  int fails = 0;

  // sanity: a normal copy returns the bytes written
  {
    File f; f.open(dir + "/a", File::writeFlag); f.write(String("hello world")); f.close();
    bool r = File::copy(dir + "/a", dir + "/b");
    String data; File::readAll(dir + "/b", data);
    if(!r || data != "hello world") { printf("plain copy broken\n"); ++fails; }
  }

  // (a) self copy
  {
    bool r = File::copy(dir + "/a", dir + "/a", false);
    String data; File::readAll(dir + "/a", data);
    printf("copy(a, a, false) = %d, content of a afterwards = \"%s\" (was \"hello world\")\n", (int)r, (const char*)data);
    if(data != "hello world") ++fails;
  }

  // (b) failed copy leaves the destination behind
  {
    Directory::create(dir + "/subdir");
    bool r = File::copy(dir + "/subdir", dir + "/c");
    printf("copy(subdir, c) = %d, c exists afterwards = %d\n", (int)r, (int)File::exists(dir + "/c"));
    if(!r && File::exists(dir + "/c")) ++fails;
  }

  Directory::unlink(dir, true);
  if(fails) { printf("FAIL\n"); return 1; }
  printf("OK\n");
  return 0;
}
