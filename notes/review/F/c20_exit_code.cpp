// C20: "join() returns its exit code ... for all exit codes".
// On POSIX Process::exit(uint32 exitCode) is implemented as `_exit(0)`: the requested code is
// discarded, so a child that ends through Process::exit(n) is always joined with exit code 0.
// (Second observation: Process::setEnvironmentVariable(name, "") returns the result of unsetenv()
//  converted to bool, i.e. false on success.)
//
// The program starts itself as child: "--exit N" calls Process::exit(N), "--return N" returns N from main.
#include <stdio.h>
#include <string.h>
#include <stdlib.h>
#include <nstd/Process.hpp>

int main(int argc, char** argv)
{
  if(argc == 3 && strcmp(argv[1], "--exit") == 0) { Process::exit((uint32)atoi(argv[2])); return 111; }
  if(argc == 3 && strcmp(argv[1], "--return") == 0) return atoi(argv[2]);

  String self = Process::getExecutablePath();
  int fails = 0;
  static const int codes[] = {0, 1, 2, 42, 127, 255};
  for(unsigned i = 0; i < sizeof(codes) / sizeof(*codes); ++i)
  {
    uint32 viaReturn = 999, viaExit = 999;
    { Process p; p.start(self + " --return " + String::fromInt(codes[i])); p.join(viaReturn); }
    { Process p; p.start(self + " --exit " + String::fromInt(codes[i])); p.join(viaExit); }
    printf("code %3d: return from main -> join %u, Process::exit -> join %u\n", codes[i], viaReturn, viaExit);
    if(viaReturn != (uint32)codes[i] || viaExit != (uint32)codes[i]) ++fails;
  }
  {
    Process::setEnvironmentVariable("RV_F_VAR", "1");
    bool r = Process::setEnvironmentVariable("RV_F_VAR", "");
    printf("setEnvironmentVariable(name, \"\") = %d, variable still set = %d\n", (int)r, getenv("RV_F_VAR") != 0);
    if(!r) ++fails;
  }
  if(fails) { printf("FAIL\n"); return 1; }
  printf("OK\n");
  return 0;
}
