// C20: "everything it writes to redirected output streams can be read up to end-of-file, and bytes
// written to its redirected input arrive intact" - for all stream redirection combinations.
// Process::open() creates its pipes with pipe() (no O_CLOEXEC) and the child only closes the pipe
// ends of its OWN Process object. Every Process that is opened later therefore inherits the
// parent's ends of all earlier Process objects, in particular the write end of their stdin pipe.
// Closing a.stdin in the parent then does not produce end-of-file in child a as long as child b
// lives, and reading a's output "up to end-of-file" blocks (for ever if b in turn waits for us).
#include <stdio.h>
#include <stdlib.h>
#include <string.h>
#include <signal.h>
#include <unistd.h>
#include <nstd/Process.hpp>

static pid_t pidA = 0, pidB = 0;

static void onAlarm(int)
{
  const char* msg = "no end-of-file on a's stdout 5 s after a's stdin was closed (child b holds a copy of the write end of a's stdin pipe)\nFAIL\n";
  if(write(1, msg, strlen(msg))) {}
  // kill the children so that nothing is left behind
  if(pidA) kill(pidA, SIGKILL);
  if(pidB) kill(pidB, SIGKILL);
  _exit(1);
}

int main()
{
  setvbuf(stdout, 0, _IONBF, 0);
  Process a, b;
  if(!a.open("cat", Process::stdinStream | Process::stdoutStream)) { printf("open a failed\n"); return 2; }
  if(!b.open("cat", Process::stdinStream | Process::stdoutStream)) { printf("open b failed\n"); return 2; }

  pidA = a.getProcessId(); pidB = b.getProcessId();

  // show the leaked descriptors of b (Linux): b should own only 0, 1, 2
  {
    char cmd[128];
    snprintf(cmd, sizeof(cmd), "ls -l /proc/%u/fd | grep pipe | sed 's/.* \\([0-9]* -> pipe.*\\)/  child b fd \\1/'", b.getProcessId());
    if(system(cmd)) {}
  }

  if(a.write("hello", 5) != 5) { printf("write failed\n"); return 2; }
  a.close(Process::stdinStream); // end of input for a: cat must copy "hello" and exit

  signal(SIGALRM, onAlarm);
  alarm(5);
  String out; char buf[64]; ssize n;
  while((n = a.read(buf, sizeof(buf))) > 0)
  {
    out.append(buf, n);
    printf("read %d bytes from a: \"%s\"\n", (int)n, (const char*)out);
  }
  alarm(0);
  printf("end-of-file from a\n");
  uint32 code = 99;
  a.join(code);
  b.close(Process::stdinStream);
  b.join();
  if(out != "hello" || code != 0) { printf("FAIL\n"); return 1; }
  printf("OK\n");
  return 0;
}
