// C20: "receives exactly ... the argument vector (after the documented quoting rules of the
// command-line form)" - command lines of words separated by single spaces with double-quoted
// segments and \" inside them.
// splitCommandLine() only appends the last word `if(!arg.isEmpty())`, so an empty quoted word ("")
// is passed on everywhere except at the end of the command line, where it is silently dropped.
//
// The program starts itself as child (argv[1] == "--dump") which prints its argv.
#include <stdio.h>
#include <string.h>
#include <stdlib.h>
#include <nstd/Process.hpp>
#include <nstd/List.hpp>

static String run(const String& commandLine)
{
  Process p;
  if(!p.open(commandLine, Process::stdoutStream)) return String("<open failed>");
  String out; char buf[256]; ssize n;
  while((n = p.read(buf, sizeof(buf))) > 0) out.append(buf, n);
  p.join();
  return out;
}

int main(int argc, char** argv)
{
  if(argc >= 2 && strcmp(argv[1], "--dump") == 0)
  {
    for(int i = 2; i < argc; ++i) printf("[%s]", argv[i]);
    return 0;
  }
  String self = Process::getExecutablePath();
  int fails = 0;
  struct Word { const char* text; const char* value; };
  static const Word words[] = {
    {"a", "a"}, {"\"b c\"", "b c"}, {"\"\"", ""}, {"\"x\\\"y\"", "x\"y"}, {"p\"q r\"s", "pq rs"}, {"\"\\\"\"", "\""}, {"-o", "-o"},
  };
  const int nw = sizeof(words) / sizeof(*words);
  int shown = 0;
  for(int len = 1; len <= 3; ++len)
  {
    int total = 1; for(int i = 0; i < len; ++i) total *= nw;
    for(int c = 0; c < total; ++c)
    {
      String cmd = self + " --dump", expected;
      int x = c;
      for(int i = 0; i < len; ++i, x /= nw)
      {
        cmd.append(' '); cmd.append(String::fromCString(words[x % nw].text));
        expected.append('['); expected.append(String::fromCString(words[x % nw].value)); expected.append(']');
      }
      String got = run(cmd);
      if(got != expected)
      {
        ++fails;
        if(shown++ < 12)
          printf("command line: <exe> --dump%s\n   child saw: %s\n   expected:  %s\n", (const char*)cmd + self.length() + 7, (const char*)got, (const char*)expected);
      }
    }
  }
  if(fails) { printf("%d command lines delivered a wrong argument vector\nFAIL\n", fails); return 1; }
  printf("OK\n");
  return 0;
}
