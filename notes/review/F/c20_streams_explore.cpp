// C20 exploration (no defect found here): stream combinations, payload sizes around the pipe capacity, exit codes, argv, env.
#include <stdio.h>
#include <string.h>
#include <stdlib.h>
#include <nstd/Process.hpp>

static int fails = 0;
#define CHECK(c, ...) do { if(!(c)) { printf("FAIL: " __VA_ARGS__); printf("\n"); ++fails; } } while(0)

int main(int argc, char** argv)
{
  if(argc >= 2 && strcmp(argv[1], "--dump") == 0)
  {
    for(int i = 0; i < argc; ++i) printf("[%s]", argv[i]);
    printf("{%s}{%s}", getenv("RV_A") ? getenv("RV_A") : "<unset>", getenv("HOME") ? "home" : "<nohome>");
    return 0;
  }
  String self = Process::getExecutablePath();
  // stdin -> wc -c, sizes around 64 KiB
  static const usize sizes[] = {0, 1, 4095, 4096, 4097, 65535, 65536, 65537, 1000000};
  for(unsigned i = 0; i < sizeof(sizes) / sizeof(*sizes); ++i)
  {
    usize n = sizes[i];
    char* data = (char*)malloc(n + 1); for(usize k = 0; k < n; ++k) data[k] = (char)(k * 7 + 1);
    Process p;
    CHECK(p.open("wc -c", Process::stdinStream | Process::stdoutStream), "open wc");
    CHECK(p.write(data, n) == (ssize)n, "write %zu", (size_t)n);
    p.close(Process::stdinStream);
    String out; char buf[100]; ssize r;
    while((r = p.read(buf, sizeof(buf))) > 0) out.append(buf, r);
    uint32 code = 9; CHECK(p.join(code) && code == 0, "join wc");
    CHECK((usize)out.toUInt64() == n, "wc -c %zu got '%s'", (size_t)n, (const char*)out);
    free(data);
  }
  // stdout payload sizes and stderr at the same time
  for(unsigned i = 0; i < sizeof(sizes) / sizeof(*sizes); ++i)
  {
    usize n = sizes[i];
    Process p;
    String cmd = String("sh -c \"head -c ") + String::fromUInt64(n) + " /dev/zero; echo err >&2; exit 7\"";
    CHECK(p.open(cmd, Process::stdoutStream | Process::stderrStream), "open head");
    usize got = 0, gotErr = 0; char buf[5000];
    uint open = Process::stdoutStream | Process::stderrStream;
    while(open)
    {
      uint s = open;
      ssize r = p.read(buf, sizeof(buf), s);
      if(r < 0) { CHECK(false, "read error"); break; }
      if(r == 0) { open &= ~s; continue; }
      if(s == Process::stdoutStream) got += r; else gotErr += r;
    }
    uint32 code = 9; CHECK(p.join(code) && code == 7, "join head code %u", code);
    CHECK(got == n && gotErr == 4, "stdout %zu/%zu stderr %zu", (size_t)got, (size_t)n, (size_t)gotErr);
  }
  // exit codes
  for(int c = 0; c < 256; c += 17)
  {
    Process p; uint32 code = 999;
    CHECK(p.start(String("sh -c \"exit ") + String::fromInt(c) + "\"") != 0, "start");
    CHECK(p.join(code) && code == (uint32)c, "exit code %d got %u", c, code);
  }
  // argv + env exactness
  {
    Map<String, String> env; env.insert("RV_A", "x y=z");
    char* av[] = {(char*)"ignored", (char*)"--dump", (char*)"", (char*)"a b", (char*)"\"q\"", (char*)"-x", (char*)"$HOME", (char*)"\\"};
    Process p;
    CHECK(p.open(self, 8, av, Process::stdoutStream, env), "open self");
    String out; char buf[300]; ssize r;
    while((r = p.read(buf, sizeof(buf))) > 0) out.append(buf, r);
    p.join();
    String want = String("[") + self + "][--dump][][a b][\"q\"][-x][$HOME][\\]{x y=z}{<nohome>}";
    CHECK(out == want, "argv/env: got %s", (const char*)out);
  }
  if(fails) { printf("FAIL (%d)\n", fails); return 1; }
  printf("OK\n");
  return 0;
}
