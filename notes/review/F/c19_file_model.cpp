// C19 exploration (no defect found here): random File histories against an in-memory model.
#include <stdio.h>
#include <string.h>
#include <stdlib.h>
#include <nstd/File.hpp>
#include <nstd/Directory.hpp>

static int fails = 0;
#define CHECK(c, ...) do { if(!(c)) { if(fails < 20) { printf("FAIL: " __VA_ARGS__); printf("\n"); } ++fails; } } while(0)

struct Model { char data[4096]; usize len; bool exists; };

int main()
{
  String dir("/tmp/rv_F_file_model");
  Directory::unlink(dir, true);
  Directory::create(dir);
  String names[3] = {dir + "/f0", dir + "/f1", dir + "/f2"};
  srand(4242);
  for(int round = 0; round < 300; ++round)
  {
    Model m[3]; memset(m, 0, sizeof(m));
    for(int i = 0; i < 3; ++i) File::unlink(names[i]);
    for(int step = 0; step < 40; ++step)
    {
      int f = rand() % 3, g = rand() % 3;
      switch(rand() % 7)
      {
      case 0: // write (truncate) some bytes
      case 1: // append
      case 2: // read/write open, seek, write
        {
          int mode = rand() % 3;
          uint flags = mode == 0 ? File::writeFlag : mode == 1 ? (File::writeFlag | File::appendFlag) : (File::readFlag | File::writeFlag);
          File file;
          CHECK(file.open(names[f], flags), "open");
          usize pos = 0;
          if(mode == 0) m[f].len = 0;
          if(mode == 1) pos = m[f].len;
          m[f].exists = true;
          for(int k = rand() % 3; k >= 0; --k)
          {
            if(rand() % 2)
            {
              usize np = rand() % (m[f].len + 3);
              CHECK(file.seek(np) == (int64)np, "seek");
              pos = np;
            }
            char buf[64]; usize n = rand() % 64;
            for(usize j = 0; j < n; ++j) buf[j] = (char)rand();
            CHECK(file.write(buf, n) == (ssize)n, "write");
            if(n)
            {
              if(pos > m[f].len) memset(m[f].data + m[f].len, 0, pos - m[f].len);
              memcpy(m[f].data + pos, buf, n); pos += n;
              if(pos > m[f].len) m[f].len = pos;
            }
            CHECK(file.size() == (int64)m[f].len, "size %lld vs %zu", (long long)file.size(), (size_t)m[f].len);
          }
          if(mode == 2)
          {
            usize np = rand() % (m[f].len + 1);
            file.seek(np);
            String all; CHECK(file.readAll(all), "readAll");
            CHECK(all.length() == m[f].len - np && memcmp((const char*)all, m[f].data + np, all.length()) == 0, "readAll content");
          }
        }
        break;
      case 3: // readAll(path)
        {
          String all; bool r = File::readAll(names[f], all);
          CHECK(r == m[f].exists, "readAll exists");
          if(r) CHECK(all.length() == m[f].len && memcmp((const char*)all, m[f].data, m[f].len) == 0, "readAll path content");
        }
        break;
      case 4: // copy
        if(f != g)
        {
          bool fie = rand() % 2;
          bool r = File::copy(names[f], names[g], fie);
          bool want = m[f].exists && !(fie && m[g].exists);
          CHECK(r == want, "copy result %d want %d", r, want);
          if(r) m[g] = m[f];
          CHECK(File::exists(names[g]) == m[g].exists, "copy left file behind");
        }
        break;
      case 5: // rename
        if(f != g && m[f].exists)
        {
          bool fie = rand() % 2;
          bool r = File::rename(names[f], names[g], fie);
          bool want = !(fie && m[g].exists);
          CHECK(r == want, "rename result");
          if(r) { m[g] = m[f]; m[f].exists = false; m[f].len = 0; }
        }
        break;
      case 6: // unlink
        {
          bool r = File::unlink(names[f]);
          CHECK(r == m[f].exists, "unlink");
          m[f].exists = false; m[f].len = 0;
        }
        break;
      }
      for(int i = 0; i < 3; ++i) CHECK(File::exists(names[i]) == m[i].exists, "exists f%d round %d step %d", i, round, step);
    }
  }
  Directory::unlink(dir, true);
  if(fails) { printf("FAIL (%d)\n", fails); return 1; }
  printf("OK\n");
  return 0;
}
