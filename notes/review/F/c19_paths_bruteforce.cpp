// C19 exploration: brute force the path functions over a small alphabet.
#include <stdio.h>
#include <string.h>
#include <stdlib.h>
#include <nstd/File.hpp>

// canonical form: "A" or "R" + list of components, ".." only leading for relative paths
static void canon(const char* p, char* out)
{
  const char* comps[64]; int lens[64]; int n = 0;
  bool abs = *p == '/';
  for(const char* s = p; *s;)
  {
    while(*s == '/') ++s;
    const char* e = s; while(*e && *e != '/') ++e;
    if(e == s) break;
    int len = e - s;
    if(len == 1 && *s == '.') {}
    else if(len == 2 && s[0] == '.' && s[1] == '.')
    {
      if(n > 0 && !(lens[n - 1] == 2 && comps[n - 1][0] == '.' && comps[n - 1][1] == '.')) --n;
      else if(!abs) { comps[n] = s; lens[n++] = len; }
    }
    else { comps[n] = s; lens[n++] = len; }
    s = e;
  }
  char* o = out; *o++ = abs ? 'A' : 'R';
  for(int i = 0; i < n; ++i) { *o++ = '/'; memcpy(o, comps[i], lens[i]); o += lens[i]; }
  *o = 0;
}

static int shown = 0;
static int fails = 0;
#define REPORT(...) do { ++fails; if(shown < 60) { ++shown; printf(__VA_ARGS__); } } while(0)

int main(int argc, char** argv)
{
  static const char alpha[] = {'/', '.', 'a', 'b'};
  const int na = 4;
  static char paths[6000][8]; int np = 0;
  for(int len = 0; len <= 6; ++len)
  {
    int total = 1; for(int i = 0; i < len; ++i) total *= na;
    for(int c = 0; c < total; ++c)
    {
      int x = c; for(int i = 0; i < len; ++i) { paths[np][i] = alpha[x % na]; x /= na; }
      paths[np][len] = 0; ++np;
    }
  }
  printf("%d paths\n", np);
  for(int i = 0; i < np; ++i)
  {
    const char* p = paths[i];
    String P = String::fromCString(p);
    String s = File::simplifyPath(P);
    String s2 = File::simplifyPath(s);
    if(s != s2) REPORT("simplify not idempotent: '%s' -> '%s' -> '%s'\n", p, (const char*)s, (const char*)s2);
    char c1[64], c2[64]; canon(p, c1); canon(s, c2);
    if(strcmp(c1, c2)) REPORT("simplify not equivalent: '%s' -> '%s'\n", p, (const char*)s);
    // dirname + basename
    String d = File::getDirectoryName(P), b = File::getBaseName(P);
    String re = d + "/" + b;
    canon(re, c2);
    // compare without normalising '..' : only '.' prefix and slashes may differ
    {
      String lhs = P, rhs = re;
      if(d == "." && !P.find('/')) rhs = b;
      if(lhs != rhs) REPORT("dir+base: '%s' -> '%s' + '%s'\n", p, (const char*)d, (const char*)b);
    }
    // stem + extension == basename
    String st = File::getStem(P), ex = File::getExtension(P);
    String reb = ex.isEmpty() ? st : st + "." + ex;
    if(reb != b && !(b.endsWith(".") && st + "." == b))
      REPORT("stem+ext: '%s' base '%s' -> stem '%s' ext '%s'\n", p, (const char*)b, (const char*)st, (const char*)ex);
  }
  printf("--- getRelativePath\n");
  // from/to over shorter paths
  int nq = 0; while(nq < np && strlen(paths[nq]) <= 4) ++nq;
  for(int i = 0; i < nq; ++i)
    for(int j = 0; j < nq; ++j)
    {
      const char* f = paths[i], * t = paths[j];
      if((*f == '/') != (*t == '/')) continue; // mixed absolute / relative: undetermined
      char cf[64], ct[64]; canon(f, cf); canon(t, ct);
      // undetermined when from climbs above the point where to branches off
      {
        // strip common prefix of components
        const char* a = cf + 1, * b = ct + 1;
        while(*a && *b)
        {
          const char* ea = strchr(a + 1, '/'); if(!ea) ea = a + strlen(a);
          const char* eb = strchr(b + 1, '/'); if(!eb) eb = b + strlen(b);
          if(ea - a != eb - b || memcmp(a, b, ea - a)) break;
          a = ea; b = eb;
        }
        if(strstr(a, "..")) continue;
      }
      String rel = File::getRelativePath(String::fromCString(f), String::fromCString(t));
      String joined = String::fromCString(f) + "/" + rel;
      if(*f == 0) joined = rel; // from is the current directory
      char cj[64]; canon(joined, cj);
      if(File::isAbsolutePath(rel) && *f != '/') { canon(rel, cj); }
      if(strcmp(cj, ct)) REPORT("relative: from '%s' to '%s' -> '%s' (joined '%s' = %s, want %s)\n", f, t, (const char*)rel, (const char*)joined, cj, ct);
    }
  if(fails) { printf("FAIL (%d)\n", fails); return 1; }
  printf("OK\n");
  return 0;
}
