// C20: Process::Arguments against glibc getopt_long ("-:ab:c::", in-order mode) over all argument
// vectors of up to 3 tokens from a small token set. Every argument string is copied into an
// exact-size heap block so that ASan would flag reads outside the argument strings.
#include <stdio.h>
#include <string.h>
#include <stdlib.h>
#include <getopt.h>
#include <nstd/Process.hpp>

static const char* tokens[] = {"-a", "-b", "-c", "-ab", "-ba", "-bval", "-cval", "-ac", "-ca", "--alpha", "--beta", "--beta=v", "--beta=", "--gamma", "--gamma=v",
  "--", "-", "x", "", "--zzz", "--zzz=1", "-z", "-az", "--alpha=v", "-a=", "--alph", "--=", "-b--"};
static const int nt = sizeof(tokens) / sizeof(*tokens);

static char* dupExact(const char* s) { size_t n = strlen(s) + 1; char* p = (char*)malloc(n); memcpy(p, s, n); return p; }

int main()
{
  static const Process::Option options[] = {
    {'a', "alpha", Process::optionFlag},
    {'b', "beta", Process::argumentFlag},
    {'c', "gamma", Process::argumentFlag | Process::optionalFlag},
  };
  static const struct option longopts[] = {
    {"alpha", no_argument, 0, 'a'},
    {"beta", required_argument, 0, 'b'},
    {"gamma", optional_argument, 0, 'c'},
    {0, 0, 0, 0}
  };
  int fails = 0, shown = 0, total = 0;
  int classOptionalShort = 0, classNoArgValue = 0, classAbbrev = 0, classOther = 0;
  for(int len = 0; len <= 3; ++len)
  {
    int count = 1; for(int i = 0; i < len; ++i) count *= nt;
    for(int c = 0; c < count; ++c)
    {
      char* argv1[8]; char* argv2[8]; int x = c; bool hasOptShort = false, hasNoArgVal = false, hasAbbrev = false;
      argv1[0] = dupExact("prog"); argv2[0] = dupExact("prog");
      for(int i = 0; i < len; ++i, x /= nt)
      {
        const char* t = tokens[x % nt];
        argv1[i + 1] = dupExact(t); argv2[i + 1] = dupExact(t);
        if(!strcmp(t, "-cval") || !strcmp(t, "-ca") || !strcmp(t, "-ac")) hasOptShort = true;
        if(!strcmp(t, "--alpha=v")) hasNoArgVal = true;
        if(!strcmp(t, "--alph")) hasAbbrev = true;
      }
      argv1[len + 1] = 0; argv2[len + 1] = 0;
      ++total;

      char got[512] = "", want[512] = "";
      {
        Process::Arguments arguments(len + 1, argv1, options);
        int ch; String arg; int guard = 0;
        while(arguments.read(ch, arg) && ++guard < 50)
        {
          char item[128];
          if(ch == '?' || ch == ':') snprintf(item, sizeof(item), "(%c)", ch); // error texts are not compared
          else if(ch == 0) snprintf(item, sizeof(item), "(arg '%s')", (const char*)arg);
          else snprintf(item, sizeof(item), "(%c '%s')", ch, (const char*)arg);
          strcat(got, item);
        }
      }
      {
        optind = 0; opterr = 0;
        int ch;
        while((ch = getopt_long(len + 1, argv2, "-:ab:c::", longopts, 0)) != -1)
        {
          char item[128];
          if(ch == '?' || ch == ':') snprintf(item, sizeof(item), "(%c)", ch);
          else if(ch == 1) snprintf(item, sizeof(item), "(arg '%s')", optarg);
          else snprintf(item, sizeof(item), "(%c '%s')", ch, optarg ? optarg : "");
          strcat(want, item);
        }
        for(int i = optind; i < len + 1; ++i) { char item[128]; snprintf(item, sizeof(item), "(arg '%s')", argv2[i]); strcat(want, item); }
      }
      if(strcmp(got, want))
      {
        ++fails;
        if(hasOptShort) ++classOptionalShort; else if(hasNoArgVal) ++classNoArgValue; else if(hasAbbrev) ++classAbbrev; else ++classOther;
        bool show = hasOptShort ? classOptionalShort <= 4 : hasNoArgVal ? classNoArgValue <= 4 : hasAbbrev ? classAbbrev <= 2 : classOther <= 20;
        if(show)
        {
          printf("argv:");
          for(int i = 1; i <= len; ++i) printf(" '%s'", argv2[i]);
          printf("\n   Arguments: %s\n   getopt:    %s\n", got, want);
        }
      }
      for(int i = 0; i <= len; ++i) { free(argv1[i]); free(argv2[i]); }
    }
  }
  printf("%d of %d vectors differ: %d involve an attached value of a short option with optional argument, %d a value given to a long option without argument, %d an abbreviated long option, %d other\n",
    fails, total, classOptionalShort, classNoArgValue, classAbbrev, classOther);
  if(fails) { printf("FAIL\n"); return 1; }
  printf("OK\n");
  return 0;
}
