// C19: Directory::create "makes all missing parents and returns true exactly when the directory
// exists afterwards"; recursive unlink removes exactly the tree, without following symlinks.
//
// Directory::create(dir) first asks for File::getDirectoryName(dir). For a directory directly
// below the root ("/x") and for the root itself ("/") that is the empty string "", which does not
// "exist", so create("") is tried, fails, and create() returns false WITHOUT ever calling mkdir(dir).
//
// Usage: c19_directory            - checks create("/") and a tree with symlinks below /tmp/rv_F_dir_demo
//        c19_directory --chroot D - (as root) chroot()s into the empty directory D and checks create("/x")
#include <stdio.h>
#include <stdlib.h>
#include <string.h>
#include <unistd.h>
#include <sys/stat.h>
#include <nstd/File.hpp>
#include <nstd/Directory.hpp>

int main(int argc, char** argv)
{
  int fails = 0;
  if(argc == 3 && strcmp(argv[1], "--chroot") == 0)
  {
    if(chroot(argv[2]) != 0 || chdir("/") != 0) { perror("chroot"); return 2; }
    bool r = Directory::create("/x/y");
    struct stat st;
    bool exists = stat("/x/y", &st) == 0 && S_ISDIR(st.st_mode);
    printf("[in chroot] Directory::create(\"/x/y\") = %d, exists afterwards = %d\n", (int)r, (int)exists);
    if(!r || !exists) ++fails;
    r = Directory::create("/z");
    exists = stat("/z", &st) == 0 && S_ISDIR(st.st_mode);
    printf("[in chroot] Directory::create(\"/z\") = %d, exists afterwards = %d\n", (int)r, (int)exists);
    if(!r || !exists) ++fails;
    bool viaMkdir = mkdir("/z", 0755) == 0; // the OS itself has no objection
    printf("[in chroot] plain mkdir(\"/z\") = %d\n", (int)viaMkdir);
    rmdir("/z"); rmdir("/x/y"); rmdir("/x");
    if(fails) { printf("FAIL\n"); return 1; }
    printf("OK\n");
    return 0;
  }

  // the root directory exists, so create("/") must report true
  bool r = Directory::create("/");
  printf("Directory::create(\"/\") = %d, Directory::exists(\"/\") = %d\n", (int)r, (int)Directory::exists("/"));
  if(r != Directory::exists("/")) ++fails;

  // recursive unlink with symlinks pointing outside
  String base("/tmp/rv_F_dir_demo");
  Directory::unlink(base, true);
  bool ok = Directory::create(base + "/outside/keepdir") && Directory::create(base + "/tree/a/b/c") && Directory::create(base + "/tree/e");
  { File f; ok = ok && f.open(base + "/outside/keep.txt", File::writeFlag) && f.write(String("keep")); }
  { File f; ok = ok && f.open(base + "/outside/keepdir/keep2.txt", File::writeFlag) && f.write(String("keep")); }
  { File f; ok = ok && f.open(base + "/tree/a/b/c/file", File::writeFlag) && f.write(String("x")); }
  { File f; ok = ok && f.open(base + "/tree/a/file2", File::writeFlag) && f.write(String("x")); }
  ok = ok && File::createSymbolicLink(base + "/outside/keepdir", base + "/tree/a/linkdir");
  ok = ok && File::createSymbolicLink(base + "/outside/keep.txt", base + "/tree/a/b/linkfile");
  ok = ok && File::createSymbolicLink("../../outside", base + "/tree/e/rel");
  ok = ok && File::createSymbolicLink("/nonexistent/dangling", base + "/tree/dangling");
  if(!ok) { printf("setup failed\n"); return 2; }
  r = Directory::unlink(base + "/tree", true);
  printf("unlink(tree, recursive) = %d, tree exists = %d, outside files kept = %d %d\n", (int)r, (int)File::exists(base + "/tree"),
    (int)File::exists(base + "/outside/keep.txt"), (int)File::exists(base + "/outside/keepdir/keep2.txt"));
  if(!r || File::exists(base + "/tree") || !File::exists(base + "/outside/keep.txt") || !File::exists(base + "/outside/keepdir/keep2.txt")) ++fails;
  Directory::unlink(base, true);

  if(fails) { printf("FAIL\n"); return 1; }
  printf("OK\n");
  return 0;
}
