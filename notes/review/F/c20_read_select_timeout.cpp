// C20: "everything it writes to redirected output streams can be read up to end-of-file".
// Process::read(buffer, length, streams) (POSIX branch) builds its fd_set and its timeval
// {1000 s, 0} ONCE, in front of the retry loop:
//
//     timeval tv = {1000, 0};
//     for(;;) { int i = select(maxFd + 1, &fdr, 0, 0, &tv); if(i == 0) continue; ... }
//
// When select() times out it returns 0 with ALL descriptors cleared from fdr (and, on Linux, tv
// counted down to 0). The `continue` then calls select() with an empty set and a zero timeout,
// which returns 0 immediately - for ever. A child that stays silent for 1000 seconds therefore
// turns read() into an endless busy loop that never delivers the output written afterwards.
//
// To show this without waiting 1000 s, this demo interposes select() with a pass-through wrapper
// that only scales the requested timeout by 1/1000 (1000 s -> 1 s) before doing the real system
// call; fd sets and the remaining time are returned exactly as the kernel produced them.
#include <stdio.h>
#include <stdlib.h>
#include <string.h>
#include <signal.h>
#include <unistd.h>
#include <sys/select.h>
#include <time.h>
#include <sys/syscall.h>
#include <nstd/Process.hpp>

static volatile long selectCalls = 0;
static volatile long selectEmptyCalls = 0;

extern "C" int select(int nfds, fd_set* r, fd_set* w, fd_set* e, struct timeval* tv)
{
  ++selectCalls;
  bool any = false;
  if(r) for(int i = 0; i < nfds; ++i) if(FD_ISSET(i, r)) any = true;
  if(!any) ++selectEmptyCalls;
  struct timespec ts, * pts = 0;
  if(tv)
  { // scale: 1000 s -> 1 s
    long long us = ((long long)tv->tv_sec * 1000000LL + tv->tv_usec) / 1000;
    ts.tv_sec = us / 1000000; ts.tv_nsec = (us % 1000000) * 1000; pts = &ts;
  }
  long long startUs = 0; struct timespec t0; clock_gettime(CLOCK_MONOTONIC, &t0); startUs = t0.tv_sec * 1000000LL + t0.tv_nsec / 1000;
  int ret = pselect(nfds, r, w, e, pts, 0);
  if(tv)
  { // Linux select() semantics: write back the time that was not slept
    struct timespec t1; clock_gettime(CLOCK_MONOTONIC, &t1);
    long long spent = (t1.tv_sec * 1000000LL + t1.tv_nsec / 1000) - startUs;
    long long total = (long long)ts.tv_sec * 1000000LL + ts.tv_nsec / 1000;
    long long left = total > spent ? (total - spent) * 1000 : 0;
    tv->tv_sec = left / 1000000; tv->tv_usec = left % 1000000;
  }
  return ret;
}

static void onAlarm(int)
{
  char msg[200];
  int n = snprintf(msg, sizeof(msg), "read() still has not returned 6 s after the child wrote its output; select() was called %ld times, %ld of them with an empty fd_set\nFAIL\n", selectCalls, selectEmptyCalls);
  if(write(1, msg, n)) {}
  _exit(1);
}

int main()
{
  setvbuf(stdout, 0, _IONBF, 0);
  { // control: output arrives before the (scaled) timeout - works
    Process c;
    if(!c.open("sh -c \"sleep 0.3; echo hello\"", Process::stdoutStream | Process::stderrStream)) { printf("open failed\n"); return 2; }
    char buf[64];
    uint streams = Process::stdoutStream | Process::stderrStream;
    ssize n = c.read(buf, sizeof(buf), streams);
    printf("control (child silent for 0.3 \"ks\"): read returned %d bytes after %ld select calls\n", (int)n, selectCalls);
    c.join();
  }
  Process p;
  // silent for "2000 s" (2 s after scaling), then writes a line and exits
  if(!p.open("sh -c \"sleep 2; echo hello\"", Process::stdoutStream | Process::stderrStream)) { printf("open failed\n"); return 2; }
  signal(SIGALRM, onAlarm);
  alarm(8);
  char buf[64];
  uint streams = Process::stdoutStream | Process::stderrStream;
  ssize n = p.read(buf, sizeof(buf), streams);
  alarm(0);
  printf("read returned %d bytes after %ld select calls\n", (int)n, selectCalls);
  if(n != 6 || memcmp(buf, "hello\n", 6) != 0) { printf("FAIL\n"); return 1; }
  printf("OK\n");
  return 0;
}
