// C15/C16: parse() does not reset the result object. Parsing into a Variant that
// already holds a list/map, or into an Element that was parsed before, merges the
// old contents into the result instead of yielding the parsed value.
#include <stdio.h>
#include <nstd/Document/Json.hpp>
#include <nstd/Document/Xml.hpp>

int main()
{
  int failed = 0;

  // JSON: toString -> parse must give an equal tree
  {
    Variant expected;
    expected.toList().append(Variant(1));
    String text = Json::toString(expected); // [ 1 ]
    Variant result;
    for(int i = 0; i < 2; ++i)
    {
      if(!Json::parse(text, result))
        return printf("parse failed\n"), 2;
      printf("json pass %d: %u list elements\n", i + 1, (unsigned)((const Variant&)result).toList().size());
      if(result != expected)
        printf("FAIL: Json::parse result differs from the serialised tree (pass %d)\n", i + 1), failed = 1;
    }
    Variant map;
    map.toMap().append("old", Variant(1));
    if(!Json::parse("{}", map))
      return printf("parse failed\n"), 2;
    if(!((const Variant&)map).toMap().isEmpty())
      printf("FAIL: Json::parse(\"{}\") left %u old entries in the result\n", (unsigned)((const Variant&)map).toMap().size()), failed = 1;
  }

  // XML
  {
    Xml::Element element;
    String expected("<a x=\"1\"><b/>text</a>");
    for(int i = 0; i < 2; ++i)
    {
      if(!Xml::parse(expected, element))
        return printf("parse failed\n"), 2;
      String out = element.toString();
      printf("xml pass %d: %s\n", i + 1, (const char*)out);
      if(out != expected)
        printf("FAIL: Xml::parse result differs from the parsed text (pass %d)\n", i + 1), failed = 1;
    }
    if(!Xml::parse("<c/>", element))
      return printf("parse failed\n"), 2;
    String out = element.toString();
    printf("xml <c/>: %s\n", (const char*)out);
    if(out != "<c/>")
      printf("FAIL: Xml::parse(\"<c/>\") kept attributes/content of the previous document\n"), failed = 1;
  }
  return failed;
}
