// C16: Xml::Parser::parse(const char*, Element&) is declared in Xml.hpp but not defined
// anywhere, so passing a NUL-terminated byte string to the Parser object does not link.
// (build this file: the link step fails with "undefined reference")
#include <stdio.h>
#include <nstd/Document/Xml.hpp>

int main()
{
  Xml::Parser parser;
  Xml::Element element;
  const char* text = "<a/>";
  if(!parser.parse(text, element))
    return printf("FAIL\n"), 1;
  printf("ok\n");
  return 0;
}
