// C16: hexadecimal numeric character references (&#x41;) are not decoded although
// decimal ones (&#65;) are; serialising the element then turns them into "&amp;#x41;".
#include <stdio.h>
#include <nstd/Document/Xml.hpp>

int main()
{
  Xml::Element element;
  if(!Xml::parse("<a v=\"&#65;&#x41;\">&#65;&#x41;&#xe9;</a>", element))
    return printf("parse failed\n"), 2;
  String attr = *element.attributes.find("v");
  String text = element.content.front().toString();
  printf("attribute: %s\ntext: %s\nreserialised: %s\n", (const char*)attr, (const char*)text, (const char*)element.toString());
  if(attr != "AA" || text != "AA\xc3\xa9")
    return printf("FAIL: hexadecimal character references were not decoded\n"), 1;
  printf("ok\n");
  return 0;
}
