// C16: assigning an element from one of its own children (descending a tree with
// "element = element.content.front().toElement()") reads freed memory.
#include <stdio.h>
#include <nstd/Document/Xml.hpp>

int main()
{
  Xml::Element element;
  if(!Xml::parse("<a><b x=\"1\"><c/><d/>text</b></a>", element))
    return printf("parse failed\n"), 2;

  // descend one level: the source of the assignment lives inside element.content
  const Xml::Variant& first = element.content.front();
  element = first.toElement();

  String out = element.toString();
  printf("%s\n", (const char*)out);
  if(out != "<b x=\"1\"><c/><d/>text</b>")
    return printf("FAIL: element does not equal its former child\n"), 1;
  printf("ok\n");
  return 0;
}
