// C15: a line break that directly follows a backslash inside a string literal is not
// counted, so a later error is reported with a line/column pair outside the text.
#include <stdio.h>
#include <nstd/Document/Json.hpp>

int main()
{
  // line 1: ["\            (3 characters)
  // line 2: ",           x]     error at the x: line 2, column 14
  const char* text = "[\"\\\n\",           x]";
  Json::Parser parser;
  Variant result;
  if(parser.parse(text, result))
    return printf("unexpectedly parsed\n"), 2;
  printf("reported: line %d, column %d: %s\n", parser.getErrorLine(), parser.getErrorColumn(), (const char*)parser.getErrorString());
  if(parser.getErrorLine() != 2 || parser.getErrorColumn() != 14)
    return printf("FAIL: expected line 2, column 14 (line 1 has only 3 characters)\n"), 1;
  printf("ok\n");
  return 0;
}
