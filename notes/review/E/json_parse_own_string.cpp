// C15: decoding a JSON text that is stored in the result Variant itself
// (Json::parse(v.toString(), v) on a non-const string Variant) frees the text
// while the tokenizer is still reading it (heap-use-after-free under ASan; without
// ASan the freed text is overwritten by the list nodes for some text lengths).
#include <stdio.h>
#include <nstd/Document/Json.hpp>
#include <nstd/Error.hpp>

int main()
{
  Variant expected;
  expected.toList().append(Variant(String("abc")));
  for(int i = 1; i <= 5; ++i)
    expected.toList().append(Variant(i));

  int failures = 0;
  for(int pad = 0; pad < 400; ++pad)
  {
    Variant v;                               // a string Variant holding JSON text, e.g. an embedded payload field
    usize length;
    {
      String text("[");
      text.append(String(pad, ' '));         // insignificant white space
      text.append("\"abc\", 1, 2, 3, 4, 5]");
      v = text;
      length = text.length();
    }                                        // v is now the only owner of the text
    bool ok = Json::parse(v.toString(), v);  // decode it in place
    if(!ok || v != expected)
    {
      if(!failures)
        printf("FAIL: %u bytes of JSON text stored in the result: %s\n", (unsigned)length, ok ? "decoded value differs" : (const char*)Error::getErrorString());
      ++failures;
    }
  }
  if(failures)
    return printf("FAIL: %d of 400 text lengths decoded wrongly\n", failures), 1;
  printf("ok\n");
  return 0;
}
