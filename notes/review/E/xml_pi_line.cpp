// C16: a line break inside a processing instruction (for example a multi-line XML
// declaration with Unix line ends) is not counted, so the reported error position
// (and Element::line / Element::column) do not lie inside the text.
#include <stdio.h>
#include <nstd/Document/Xml.hpp>

int main()
{
  // line 1: <?xml version="1.0"      (19 characters)
  // line 2: encoding="UTF-8"?>
  // line 3: <a>
  // line 4:   <b></c>                 error at the c: line 4, column 8
  // line 5: </a>
  const char* text = "<?xml version=\"1.0\"\nencoding=\"UTF-8\"?>\n<a>\n  <b></c>\n</a>\n";
  Xml::Parser parser;
  Xml::Element element;
  String input = String::fromCString(text);
  if(parser.parse(input, element))
    return printf("unexpectedly parsed\n"), 2;
  printf("reported: line %d, column %d: %s\n", parser.getErrorLine(), parser.getErrorColumn(), (const char*)parser.getErrorString());
  int failed = 0;
  if(parser.getErrorLine() != 4 || parser.getErrorColumn() != 8)
    printf("FAIL: expected line 4, column 8 (line 3 is only 3 characters long)\n"), failed = 1;

  // the same with a well-formed document: position of the root element
  Xml::Element root;
  if(!Xml::parse("<?xml version=\"1.0\"\n?>\n<root/>", root))
    return printf("parse failed\n"), 2;
  printf("root at line %d, column %d\n", root.line, root.column);
  if(root.line != 3 || root.column != 1)
    printf("FAIL: expected root at line 3, column 1\n"), failed = 1;
  return failed;
}
