// List::sort is a quicksort with the first element as pivot and one recursion level per
// partition: for already sorted (or reverse sorted) input the recursion depth is n (n/2) and
// the running time is quadratic. On a thread with a small stack (128 KiB is the default
// thread stack size of musl libc) sorting a few thousand already sorted elements overflows the stack.
// The sort runs in a child process so that the crash can be reported.
#include <nstd/List.hpp>
#include <stdio.h>
#include <stdlib.h>
#include <pthread.h>
#include <unistd.h>
#include <sys/wait.h>

static int count = 20000;

static void* sortProc(void* param)
{
  List<int>& list = *(List<int>*)param;
  list.sort();
  return 0;
}

static int sortInThread(bool descending)
{
  List<int> list;
  for(int i = 0; i < count; ++i)
    list.append(descending ? count - i : i);
  pthread_attr_t attr;
  pthread_attr_init(&attr);
  pthread_attr_setstacksize(&attr, 128 * 1024);
  pthread_t thread;
  if(pthread_create(&thread, &attr, sortProc, &list) != 0)
    return 2;
  pthread_join(thread, 0);
  int prev = -1;
  for(List<int>::Iterator i = list.begin(); i != list.end(); ++i)
  {
    if(*i < prev)
      return 3;
    prev = *i;
  }
  return 0;
}

int main(int argc, char* argv[])
{
  if(argc > 1)
    count = atoi(argv[1]);
  int result = 0;
  for(int descending = 0; descending < 2; ++descending)
  {
    pid_t pid = fork();
    if(pid == 0)
      _exit(sortInThread(descending != 0));
    int status = 0;
    waitpid(pid, &status, 0);
    if(WIFSIGNALED(status))
    {
      printf("FAIL: sorting %d %s elements on a thread with 128 KiB stack died with signal %d\n", count, descending ? "descending" : "ascending", WTERMSIG(status));
      result = 1;
    }
    else if(WEXITSTATUS(status) != 0)
    {
      printf("FAIL: exit code %d\n", WEXITSTATUS(status));
      result = 1;
    }
    else
      printf("ok: %d %s elements sorted\n", count, descending ? "descending" : "ascending");
  }
  return result;
}
