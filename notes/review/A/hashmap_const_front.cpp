// HashMap<T, V>::front() const / back() const (and the same two functions of PoolMap) are
// declared to return `const T&` (the KEY type) although they return item->value (type V).
//  - if V is not convertible to T (e.g. HashMap<String, int>) they do not compile
//    (build with -DSHOW_COMPILE_ERROR to see it),
//  - if V is convertible to T (e.g. HashMap<int, double>) they return a reference to a
//    converted temporary that is gone when the function returns: the caller gets a dangling
//    (with GCC 12: null) reference instead of a reference to the stored element.
#include <nstd/HashMap.hpp>
#include <nstd/PoolMap.hpp>
#include <stdio.h>
#include <unistd.h>
#include <sys/wait.h>

template <class M> static int check(const char* name, M& map)
{
  const M& cmap = map;
  int result = 0;
  const void* firstElement = &*cmap.begin();
  const void* lastElement = &*--typename M::Iterator(cmap.end());
  const void* constFront = &cmap.front();
  const void* constBack = &cmap.back();
  if((const void*)&map.front() != firstElement || (const void*)&map.back() != lastElement)
  {
    printf("FAIL: %s: non-const front()/back() do not designate the first/last element\n", name);
    result = 1;
  }
  if(constFront != firstElement || constBack != lastElement)
  {
    printf("FAIL: %s: on a const map &front() = %p and &back() = %p, but the first/last elements live at %p and %p\n", name, constFront, constBack, firstElement, lastElement);
    result = 1;
  }
  // read the value through the returned reference in a child process (it may crash)
  pid_t pid = fork();
  if(pid == 0)
  {
    volatile double first = cmap.front();
    volatile double last = cmap.back();
    _exit(first == 2.5 && last == 7.25 ? 0 : 3);
  }
  int status = 0;
  waitpid(pid, &status, 0);
  if(WIFSIGNALED(status))
  {
    printf("FAIL: %s: reading front()/back() of a const map {1: 2.5, 2: 7.25} died with signal %d\n", name, WTERMSIG(status));
    result = 1;
  }
  else if(WEXITSTATUS(status) != 0)
  {
    printf("FAIL: %s: front()/back() of a const map {1: 2.5, 2: 7.25} are not 2.5 and 7.25\n", name);
    result = 1;
  }
  return result;
}

int main()
{
  int result = 0;

  HashMap<int, double> map;
  map.append(1, 2.5);
  map.append(2, 7.25);
  result |= check("HashMap<int, double>", map);

  PoolMap<int, double> pool;
  pool.append(1) = 2.5;
  pool.append(2) = 7.25;
  result |= check("PoolMap<int, double>", pool);

#ifdef SHOW_COMPILE_ERROR
  // "invalid initialization of reference of type 'const char* const&' from expression of type 'Value'"
  struct Value { int v; Value() : v(0) {} };
  const HashMap<const char*, Value> cmap2;
  (void)cmap2.front();
#endif

  if(!result)
    printf("ok\n");
  return result;
}
