// List::sort exchanges the VALUES of the nodes (three element copies per exchange) instead of
// relinking the nodes. An iterator or pointer to an element taken before sort() designates a
// different element afterwards, and every exchange copy-assigns the elements.
#include <nstd/List.hpp>
#include <stdio.h>

static int copies = 0;
struct Element
{
  int id;
  Element(int id = 0) : id(id) {}
  Element(const Element& other) : id(other.id) {++copies;}
  Element& operator=(const Element& other) {id = other.id; ++copies; return *this;}
  bool operator<(const Element& other) const {return id < other.id;}
};

int main()
{
  List<Element> list;
  Element& e30 = list.append(Element(30));
  Element& e10 = list.append(Element(10));
  Element& e20 = list.append(Element(20));
  List<Element>::Iterator it30 = list.begin(); // iterator to the element 30
  copies = 0;
  list.sort();
  int result = 0;
  int order[3], n = 0;
  for(List<Element>::Iterator i = list.begin(); i != list.end() && n < 3; ++i)
    order[n++] = i->id;
  if(n != 3 || order[0] != 10 || order[1] != 20 || order[2] != 30)
  {
    printf("FAIL: not sorted\n");
    result = 1;
  }
  if(e30.id != 30 || e10.id != 10 || e20.id != 20 || it30->id != 30)
  {
    printf("FAIL: after sort() the references to the elements 30, 10, 20 designate %d, %d, %d and the iterator to 30 designates %d\n", e30.id, e10.id, e20.id, it30->id);
    result = 1;
  }
  if(copies != 0)
  {
    printf("FAIL: sort() copied or assigned elements %d times\n", copies);
    result = 1;
  }
  if(!result)
    printf("ok\n");
  return result;
}
