// PoolList<T>: the item stride is sizeof(Item) + sizeof(T); when sizeof(T) is not a
// multiple of the pointer size every second/third/fourth node header (two pointers) of a
// block sits at a misaligned address. Checks the node addresses directly and lets
// UBSan (-fsanitize=undefined) report the misaligned member accesses.
#include <nstd/PoolList.hpp>
#include <stdio.h>

struct Small { int a; Small() : a(0) {} Small(int a) : a(a) {} }; // same shape as TestObject in test/UnitTest/TestPoolList.cpp

int main()
{
  PoolList<Small> list;
  int bad = 0;
  for(int i = 0; i < 8; ++i)
  {
    Small& s = list.append(i);
    // the node header (prev/next pointers) is stored directly in front of the element
    usize header = (usize)&s - 2 * sizeof(void*);
    if(header % sizeof(void*) != 0)
    {
      printf("element %d: node header at %p is not aligned for a pointer\n", i, (void*)header);
      ++bad;
    }
  }
  struct C { char c; C() : c(0) {} };
  PoolList<C> chars;
  for(int i = 0; i < 4; ++i)
  {
    C& c = chars.append();
    usize header = (usize)&c - 2 * sizeof(void*);
    if(header % sizeof(void*) != 0)
      ++bad;
  }
  if(bad)
  {
    printf("FAIL: %d node headers misaligned\n", bad);
    return 1;
  }
  printf("ok\n");
  return 0;
}
