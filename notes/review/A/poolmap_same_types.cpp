// PoolMap<T, V> declares both `void remove(const V& value)` and `void remove(const T& key)`.
// For T == V (PoolMap<int, int>, PoolMap<String, String>, ...) the two declarations collide and
// the class template cannot be instantiated at all. When V is merely convertible from the
// argument (PoolMap<int, long> and a key held in a long variable) overload resolution silently
// picks remove(const V&), which treats the address of the caller's variable as the address of a
// stored element.
// As a compile error cannot be observed from inside the same program, this demo compiles the
// user program below with the compiler given in $CXX (default g++).
#include <nstd/PoolMap.hpp>
#include <stdio.h>
#include <stdlib.h>
#include <unistd.h>
#include <sys/wait.h>

static const char* program =
  "#include <nstd/PoolMap.hpp>\n"
  "int main()\n"
  "{\n"
  "  PoolMap<int, int> map;\n"
  "  map.append(1) = 10;\n"
  "  return map.size() == 1 ? 0 : 1;\n"
  "}\n";

int main()
{
  int result = 0;
  const char* file = "/tmp/rv_A_poolmap_same_types_user.cpp";
  FILE* f = fopen(file, "w");
  if(!f)
    return 2;
  fputs(program, f);
  fclose(f);
  const char* cxx = getenv("CXX");
  char command[1024];
  snprintf(command, sizeof(command), "%s -std=c++11 -fsyntax-only -I/tmp/rv_A/include %s 2>&1 | grep -m 2 error", cxx ? cxx : "g++", file);
  if(system(command) == 0) // grep found an error message
  {
    printf("FAIL: a program that uses PoolMap<int, int> does not compile\n");
    result = 1;
  }

  // second symptom: removal by a key of a type that converts exactly to V
  pid_t pid = fork();
  if(pid == 0)
  {
    PoolMap<int, long> map;
    map.append(1) = 10;
    map.append(2) = 20;
    long key = 2;
    map.remove(key); // meant as "remove the entry with key 2"
    _exit(map.size() == 1 && !map.contains(2) && map.contains(1) ? 0 : 3);
  }
  int status = 0;
  waitpid(pid, &status, 0);
  if(WIFSIGNALED(status) || WEXITSTATUS(status) != 0)
  {
    printf("FAIL: PoolMap<int, long>::remove(key) with the key in a long variable %s\n", WIFSIGNALED(status) ? "crashed" : "did not remove the entry");
    result = 1;
  }
  if(!result)
    printf("ok\n");
  return result;
}
