// PoolList<T>::front() / back() (all four overloads) return `_begin.item->value` /
// `_end.item->prev->value`, but PoolList<T>::Item only has the members prev and next (the
// element is stored behind the item header). Any program that calls them does not compile.
// As a compile error cannot be observed from inside the same program, this demo compiles the
// three-line user program below with the compiler given in $CXX (default g++).
#include <stdio.h>
#include <stdlib.h>

static const char* program =
  "#include <nstd/PoolList.hpp>\n"
  "int main()\n"
  "{\n"
  "  PoolList<int> list;\n"
  "  list.append(1);\n"
  "  list.append(2);\n"
  "  return list.front() == 1 && list.back() == 2 ? 0 : 1;\n"
  "}\n";

int main()
{
  const char* file = "/tmp/rv_A_poollist_front_back_user.cpp";
  FILE* f = fopen(file, "w");
  if(!f)
    return 2;
  fputs(program, f);
  fclose(f);
  const char* cxx = getenv("CXX");
  char command[1024];
  snprintf(command, sizeof(command), "%s -std=c++11 -fsyntax-only -I/tmp/rv_A/include %s 2>&1 | grep -m 4 error", cxx ? cxx : "g++", file);
  int status = system(command);
  if(status == 0) // grep found an error message
  {
    printf("FAIL: a program that calls PoolList<int>::front() and back() does not compile\n");
    return 1;
  }
  printf("ok\n");
  return 0;
}
