// [C10] Future::start() blocks for ever on a full job queue (lost wake-up in FastSignal)
//
// Future<void>::Private::FastSignal (src/Future.cpp:334-351) keeps a `_state` word next to a Signal
// and updates the two in separate, unsynchronised steps:
//     set():   if(testAndSet(_state) == 0) _signal.set();
//     reset(): if(swap(_state, 0) == 1)    _signal.reset();
//     wait():  if(load(_state)) return true; return _signal.wait();
// A reset() that is overtaken by a set() between its two steps leaves _state == 1 with the Signal
// RESET.  From then on every set() is a no-op (it sees _state == 1), so a thread that blocks in
// _signal.wait() is never released again.
//
// Schedule shown here (ThreadPool::run, src/Future.cpp:88-94, queue full = 256 jobs waiting):
//   C1: push fails; _dequeuedSignal.reset(): swap(_state,0) returns 1             | paused before _signal.reset()
//   C2: push fails; reset(): swap returns 0, nothing; push fails; wait(): load(_state)==0  | paused before _signal.wait()
//   W : a worker finishes, pops the next job, _dequeuedSignal.set(): testAndSet 0->1, _signal.set()
//   C1: _signal.reset(); push succeeds (takes the free slot); start() returns
//   C2: _signal.wait(): signal is reset -> blocks
//   all workers: run all jobs, queue becomes EMPTY; every _dequeuedSignal.set() sees _state==1 and does nothing
//   C2: still blocked in start(), although the queue is empty and all workers are idle.
//
// The two pause points are single instructions apart, so the demo pins the threads C1 and C2
// there by interposing pthread_mutex_lock (first lock taken by the marked thread inside start()).
// The library is unchanged; the interposer only plays the scheduler.
//
// build: g++ -std=c++11 -g -I/tmp/rv_C/include future_full_queue_lost_wakeup.cpp \
//            /tmp/rv_C/src/*.cpp /tmp/rv_C/src/*/*.cpp -lpthread -ldl

#include <nstd/Future.hpp>
#include <nstd/System.hpp>

#include <stdio.h>
#include <stdlib.h>
#include <unistd.h>
#include <pthread.h>
#include <dlfcn.h>

static __thread int t_role = 0; // 1 = client C1, 2 = client C2
static volatile int g_armed[3];
static volatile int g_paused[3];
static volatile int g_release[3];
static pthread_mutex_t* volatile g_mutexSeen[3];

typedef int (*mutex_fn)(pthread_mutex_t*);

extern "C" int pthread_mutex_lock(pthread_mutex_t* mutex)
{
  static mutex_fn real = 0;
  if(!real)
    real = (mutex_fn)dlsym(RTLD_NEXT, "pthread_mutex_lock");
  int role = t_role;
  if(role && g_armed[role])
  {
    g_armed[role] = 0;
    g_mutexSeen[role] = mutex;
    __sync_lock_test_and_set(&g_paused[role], 1);
    while(!g_release[role])
      usleep(1000);
  }
  return real(mutex);
}

static volatile int g_started = 0;
static volatile int g_finished = 0;
static volatile int g_permits = 0;

static void job(int)
{
  __sync_fetch_and_add(&g_started, 1);
  for(;;)
  {
    int p = g_permits;
    if(p > 0 && __sync_bool_compare_and_swap(&g_permits, p, p - 1))
      break;
    usleep(500);
  }
  __sync_fetch_and_add(&g_finished, 1);
}

static Future<void>* g_futureC1;
static Future<void>* g_futureC2;
static volatile int g_doneC1 = 0;
static volatile int g_doneC2 = 0;

static void* clientC1(void*)
{
  t_role = 1;
  g_armed[1] = 1;
  g_futureC1->start(&job, 0);
  t_role = 0;
  __sync_lock_test_and_set(&g_doneC1, 1);
  return 0;
}

static void* clientC2(void*)
{
  t_role = 2;
  g_armed[2] = 1;
  g_futureC2->start(&job, 0);
  t_role = 0;
  __sync_lock_test_and_set(&g_doneC2, 1);
  return 0;
}

static bool waitFor(volatile int& var, int value, int ms)
{
  for(int i = 0; i < ms && var < value; ++i)
    usleep(1000);
  return var >= value;
}

static void inconclusive(const char* what)
{
  printf("INCONCLUSIVE: %s\n", what);
  fflush(stdout);
  _exit(2);
}

int main()
{
  int maxThreads = (int)System::getProcessorCount();
  if(maxThreads < 3)
    maxThreads = 3;
  const int queueSize = 0x100;

  Future<void>* futures = new Future<void>[maxThreads + queueSize];
  g_futureC1 = new Future<void>;
  g_futureC2 = new Future<void>;

  // 1. occupy every worker the pool is willing to create
  for(int i = 0; i < maxThreads; ++i)
    futures[i].start(&job, i);
  if(!waitFor(g_started, maxThreads, 10000))
    inconclusive("workers did not start");
  // (each of those pops called _dequeuedSignal.set(): _state == 1, Signal set)

  // 2. fill the queue completely: 256 waiting jobs
  for(int i = 0; i < queueSize; ++i)
    futures[maxThreads + i].start(&job, i);

  // 3. C1: push fails, reset() swaps _state 1 -> 0, is pre-empted before _signal.reset()
  pthread_t t1, t2;
  pthread_create(&t1, 0, &clientC1, 0);
  if(!waitFor(g_paused[1], 1, 10000))
    inconclusive("C1 did not reach Signal::reset");

  // 4. C2: push fails, reset() is a no-op, push fails, wait() sees _state == 0, is pre-empted before _signal.wait()
  pthread_create(&t2, 0, &clientC2, 0);
  if(!waitFor(g_paused[2], 1, 10000))
    inconclusive("C2 did not reach Signal::wait");
  if(g_mutexSeen[1] != g_mutexSeen[2])
    inconclusive("C1 and C2 are not paused on the same Signal");

  // 5. one worker finishes its job, pops the next one and calls _dequeuedSignal.set() (_state 0 -> 1, Signal set)
  g_permits = 1;
  if(!waitFor(g_started, maxThreads + 1, 10000))
    inconclusive("no worker popped the next job");

  // 6. C1 continues: _signal.reset(), push succeeds, start() returns
  g_release[1] = 1;
  if(!waitFor(g_doneC1, 1, 10000))
    inconclusive("C1 did not return from start()");

  // 7. C2 continues: _signal.wait() on a reset signal
  g_release[2] = 1;
  usleep(100 * 1000);

  // 8. let every job run; the queue drains completely
  g_permits = 1000000;
  int total = maxThreads + queueSize + 1; // + C1's job
  if(!waitFor(g_finished, total, 30000))
    inconclusive("jobs did not finish");
  printf("%d jobs finished, queue is empty, all %d workers are idle\n", g_finished, maxThreads);

  // 9. C2's start() has had an empty queue in front of it for two seconds now
  if(!waitFor(g_doneC2, 1, 2000))
  {
    printf("FAIL: Future::start() of client C2 is still blocked in ThreadPool::run() although the queue is empty; "
           "its job was never queued (started jobs: %d), so its join() can never return\n", g_started);
    fflush(stdout);
    _exit(1);
  }

  g_futureC2->join();
  printf("PASS (C2's job ran, %d jobs finished)\n", g_finished);
  fflush(stdout);
  _exit(0);
}
