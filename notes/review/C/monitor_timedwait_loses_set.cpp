// [C11] Monitor::wait(timeout) returns false although set() was issued (and completed) while the
//       waiter was inside wait(); the set() releases nobody and is lost.
//
// src/Monitor.cpp:102-103 (POSIX branch of Monitor::wait(int64)):
//     if(pthread_cond_timedwait(cond, mutex, &ts) != 0)
//       return false;                      // <- does not look at `signaled`
// pthread_cond_timedwait() has to re-acquire the mutex before it can return ETIMEDOUT.  If the
// timeout fires while the mutex is taken (by another user of the monitor, or by set() itself), a
// set() that runs before the waiter gets the mutex back stores signaled = true and signals a
// condition variable nobody waits on any more.  The waiter then reports "timeout" and leaves the
// flag behind; because wait()/wait(timeout) always block first, the next waiter does not get it either.
//
// Schedule (only public API, no interposition):
//   W : lock(); wait(50)            -> releases the mutex, sleeps
//   P : lock()                      (holds the monitor, e.g. to update the guarded data)
//   .. 50 ms: W's timeout fires, W now queues for the mutex inside pthread_cond_timedwait
//   P : unlock(); set()             -> set() takes the mutex before W does: signaled = true, cond_signal (no waiter)
//   W : gets the mutex, pthread_cond_timedwait returns ETIMEDOUT -> wait() returns false
//
// build: g++ -std=c++11 -g -I/tmp/rv_C/include monitor_timedwait_loses_set.cpp \
//            /tmp/rv_C/src/*.cpp /tmp/rv_C/src/*/*.cpp -lpthread -ldl

#include <nstd/Monitor.hpp>
#include <nstd/Thread.hpp>

#include <stdio.h>
#include <stdlib.h>
#include <unistd.h>
#include <time.h>

static Monitor* monitor;
static volatile int waiterInWait = 0;
static volatile long long setDoneAt = 0;
static volatile long long waitReturnedAt = 0;
static volatile int firstWait = -1;
static volatile int secondWait = -1;

static long long now()
{
  struct timespec ts;
  clock_gettime(CLOCK_MONOTONIC, &ts);
  return (long long)ts.tv_sec * 1000000000LL + ts.tv_nsec;
}

static uint waiter(void*)
{
  monitor->lock();
  waiterInWait = 1;
  bool r1 = monitor->wait(50);     // a set() is issued while we are in here
  waitReturnedAt = now();
  firstWait = r1 ? 1 : 0;
  bool r2 = r1 ? false : monitor->wait(300); // nobody calls set() again: shows that the first set() is gone for good
  secondWait = r2 ? 1 : 0;
  monitor->unlock();
  return 0;
}

int main()
{
  for(int attempt = 1; attempt <= 50; ++attempt)
  {
    Monitor m;
    monitor = &m;
    waiterInWait = 0; setDoneAt = 0; waitReturnedAt = 0; firstWait = -1; secondWait = -1;

    Thread thread;
    thread.start(&waiter, 0);
    while(!waiterInWait)
      usleep(100);
    m.lock();                 // succeeds as soon as the waiter is inside wait(50): the waiter "has taken the monitor"
    usleep(120 * 1000);       // the waiter's timeout fires while we hold the monitor
    m.unlock();
    m.set();                  // issued while the waiter is still inside wait(50)
    setDoneAt = now();
    thread.join();

    printf("attempt %d: set() completed %lld us %s wait(50) returned; wait(50) = %s, following wait(300) = %s\n", attempt,
      (setDoneAt < waitReturnedAt ? waitReturnedAt - setDoneAt : setDoneAt - waitReturnedAt) / 1000,
      setDoneAt < waitReturnedAt ? "BEFORE" : "after",
      firstWait ? "true" : "false", secondWait ? "true" : "false");

    if(firstWait == 0 && setDoneAt < waitReturnedAt)
    {
      printf("FAIL: set() was issued and had completed while the waiter was still inside wait(timeout), "
             "but the waiter was not released (wait returned false)%s\n",
             secondWait == 0 ? " and the set() was lost: the next wait() timed out as well (1 set, 0 successful waits)" : "");
      return 1;
    }
  }
  printf("PASS (no set() was lost in 50 attempts)\n");
  return 0;
}
