// [C10] futures started from inside pool workers dead-lock the pool once the job queue is full
//
// ThreadPool::run() (src/Future.cpp:88-94) blocks the caller while the 256-entry queue is full and
// relies on a worker popping a job.  If the callers are the workers themselves (functions that
// were started through a Future and start further futures - they do not wait on any future),
// nobody is left to pop: every worker sits in _dequeuedSignal.wait() for ever, none of the started
// functions can finish, and join() of the outer futures never returns.
//
// build: g++ -std=c++11 -g -I/tmp/rv_C/include future_start_from_workers_deadlock.cpp \
//            /tmp/rv_C/src/*.cpp /tmp/rv_C/src/*/*.cpp -lpthread -ldl

#include <nstd/Future.hpp>
#include <nstd/System.hpp>

#include <stdio.h>
#include <stdlib.h>
#include <unistd.h>

enum { leavesPerProducer = 0x100 };

static Future<void>* leaves;
static volatile int leavesRun = 0;
static volatile int producersDone = 0;

static void leaf(int) { __sync_fetch_and_add(&leavesRun, 1); }

static void producer(int index)
{
  // starts other futures but never waits for one
  for(int i = 0; i < leavesPerProducer; ++i)
    leaves[index * leavesPerProducer + i].start(&leaf, i);
  __sync_fetch_and_add(&producersDone, 1);
}

int main()
{
  int workers = (int)System::getProcessorCount();
  if(workers < 3)
    workers = 3;
  leaves = new Future<void>[workers * leavesPerProducer];
  Future<void>* producers = new Future<void>[workers];

  for(int i = 0; i < workers; ++i)
    producers[i].start(&producer, i);

  int lastLeaves = -1;
  for(int second = 0; second < 60; ++second)
  {
    if(producersDone == workers)
      break;
    if(second >= 3 && leavesRun == lastLeaves)
    {
      printf("producers finished: %d of %d, leaf functions executed: %d of %d - no progress any more\n", producersDone, workers, leavesRun, workers * leavesPerProducer);
      printf("FAIL: all %d pool workers are blocked inside Future::start() on the full job queue; "
             "join() of the %d outer futures can never return although no started function waits on a future\n", workers, workers);
      fflush(stdout);
      _exit(1);
    }
    lastLeaves = leavesRun;
    sleep(1);
  }
  for(int i = 0; i < workers; ++i)
    producers[i].join();
  for(int i = 0; i < workers * leavesPerProducer; ++i)
    leaves[i].join();
  printf("PASS: %d leaf functions executed\n", leavesRun);
  fflush(stdout);
  _exit(0);
}
