// [C12] randomized differential test of Callback against a straightforward model of the property.
// Not a defect demo by itself: it searches for histories (including operations performed by slots
// during an emission, arbitrarily nested) where the library's slot invocations or its final
// bookkeeping differ from the model.  Prints FAIL + the seed on the first difference.
//
// build: g++ -std=c++11 -g -fsanitize=address,undefined -I/tmp/rv_C/include callback_fuzz.cpp \
//            /tmp/rv_C/src/*.cpp /tmp/rv_C/src/*/*.cpp -lpthread -ldl

#define private public
#define protected public
#include <nstd/Callback.hpp>
#undef private
#undef protected

#include <stdio.h>
#include <stdlib.h>
#include <string.h>

enum { NE = 2, NL = 3, NSIG = 2, NSLOT = 2, MAXC = 256, MAXLOG = 4096, MAXINV = 60, MAXOPS = 3 };

struct Op { int type, e, sig, l, slot; }; // 0 connect 1 disconnect 2 emit 3 kill listener 4 kill emitter 5 new listener 6 new emitter

static unsigned int rngState;
static unsigned int rnd() { rngState = rngState * 1664525u + 1013904223u; return rngState >> 8; }

static Op topOps[64]; static int nTopOps;
static Op slotOps[MAXINV][MAXOPS]; static int nSlotOps[MAXINV];

struct LogEntry { int l, slot, arg; };
static LogEntry logs[2][MAXLOG]; static int nLog[2];
static int backend; // 0 model, 1 real
static int invocations, emissions, depth;
static long long statInvocations, statNested, statKillEInEmit, statKillLInEmit, statConnInEmit, statDiscInEmit;

static void exec(const Op& op);

static void onSlot(int l, int slot, int arg)
{
  if(nLog[backend] < MAXLOG) { LogEntry e = {l, slot, arg}; logs[backend][nLog[backend]++] = e; }
  int k = invocations++;
  if(backend) { ++statInvocations; if(depth > 1) ++statNested; }
  if(k < MAXINV)
    for(int i = 0; i < nSlotOps[k]; ++i)
      exec(slotOps[k][i]);
}

// ---------------------------------------------------------------- real
struct MyEmitter : public Callback::Emitter
{
  void sig0(int) { asm volatile("nop"); }
  void sig1(int) { asm volatile("nop; nop"); }
  void fire(int sig, int arg) { if(sig == 0) emit(&MyEmitter::sig0, arg); else emit(&MyEmitter::sig1, arg); }
};
struct MyListener : public Callback::Listener
{
  int id;
  void slot0(int arg) { onSlot(id, 0, arg); }
  void slot1(int arg) { onSlot(id, 1, arg); }
};
static MyEmitter* emitters[NE];
static MyListener* listeners[NL];

// ---------------------------------------------------------------- model
struct Conn { int l, slot; bool alive, pending; };
struct MSig { Conn conns[MAXC]; int n; int active; };
struct MEm { bool alive; int generation; MSig sig[NSIG]; };
static MEm mem[NE];
static bool mlAlive[NL];

static void modelCompact(MSig& s)
{
  int j = 0;
  for(int i = 0; i < s.n; ++i)
    if(s.conns[i].alive) { s.conns[j] = s.conns[i]; s.conns[j].pending = false; ++j; }
  s.n = j;
}

static void modelEmit(int e, int sig, int arg)
{
  int gen = mem[e].generation;
  MSig& s = mem[e].sig[sig];
  ++s.active;
  for(int i = 0; ; ++i)
  {
    if(!mem[e].alive || mem[e].generation != gen) return; // emitter destroyed by a slot
    if(i >= s.n) break;
    if(s.conns[i].alive && !s.conns[i].pending)
      onSlot(s.conns[i].l, s.conns[i].slot, arg);
  }
  if(!mem[e].alive || mem[e].generation != gen) return;
  if(--s.active == 0)
    modelCompact(s);
}

static void exec(const Op& op)
{
  bool eAlive = backend ? emitters[op.e] != 0 : mem[op.e].alive;
  bool lAlive = backend ? listeners[op.l] != 0 : mlAlive[op.l];
  switch(op.type)
  {
  case 0: // connect
    if(!eAlive || !lAlive) return;
    if(backend && depth) ++statConnInEmit;
    if(backend)
    {
      if(op.sig == 0 && op.slot == 0) Callback::connect(emitters[op.e], &MyEmitter::sig0, listeners[op.l], &MyListener::slot0);
      if(op.sig == 0 && op.slot == 1) Callback::connect(emitters[op.e], &MyEmitter::sig0, listeners[op.l], &MyListener::slot1);
      if(op.sig == 1 && op.slot == 0) Callback::connect(emitters[op.e], &MyEmitter::sig1, listeners[op.l], &MyListener::slot0);
      if(op.sig == 1 && op.slot == 1) Callback::connect(emitters[op.e], &MyEmitter::sig1, listeners[op.l], &MyListener::slot1);
    }
    else
    {
      MSig& s = mem[op.e].sig[op.sig];
      if(s.n >= MAXC) { printf("model overflow\n"); exit(3); }
      Conn c = {op.l, op.slot, true, s.active > 0};
      s.conns[s.n++] = c;
    }
    return;
  case 1: // disconnect
    if(!eAlive || !lAlive) return;
    if(backend && depth) ++statDiscInEmit;
    if(backend)
    {
      if(op.sig == 0 && op.slot == 0) Callback::disconnect(emitters[op.e], &MyEmitter::sig0, listeners[op.l], &MyListener::slot0);
      if(op.sig == 0 && op.slot == 1) Callback::disconnect(emitters[op.e], &MyEmitter::sig0, listeners[op.l], &MyListener::slot1);
      if(op.sig == 1 && op.slot == 0) Callback::disconnect(emitters[op.e], &MyEmitter::sig1, listeners[op.l], &MyListener::slot0);
      if(op.sig == 1 && op.slot == 1) Callback::disconnect(emitters[op.e], &MyEmitter::sig1, listeners[op.l], &MyListener::slot1);
    }
    else
    {
      MSig& s = mem[op.e].sig[op.sig];
      for(int i = 0; i < s.n; ++i)
        if(s.conns[i].alive && s.conns[i].l == op.l && s.conns[i].slot == op.slot)
        {
          s.conns[i].alive = false;
          if(s.active == 0) modelCompact(s);
          break;
        }
    }
    return;
  case 2: // emit
  {
    if(!eAlive || depth >= 6) return;
    int arg = ++emissions;
    ++depth;
    if(backend) emitters[op.e]->fire(op.sig, arg);
    else modelEmit(op.e, op.sig, arg);
    --depth;
    return;
  }
  case 3: // destroy listener
    if(!lAlive) return;
    if(backend && depth) ++statKillLInEmit;
    if(backend) { MyListener* l = listeners[op.l]; listeners[op.l] = 0; delete l; }
    else
    {
      mlAlive[op.l] = false;
      for(int e = 0; e < NE; ++e) for(int sg = 0; sg < NSIG; ++sg)
      {
        MSig& s = mem[e].sig[sg];
        for(int i = 0; i < s.n; ++i) if(s.conns[i].l == op.l) s.conns[i].alive = false;
        if(mem[e].alive && s.active == 0) modelCompact(s);
      }
    }
    return;
  case 4: // destroy emitter
    if(!eAlive) return;
    if(backend && depth) ++statKillEInEmit;
    if(backend) { MyEmitter* e = emitters[op.e]; emitters[op.e] = 0; delete e; }
    else
    {
      mem[op.e].alive = false;
      ++mem[op.e].generation;
      for(int sg = 0; sg < NSIG; ++sg) { mem[op.e].sig[sg].n = 0; mem[op.e].sig[sg].active = 0; }
    }
    return;
  case 5: // new listener
    if(lAlive) return;
    if(backend) { listeners[op.l] = new MyListener; listeners[op.l]->id = op.l; }
    else mlAlive[op.l] = true;
    return;
  case 6: // new emitter
    if(eAlive) return;
    if(backend) emitters[op.e] = new MyEmitter;
    else { mem[op.e].alive = true; ++mem[op.e].generation; }
    return;
  }
}

static Op randomOp(bool top)
{
  Op op;
  unsigned int r = rnd() % 100;
  if(r < 30) op.type = 0;
  else if(r < 50) op.type = 1;
  else if(r < (top ? 80u : 70u)) op.type = 2;
  else if(r < 80) op.type = 3;
  else if(r < 88) op.type = 4;
  else if(r < 94) op.type = 5;
  else op.type = 6;
  op.e = rnd() % NE; op.sig = rnd() % NSIG; op.l = rnd() % NL; op.slot = rnd() % NSLOT;
  return op;
}

static const char* opName(const Op& op, char* buf)
{
  static const char* names[] = {"connect", "disconnect", "emit", "killL", "killE", "newL", "newE"};
  sprintf(buf, "%s(e%d.sig%d, l%d.slot%d)", names[op.type], op.e, op.sig, op.l, op.slot);
  return buf;
}

static void dumpScript()
{
  char buf[128];
  for(int i = 0; i < nTopOps; ++i) printf("  top[%d] %s\n", i, opName(topOps[i], buf));
  for(int k = 0; k < MAXINV; ++k) for(int i = 0; i < nSlotOps[k]; ++i) printf("  invocation[%d] does %s\n", k, opName(slotOps[k][i], buf));
}

static bool checkBookkeeping()
{
  bool ok = true;
  for(int e = 0; e < NE; ++e)
  {
    if((emitters[e] != 0) != mem[e].alive) { printf("emitter %d liveness differs\n", e); return false; }
    if(!emitters[e]) continue;
    for(int sg = 0; sg < NSIG; ++sg)
    {
      Callback::MemberFuncPtr key = sg == 0 ? Callback::MemberFuncPtr(&MyEmitter::sig0) : Callback::MemberFuncPtr(&MyEmitter::sig1);
      Map<Callback::MemberFuncPtr, Callback::Emitter::SignalData>::Iterator it = emitters[e]->signalData.find(key);
      MSig& s = mem[e].sig[sg];
      int n = 0;
      if(it != emitters[e]->signalData.end())
      {
        Callback::Emitter::SignalData& d = *it;
        if(d.activation) { printf("e%d.sig%d: activation left behind\n", e, sg); ok = false; }
        if(d.dirty) { printf("e%d.sig%d: dirty left behind\n", e, sg); ok = false; }
        for(List<Callback::Emitter::Slot>::Iterator i = d.slots.begin(); i != d.slots.end(); ++i, ++n)
        {
          if(n >= s.n) { printf("e%d.sig%d: more slots than live connections\n", e, sg); ok = false; break; }
          Callback::MemberFuncPtr sl = s.conns[n].slot == 0 ? Callback::MemberFuncPtr(&MyListener::slot0) : Callback::MemberFuncPtr(&MyListener::slot1);
          if(i->state != Callback::Emitter::Slot::connected || i->receiver != (Callback::Listener*)listeners[s.conns[n].l] || !(i->slot == sl))
          { printf("e%d.sig%d: slot %d differs from model (state %d)\n", e, sg, n, (int)i->state); ok = false; }
        }
      }
      if(n != s.n) { printf("e%d.sig%d: %d slots, model has %d connections\n", e, sg, n, s.n); ok = false; }
    }
  }
  for(int l = 0; l < NL; ++l)
  {
    if((listeners[l] != 0) != mlAlive[l]) { printf("listener %d liveness differs\n", l); return false; }
    if(!listeners[l]) continue;
    for(Map<Callback::Emitter*, List<Callback::Listener::Signal> >::Iterator it = listeners[l]->slotData.begin(); it != listeners[l]->slotData.end(); ++it)
    {
      int e = -1;
      for(int k = 0; k < NE; ++k) if(emitters[k] && (Callback::Emitter*)emitters[k] == it.key()) e = k;
      int have[NSIG][NSLOT]; memset(have, 0, sizeof(have));
      int total = 0;
      for(List<Callback::Listener::Signal>::Iterator i = (*it).begin(); i != (*it).end(); ++i, ++total)
      {
        int sg = i->signal == Callback::MemberFuncPtr(&MyEmitter::sig0) ? 0 : 1;
        int sl = i->slot == Callback::MemberFuncPtr(&MyListener::slot0) ? 0 : 1;
        ++have[sg][sl];
      }
      if(e < 0)
      {
        if(total) { printf("l%d: %d entries for a dead emitter\n", l, total); ok = false; }
        continue;
      }
      for(int sg = 0; sg < NSIG; ++sg) for(int i = 0; i < mem[e].sig[sg].n; ++i)
        if(mem[e].sig[sg].conns[i].l == l) --have[sg][mem[e].sig[sg].conns[i].slot];
      for(int sg = 0; sg < NSIG; ++sg) for(int sl = 0; sl < NSLOT; ++sl)
        if(have[sg][sl] != 0) { printf("l%d: listener side differs for e%d.sig%d slot%d by %d\n", l, e, sg, sl, have[sg][sl]); ok = false; }
    }
    // connections the model has but the listener has no entry for
    for(int e = 0; e < NE; ++e) if(emitters[e])
    {
      int want = 0;
      for(int sg = 0; sg < NSIG; ++sg) for(int i = 0; i < mem[e].sig[sg].n; ++i) if(mem[e].sig[sg].conns[i].l == l) ++want;
      if(want && listeners[l]->slotData.find(emitters[e]) == listeners[l]->slotData.end()) { printf("l%d: no entry for e%d\n", l, e); ok = false; }
    }
  }
  return ok;
}

int main(int argc, char** argv)
{
  unsigned int firstSeed = argc > 1 ? (unsigned int)atoi(argv[1]) : 1;
  unsigned int count = argc > 2 ? (unsigned int)atoi(argv[2]) : 20000;
  for(unsigned int seed = firstSeed; seed < firstSeed + count; ++seed)
  {
    rngState = seed * 2654435761u + 12345;
    nTopOps = 8 + rnd() % 40;
    for(int i = 0; i < nTopOps; ++i) { topOps[i] = randomOp(true); if(i < 6) topOps[i].type = 0; }
    for(int k = 0; k < MAXINV; ++k)
    {
      unsigned int r = rnd() % 100;
      nSlotOps[k] = r < 45 ? 0 : r < 75 ? 1 : r < 92 ? 2 : 3;
      for(int i = 0; i < nSlotOps[k]; ++i) slotOps[k][i] = randomOp(false);
    }

    for(backend = 0; backend < 2; ++backend)
    {
      invocations = emissions = depth = 0;
      nLog[backend] = 0;
      if(backend == 0)
      {
        memset(mem, 0, sizeof(mem));
        for(int e = 0; e < NE; ++e) mem[e].alive = true;
        for(int l = 0; l < NL; ++l) mlAlive[l] = true;
      }
      else
      {
        for(int e = 0; e < NE; ++e) emitters[e] = new MyEmitter;
        for(int l = 0; l < NL; ++l) { listeners[l] = new MyListener; listeners[l]->id = l; }
      }
      for(int i = 0; i < nTopOps; ++i) exec(topOps[i]);
    }

    bool same = nLog[0] == nLog[1] && memcmp(logs[0], logs[1], sizeof(LogEntry) * nLog[0]) == 0;
    if(!same)
    {
      printf("FAIL: seed %u: slot invocations differ from the model\n", seed);
      int n = nLog[0] > nLog[1] ? nLog[0] : nLog[1];
      for(int i = 0; i < n; ++i)
      {
        printf("  #%d model: ", i);
        if(i < nLog[0]) printf("l%d.slot%d(emission %d)", logs[0][i].l, logs[0][i].slot, logs[0][i].arg); else printf("-");
        printf("   library: ");
        if(i < nLog[1]) printf("l%d.slot%d(emission %d)", logs[1][i].l, logs[1][i].slot, logs[1][i].arg); else printf("-");
        printf("\n");
      }
      dumpScript();
      return 1;
    }
    if(!checkBookkeeping())
    {
      printf("FAIL: seed %u: bookkeeping differs from the live connections\n", seed);
      dumpScript();
      return 1;
    }
    for(int e = 0; e < NE; ++e) { delete emitters[e]; emitters[e] = 0; }
    for(int l = 0; l < NL; ++l) { delete listeners[l]; listeners[l] = 0; }
  }
  printf("PASS: %u random histories agree with the model (%lld slot invocations, %lld in nested emissions; inside emissions: %lld connects, %lld disconnects, %lld listener and %lld emitter destructions)\n", count, statInvocations, statNested, statConnInEmit, statDiscInEmit, statKillLInEmit, statKillEInEmit);
  return 0;
}
