// [C11] Thread::start(obj, &X::method) on a Thread that is already running returns false, but it
//       has already overwritten the call target of the running thread.
//
// include/nstd/Thread.hpp:14-19
//     typename Call<uint>::Member<X>::Func0 func(obj, ptr);
//     this->func = *(Call<uint>::Member<Thread>::Func0*)&func;     // <- written unconditionally
//     return start((uint (*)(void*))&proc<...>, &this->func);      // <- only this checks `if(thread) return false;`
// The new OS thread reads this->func when it begins to run (Thread::proc -> t->call()).  If the
// rejected second start() happens before that, the thread created by the FIRST start() executes
// the method/object of the SECOND (failed) call, and join() returns that function's result.
//
// build: g++ -std=c++11 -g -I/tmp/rv_C/include thread_second_start_overwrites_func.cpp \
//            /tmp/rv_C/src/*.cpp /tmp/rv_C/src/*/*.cpp -lpthread -ldl

#include <nstd/Thread.hpp>

#include <stdio.h>
#include <stdlib.h>

struct A
{
  volatile int runs;
  A() : runs(0) {}
  uint run() { ++runs; return 1; }
};

struct B
{
  volatile int runs;
  B() : runs(0) {}
  uint run() { ++runs; return 2; }
};

int main()
{
  for(int attempt = 1; attempt <= 1000; ++attempt)
  {
    A a;
    B b;
    Thread thread;
    bool first = thread.start(a, &A::run);   // accepted
    bool second = thread.start(b, &B::run);  // rejected: the thread is already started
    uint result = thread.join();
    if(!first || second)
    {
      printf("unexpected: first=%d second=%d\n", (int)first, (int)second);
      return 2;
    }
    if(a.runs != 1 || b.runs != 0 || result != 1)
    {
      printf("attempt %d: start(a)=true, start(b)=false, but A::run ran %d time(s), B::run ran %d time(s), join() returned %u\n",
        attempt, a.runs, b.runs, result);
      printf("FAIL: the rejected second start() redirected the running thread; join() did not return the result of the started function\n");
      return 1;
    }
  }
  printf("PASS (race not hit)\n");
  return 0;
}
