// [C10] Future::join()/~Future() return while the worker is still inside Future<void>::set()
//
// Signal::set() (src/Signal.cpp:41-45) publishes `signaled = true`, UNLOCKS the mutex and only
// then calls pthread_cond_broadcast().  A joiner that enters Signal::wait() in that gap sees
// `signaled`, returns, and the owner may destroy the Future (the usual pattern is a Future on the
// stack or `delete future` right after reading the result).  The worker then executes
// pthread_cond_broadcast() on a destroyed / freed pthread_cond_t.
//
// The gap between unlock and broadcast cannot be hit on demand, so this demo holds the worker
// thread exactly there by interposing pthread_cond_broadcast (the library itself is unchanged;
// this only plays the role of the scheduler pre-empting the worker at that instruction).
//
// build: g++ -std=c++11 -g -I/tmp/rv_C/include future_signal_use_after_destroy.cpp \
//            /tmp/rv_C/src/*.cpp /tmp/rv_C/src/*/*.cpp -lpthread -ldl
//        (add -fsanitize=address,undefined to get the heap-use-after-free report as well)

#include <nstd/Future.hpp>

#include <stdio.h>
#include <stdlib.h>
#include <unistd.h>
#include <pthread.h>
#include <dlfcn.h>

static char* volatile g_lo = 0;
static char* volatile g_hi = 0;
static volatile int g_workerInGap = 0;
static volatile int g_destroyed = 0;
static volatile int g_broadcastOnDestroyed = 0;

typedef int (*cond_fn)(pthread_cond_t*);

extern "C" int pthread_cond_broadcast(pthread_cond_t* cond)
{
  static cond_fn real = 0;
  if(!real)
    real = (cond_fn)dlsym(RTLD_NEXT, "pthread_cond_broadcast");
  if((char*)cond >= g_lo && (char*)cond < g_hi)
  {
    // we are the worker thread inside Future<void>::set() -> Signal::set(), after the
    // pthread_mutex_unlock and before the broadcast: act as if we were pre-empted here
    __sync_lock_test_and_set(&g_workerInGap, 1);
    for(int i = 0; i < 5000 && !g_destroyed; ++i)
      usleep(1000);
    if(g_destroyed)
    {
      g_broadcastOnDestroyed = 1;
#if defined(__SANITIZE_ADDRESS__)
      volatile char c = *(volatile char*)cond; // let AddressSanitizer show what the broadcast is about to touch
      (void)c;
#endif
      return 0; // do not really run libc code on freed memory
    }
  }
  return real(cond);
}

static int answer() { return 42; }

int main()
{
  Future<int>* future = new Future<int>;
  g_lo = (char*)future;
  g_hi = (char*)future + sizeof(*future);

  future->start(&answer);

  // wait until the worker has executed the function and is in the gap of Signal::set()
  for(int i = 0; i < 5000 && !g_workerInGap; ++i)
    usleep(1000);
  if(!g_workerInGap)
  {
    printf("INCONCLUSIVE: worker never reached Signal::set\n");
    return 2;
  }

  int result = *future;   // result conversion = join(); returns at once because `signaled` is already true
  bool finished = future->isFinished();
  delete future;          // perfectly legal: join() has returned
  g_lo = g_hi = 0;
  __sync_lock_test_and_set(&g_destroyed, 1);

  usleep(200 * 1000);     // let the worker continue

  printf("result=%d finished=%d\n", result, (int)finished);
  if(g_broadcastOnDestroyed)
  {
    printf("FAIL: join()/~Future() returned while the worker was still inside Future::set(); "
           "it then called pthread_cond_broadcast() on the destroyed and freed Signal of the Future\n");
    fflush(stdout); _exit(1);
  }
  printf("PASS\n");
  fflush(stdout); _exit(0);
}
