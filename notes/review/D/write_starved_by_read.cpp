// C14 "every registered socket that is ... writable-with-backlog ... is eventually
// dispatched" / C13 "onWrite is delivered once that backlog has drained":
// Server::run dispatches "if(flags & readFlag) onRead(); else if(flags & writeFlag) ...".
// A client that is readable AND writable at the same time only ever gets onRead;
// as long as input is pending the send backlog is never handed to the OS and
// onWrite never comes.  A handler that postpones reading while its own output
// is backed up (and waits for onWrite to go on) therefore dead-locks, with the
// loop spinning at 100% CPU.
#include <stdio.h>
#include <nstd/Socket/Server.hpp>
#include <nstd/Socket/Socket.hpp>
#include <nstd/Time.hpp>

static Server server;
static int reads = 0, writes = 0;

struct Watchdog : public Server::Timer::ICallback
{
  void onActivated() {server.interrupt();}
} watchdog;

struct Handler : public Server::Client::ICallback
{
  Server::Client* client;
  void onRead()
  {
    ++reads;
    if(client->getSendBufferSize() > 0)
      return; // output is backed up: do not produce more, go on reading after onWrite
    byte buf[256];
    usize size;
    client->read(buf, sizeof(buf), size);
  }
  void onWrite() {++writes; server.interrupt();}
  void onClosed() {server.remove(*client);}
} handler;

int main()
{
  Socket peer;
  handler.client = server.pair(handler, peer);
  if(!handler.client || !peer.setNonBlocking())
    return printf("setup failed\n"), 2;

  // the peer does not read: write until a backlog builds up
  static byte chunk[64 * 1024];
  for(usize i = 0; i < sizeof(chunk); ++i)
    chunk[i] = (byte)i;
  usize written = 0, postponed = 0;
  while(!postponed)
  {
    if(!handler.client->write(chunk, sizeof(chunk), &postponed))
      return printf("setup failed: write\n"), 2;
    written += sizeof(chunk);
  }
  printf("accepted %u bytes, backlog %u bytes\n", (uint)written, (uint)postponed);

  // the peer sends a request and then reads everything there is: the client is readable and writable
  byte request = 'x';
  peer.send(&request, 1);
  usize received = 0;
  static byte in[64 * 1024];
  for(ssize r; (r = peer.recv(in, sizeof(in))) > 0;)
    received += (usize)r;

  server.time(1000, watchdog);
  server.run(); // returns from onWrite (expected) or from the watchdog

  for(ssize r; (r = peer.recv(in, sizeof(in))) > 0;)
    received += (usize)r;
  printf("after 1 s: onRead calls %d, onWrite calls %d, backlog %u, peer got %u of %u bytes\n", reads, writes, (uint)handler.client->getSendBufferSize(), (uint)received, (uint)written);
  if(!writes || received != written)
  {
    printf("FAIL: backlog was never written although the socket is writable (write event dropped in favour of read)\n");
    return 1;
  }
  printf("ok\n");
  return 0;
}
