// C13 (boundary: write size 0): Client::write(data, 0) on a healthy connection
// without backlog calls send() with length 0, gets 0 back and takes that for a
// closed connection: it returns false and queues onClosed, so the application
// tears down a perfectly good connection.  (With a backlog the same call
// returns true.)
#include <stdio.h>
#include <nstd/Socket/Server.hpp>
#include <nstd/Socket/Socket.hpp>

static Server server;
static int closed = 0;

struct Watchdog : public Server::Timer::ICallback
{
  void onActivated() {server.interrupt();}
} watchdog;

struct Handler : public Server::Client::ICallback
{
  void onRead() {}
  void onWrite() {}
  void onClosed() {++closed; server.interrupt();}
} handler;

int main()
{
  Socket peer;
  Server::Client* client = server.pair(handler, peer);
  if(!client)
    return printf("setup failed\n"), 2;

  bool first = client->write((const byte*)"abc", 3);
  usize postponed = 123;
  bool empty = client->write((const byte*)"", 0, &postponed); // e.g. an empty payload / empty line
  server.time(200, watchdog);
  server.run();
  bool after = client->write((const byte*)"def", 3);
  byte buf[16];
  ssize got = peer.recv(buf, sizeof(buf));
  printf("write(3 bytes)=%d write(0 bytes)=%d onClosed calls=%d write(3 bytes)=%d peer received %d bytes (connection is alive)\n", (int)first, (int)empty, closed, (int)after, (int)got);
  if(!empty || closed)
  {
    printf("FAIL: an empty write is reported as failure and the client gets onClosed\n");
    return 1;
  }
  printf("ok\n");
  return 0;
}
