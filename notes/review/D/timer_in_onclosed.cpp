// C14: "a timer is activated once per interval" - a timer that is created from
// inside Client::ICallback::onClosed (delivered through the closing-clients
// queue, i.e. after a failed Client::read/write) is ignored when the poll
// timeout is computed, so its first activation is late by up to 300 seconds
// (here: bounded by a 2000 ms watchdog timer).
#include <stdio.h>
#include <nstd/Socket/Server.hpp>
#include <nstd/Socket/Socket.hpp>
#include <nstd/Time.hpp>

static Server server;
static int64 createdAt = 0;
static int64 activatedAt = 0;
static int activations = 0;

struct Reconnect : public Server::Timer::ICallback
{
  void onActivated()
  {
    if(!activatedAt)
      activatedAt = Time::ticks();
    ++activations;
    server.interrupt();
  }
} reconnectTimer;

struct Watchdog : public Server::Timer::ICallback
{
  void onActivated() {server.interrupt();}
} watchdog;

struct ClientHandler : public Server::Client::ICallback
{
  Server::Client* client;
  void onRead()
  {
    byte buf[16];
    usize size;
    client->read(buf, sizeof(buf), size); // peer has closed: fails, onClosed gets queued
  }
  void onWrite() {}
  void onClosed()
  {
    server.remove(*client);
    createdAt = Time::ticks();
    server.time(50, reconnectTimer); // "try again in 50 ms"
  }
} handler;

int main()
{
  Socket peer;
  handler.client = server.pair(handler, peer);
  if(!handler.client)
    return printf("setup failed\n"), 2;
  server.time(2000, watchdog);
  peer.close();
  server.run();
  if(!createdAt)
    return printf("setup failed: onClosed not delivered\n"), 2;
  int64 now = Time::ticks();
  int64 delay = (activatedAt ? activatedAt : now) - createdAt;
  printf("50 ms timer created in onClosed: first activation after %d ms (activations so far %d)\n", (int)delay, activations);
  if(delay > 500)
  {
    printf("FAIL: timer created in onClosed was not honoured by the poll timeout\n");
    return 1;
  }
  printf("ok\n");
  return 0;
}
