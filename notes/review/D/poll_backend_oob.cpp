// C14, poll(2) backend of Socket::Poll (build src/Socket/Socket.cpp with -U__linux__
// -fsanitize=address): the scan loop in Socket::Poll::Private::poll runs from
// pollfds + 1 to pollfds + 1 + size, one element past the end of the array.
// The early "--count == 0" exit hides that unless the interrupt eventfd (index 0,
// skipped by the loop) is among the ready descriptors.
// With assertions enabled the garbage element fails ASSERT(it != fdToSocket.end())
// (trap); with NDEBUG the end iterator is dereferenced.
#include <stdio.h>
#include <signal.h>
#include <unistd.h>
#include <nstd/Socket/Socket.hpp>

static int iteration = 0;

static void onCrash(int sig)
{
  char buf[160];
  int len = snprintf(buf, sizeof(buf), "FAIL: signal %d inside Socket::Poll::poll with %d registered socket(s): element past the end of pollfds was evaluated\n", sig, iteration + 1);
  write(1, buf, len);
  _exit(1);
}

int main()
{
  signal(SIGILL, onCrash);
  signal(SIGTRAP, onCrash);
  signal(SIGSEGV, onCrash);
  signal(SIGABRT, onCrash);
  Socket::Poll poll;
  Socket s[8], peer[8];
  for(int& i = iteration; i < 8; ++i) // any number of sockets; the array has no spare capacity for some of them
  {
    if(!s[i].pair(peer[i]))
      return printf("setup failed\n"), 2;
    poll.set(s[i], Socket::Poll::readFlag);
    poll.interrupt();
    Socket::Poll::Event event;
    poll.poll(event, 100); // AddressSanitizer: heap-buffer-overflow READ in Socket::Poll::Private::poll
  }
  printf("ok (no sanitizer report)\n");
  return 0;
}
