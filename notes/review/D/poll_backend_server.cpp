// C14 on the poll(2) backend of Socket::Poll (build src/Socket/Socket.cpp with
// -U__linux__ -O2): a Server with nothing but a 100 ms timer.  The first plain
// poll timeout ends in a blocking read() on the empty eventfd (uninitialised
// "interrupted"), so the timer is never activated until somebody interrupts.
#include <stdio.h>
#include <unistd.h>
#include <nstd/Socket/Server.hpp>
#include <nstd/Thread.hpp>
#include <nstd/Time.hpp>

static Server server;
static int activations = 0;

struct Tick : public Server::Timer::ICallback
{
  void onActivated() {++activations;}
} tick;

static uint watchdog(void*)
{
  usleep(1500 * 1000);
  server.interrupt();
  return 0;
}

int main()
{
  server.time(100, tick);
  Thread thread;
  thread.start(watchdog, (void*)0);
  int64 start = Time::ticks();
  server.run();
  int64 elapsed = Time::ticks() - start;
  thread.join();
  printf("100 ms timer: %d activations in %d ms\n", activations, (int)elapsed);
  if(activations < 10)
  {
    printf("FAIL: event loop was stuck, timer not honoured\n");
    return 1;
  }
  printf("ok\n");
  return 0;
}
