// C14 (non-Linux POSIX backend of Socket::Poll, the "#else" branch based on poll(2)):
// build src/Socket/Socket.cpp with -U__linux__ to select it.
//
// Socket::Poll::Private::poll reads the local "bool interrupted" uninitialised
// whenever no socket is ready (short-circuit ||), and its scan loop runs one
// element past the end of the pollfd array.
//
// test A: a plain timeout with stack garbage != 0 -> blocking read() on the
//         (empty, blocking) eventfd -> the event loop hangs for ever
// test B: an interrupt with stack garbage == 0 -> the eventfd is never drained
//         -> every following poll() returns at once (busy loop, timeouts ignored)
#include <stdio.h>
#include <string.h>
#include <unistd.h>
#include <signal.h>
#include <nstd/Socket/Socket.hpp>
#include <nstd/Time.hpp>

static const char* stage = "";

static void onAlarm(int)
{
  char buf[160];
  int len = snprintf(buf, sizeof(buf), "FAIL: %s: Socket::Poll::poll did not return (blocked in read(eventfd))\n", stage);
  write(1, buf, len);
  _exit(1);
}

// fill the stack area that the next call will use for its locals
static void __attribute__((noinline)) dirtyStack(int value)
{
  volatile char area[8192];
  memset((void*)area, value, sizeof(area));
}

int main(int argc, char* argv[])
{
  int failed = 0;
  const char* which = argc > 1 ? argv[1] : "AB";
  signal(SIGALRM, onAlarm);
  setvbuf(stdout, 0, _IONBF, 0);

  Socket a, b;
  if(!a.pair(b))
    return printf("setup failed\n"), 2;
  Socket::Poll poll;
  poll.set(a, Socket::Poll::readFlag);
  Socket::Poll::Event event;

  if(strchr(which, 'B'))
  {
    stage = "test B";
    poll.interrupt();
    alarm(3);
    dirtyStack(0);
    poll.poll(event, 1000); // returns because of the interrupt
    int spurious = 0;
    for(int i = 0; i < 5; ++i)
    {
      int64 start = Time::ticks();
      dirtyStack(0);
      poll.poll(event, 200); // nothing is ready, must take ~200 ms
      if(Time::ticks() - start < 100 && !event.flags)
        ++spurious;
    }
    alarm(0);
    printf("test B: %d of 5 polls with a 200 ms timeout returned at once after a single interrupt\n", spurious);
    if(spurious > 1)
    {
      printf("FAIL: test B: interrupt was never consumed, poll() ignores its timeout\n");
      failed = 1;
    }
  }

  if(strchr(which, 'A'))
  {
    stage = "test A";
    Socket::Poll poll2;
    poll2.set(a, Socket::Poll::readFlag);
    alarm(3);
    int64 start = Time::ticks();
    dirtyStack(0xff);
    poll2.poll(event, 50); // nothing is ready: must time out after 50 ms
    alarm(0);
    printf("test A: poll with 50 ms timeout returned after %d ms\n", (int)(Time::ticks() - start));
  }

  if(failed)
    return 1;
  printf("ok\n");
  return 0;
}
