// Replacement global allocator for the demos: freed blocks are overwritten with '#', so that a
// read of released memory shows as wrong bytes also without a sanitizer.
// Compile with -DNO_POISON (and -fsanitize=address) to let AddressSanitizer report the access instead.
#pragma once
#include <stdlib.h>
#include <string.h>
#include <nstd/Base.hpp>

#ifndef NO_POISON
static usize liveBlocks = 0;
static void* poisonAlloc(usize size)
{
  usize* p = (usize*)malloc(size + 2 * sizeof(usize));
  p[0] = size;
  p[1] = 0;
  ++liveBlocks;
  return p + 2;
}
static void poisonFree(void* buffer)
{
  if(!buffer)
    return;
  usize* p = (usize*)buffer - 2;
  memset(buffer, '#', p[0]);
  --liveBlocks;
  // the block is deliberately not handed back to malloc: it stays readable and keeps its poison
}
void* operator new(usize size) { return poisonAlloc(size); }
void* operator new[](usize size) { return poisonAlloc(size); }
void operator delete(void* buffer) { poisonFree(buffer); }
void operator delete[](void* buffer) { poisonFree(buffer); }
void operator delete(void* buffer, usize) { poisonFree(buffer); }
void operator delete[](void* buffer, usize) { poisonFree(buffer); }
#endif
