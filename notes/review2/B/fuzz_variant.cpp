// fuzz of Variant: value semantics checked through serialisations (scratch tool, not a finding by itself)
#include <stdio.h>
#include <stdlib.h>
#include <string.h>
#include <nstd/Variant.hpp>

static int fails = 0;
static const char* lastop = "";
static unsigned long iter = 0;
static unsigned rnd(unsigned n) { return (unsigned)rand() % n; }

struct Text
{
  char d[20000];
  size_t n;
  void add(const char* s) { size_t l = strlen(s); if(n + l < sizeof(d) - 1) { memcpy(d + n, s, l); n += l; d[n] = 0; } }
};

static void ser(const Variant& v, Text& out, int depth = 0)
{
  char buf[64];
  if(depth > 40)
  {
    out.add("<TOO DEEP>");
    return;
  }
  switch(v.getType())
  {
  case Variant::nullType: out.add("null"); break;
  case Variant::boolType: out.add(v.toBool() ? "true" : "false"); break;
  case Variant::doubleType: snprintf(buf, sizeof(buf), "d%g", v.toDouble()); out.add(buf); break;
  case Variant::intType: snprintf(buf, sizeof(buf), "i%d", v.toInt()); out.add(buf); break;
  case Variant::uintType: snprintf(buf, sizeof(buf), "u%u", v.toUInt()); out.add(buf); break;
  case Variant::int64Type: snprintf(buf, sizeof(buf), "I%lld", (long long)v.toInt64()); out.add(buf); break;
  case Variant::uint64Type: snprintf(buf, sizeof(buf), "U%llu", (unsigned long long)v.toUInt64()); out.add(buf); break;
  case Variant::stringType: out.add("\""); out.add(v.toString()); out.add("\""); break;
  case Variant::listType:
  {
    out.add("[");
    const List<Variant>& l = v.toList();
    for(List<Variant>::Iterator i = l.begin(), end = l.end(); i != end; ++i)
    {
      ser(*i, out, depth + 1);
      out.add(",");
    }
    out.add("]");
    break;
  }
  case Variant::arrayType:
  {
    out.add("(");
    const Array<Variant>& l = v.toArray();
    for(Array<Variant>::Iterator i = l.begin(), end = l.end(); i != end; ++i)
    {
      ser(*i, out, depth + 1);
      out.add(",");
    }
    out.add(")");
    break;
  }
  case Variant::mapType:
  {
    out.add("{");
    const HashMap<String, Variant>& l = v.toMap();
    for(HashMap<String, Variant>::Iterator i = l.begin(), end = l.end(); i != end; ++i)
    {
      out.add(i.key());
      out.add(":");
      ser(*i, out, depth + 1);
      out.add(",");
    }
    out.add("}");
    break;
  }
  }
}

#define NV 3
static Variant* v[NV];
static Text model[NV];
static Text now;

static void checkAll()
{
  for(int i = 0; i < NV; ++i)
  {
    now.n = 0;
    now.d[0] = 0;
    ser(*v[i], now);
    if(strcmp(now.d, model[i].d) != 0)
    {
      printf("FAIL[%lu] var %d after %s:\n  got      %s\n  expected %s\n", iter, i, lastop, now.d, model[i].d);
      ++fails;
      model[i] = now;
    }
    Variant copy(*v[i]);
    if(!(copy == *v[i]) || copy != *v[i])
    {
      printf("FAIL[%lu] var %d after %s: copy does not compare equal: %s\n", iter, i, lastop, now.d);
      ++fails;
    }
  }
}

static void set(Text& t, const char* s) { t.n = 0; t.d[0] = 0; t.add(s); }

// expected text after appending element text e to container text c (close is the closing bracket)
static void appendElem(Text& c, const Text& e, const char* open, const char* close, const char* key)
{
  if(c.n == 0 || c.d[0] != open[0])
    set(c, open);
  else
    c.d[--c.n] = 0;
  if(key)
  {
    c.add(key);
    c.add(":");
  }
  c.add(e.d);
  c.add(",");
  c.add(close);
}

// text of the first element of a serialised container, 0 if none
static bool firstElem(const Text& c, Text& out, bool isMap)
{
  if(c.n < 3) return false;
  int depth = 0;
  size_t i = 1;
  if(isMap)
  {
    while(c.d[i] != ':') ++i;
    ++i;
  }
  size_t b = i;
  bool inStr = false;
  for(; i < c.n; ++i)
  {
    char ch = c.d[i];
    if(inStr) { if(ch == '"') inStr = false; continue; }
    if(ch == '"') inStr = true;
    else if(ch == '[' || ch == '(' || ch == '{') ++depth;
    else if(ch == ']' || ch == ')' || ch == '}') --depth;
    else if(ch == ',' && depth == 0) break;
  }
  out.n = 0;
  memcpy(out.d, c.d + b, i - b);
  out.n = i - b;
  out.d[out.n] = 0;
  return true;
}

// replace first element text
static void replaceFirst(Text& c, const Text& e)
{
  Text first;
  firstElem(c, first, false);
  Text res;
  res.n = 0;
  res.d[0] = 0;
  char open[2] = {c.d[0], 0};
  res.add(open);
  res.add(e.d);
  res.add(c.d + 1 + first.n);
  c = res;
}

int main(int argc, char** argv)
{
  unsigned seed = argc > 1 ? atoi(argv[1]) : 1;
  unsigned long rounds = argc > 2 ? atol(argv[2]) : 3000;
  bool allowSelfNest = argc > 3 ? atoi(argv[3]) != 0 : false;
  srand(seed);
  int keyCounter = 0;
  for(unsigned long r = 0; r < rounds && fails < 5; ++r)
  {
    for(int i = 0; i < NV; ++i)
    {
      v[i] = new Variant();
      set(model[i], "null");
    }
    int steps = 1 + rnd(16);
    for(int st = 0; st < steps && fails < 5; ++st)
    {
      ++iter;
      int k = rnd(NV), j = rnd(NV);
      Variant& x = *v[k];
      Variant& y = *v[j];
      Text& mx = model[k];
      Text my = model[j];
      char buf[64];
      switch(rnd(24))
      {
      case 0:
        lastop = "= scalar";
        switch(rnd(6))
        {
        case 0: x = (int)-5; set(mx, "i-5"); break;
        case 1: x = true; set(mx, "true"); break;
        case 2: x = 2.5; set(mx, "d2.5"); break;
        case 3: x = (uint)7; set(mx, "u7"); break;
        case 4: x = (int64)-9; set(mx, "I-9"); break;
        case 5: x = (uint64)11; set(mx, "U11"); break;
        }
        break;
      case 1:
        lastop = "= String";
        x = String("st");
        set(mx, "\"st\"");
        break;
      case 2:
        lastop = "x = y";
        x = y;
        mx = my;
        break;
      case 3:
      {
        lastop = "copy ctor";
        Variant* c = new Variant(y);
        delete v[k];
        v[k] = c;
        model[k] = my;
        break;
      }
      case 4:
        if(k != j || allowSelfNest)
        {
          lastop = k == j ? "x.toList().append(x)" : "x.toList().append(y)";
          x.toList().append(y);
          if(k == j && my.d[0] != '[') set(my, "[]"); // toList() converted x before append() copied it
          appendElem(mx, my, "[", "]", 0);
        }
        break;
      case 5:
        if(k != j || allowSelfNest)
        {
          lastop = k == j ? "x.toArray().append(x)" : "x.toArray().append(y)";
          x.toArray().append(y);
          if(k == j && my.d[0] != '(') set(my, "()");
          appendElem(mx, my, "(", ")", 0);
        }
        break;
      case 6:
        if(k != j || allowSelfNest)
        {
          lastop = k == j ? "x.toMap().append(key, x)" : "x.toMap().append(key, y)";
          snprintf(buf, sizeof(buf), "k%d", ++keyCounter);
          x.toMap().append(String::fromCString(buf), y);
          if(k == j && my.d[0] != '{') set(my, "{}");
          appendElem(mx, my, "{", "}", buf);
        }
        break;
      case 7:
        if(mx.d[0] == '[' && mx.n > 2)
        {
          lastop = "x = x.toList().front() (const)";
          Text first;
          firstElem(mx, first, false);
          x = ((const Variant&)x).toList().front();
          mx = first;
        }
        break;
      case 8:
        if(mx.d[0] == '[' && mx.n > 2)
        {
          lastop = "x = x.toList().back() (mutable)";
          Text tmp;
          tmp.n = 0; tmp.d[0] = 0;
          ser(((const Variant&)x).toList().back(), tmp);
          x = x.toList().back();
          mx = tmp;
        }
        break;
      case 9:
        if(mx.d[0] == '[' && mx.n > 2 && (k != j || allowSelfNest))
        {
          lastop = k == j ? "x.toList().front() = x" : "x.toList().front() = y";
          x.toList().front() = y;
          replaceFirst(mx, my);
        }
        break;
      case 10:
      {
        lastop = "x.toString().append";
        Text t;
        t.n = 0; t.d[0] = 0;
        t.add("\"");
        t.add(((const Variant&)x).toString());
        t.add("z\"");
        x.toString().append('z');
        mx = t;
        break;
      }
      case 11:
      {
        lastop = "swap";
        x.swap(y);
        Text t = model[k];
        model[k] = model[j];
        model[j] = t;
        break;
      }
      case 12:
        lastop = "clear";
        x.clear();
        set(mx, "null");
        break;
      case 13:
        if(my.d[0] == '[')
        {
          lastop = "x = (const y).toList()";
          x = ((const Variant&)y).toList();
          mx = my;
        }
        break;
      case 14:
        if(my.d[0] == '{')
        {
          lastop = "x = (const y).toMap()";
          x = ((const Variant&)y).toMap();
          mx = my;
        }
        break;
      case 15:
        if(my.d[0] == '(')
        {
          lastop = "x = (const y).toArray()";
          x = ((const Variant&)y).toArray();
          mx = my;
        }
        break;
      case 16:
        if(mx.d[0] == '[' && mx.n > 2)
        {
          lastop = "x = x.toList().front().toList() (mutable)";
          Text first;
          firstElem(mx, first, false);
          x = x.toList().front().toList();
          if(first.d[0] == '[')
            mx = first;
          else
            set(mx, "[]");
        }
        break;
      case 17:
        if(mx.d[0] == '{' && mx.n > 2)
        {
          lastop = "x = x.toMap().front().toString() (mutable)";
          Text first;
          firstElem(mx, first, true);
          Text t;
          t.n = 0; t.d[0] = 0;
          t.add("\"");
          t.add(((const Variant&)x).toMap().begin()->toString());
          t.add("\"");
          x = x.toMap().front().toString();
          mx = t;
        }
        break;
      case 18:
        if(mx.d[0] == '(' && mx.n > 2)
        {
          lastop = "x = x.toArray().front() (mutable)";
          Text first;
          firstElem(mx, first, false);
          x = x.toArray().front();
          mx = first;
        }
        break;
      case 19:
        if(mx.d[0] == '[' && mx.n > 2)
        {
          lastop = "x.toList().front().toList().append(y)";
          Text first;
          firstElem(mx, first, false);
          if(k != j || allowSelfNest)
          {
            x.toList().front().toList().append(y);
            appendElem(first, my, "[", "]", 0);
            replaceFirst(mx, first);
          }
        }
        break;
      case 20:
        if(mx.d[0] == '[' && mx.n > 2)
        {
          lastop = "x.toList().removeFront()";
          Text first;
          firstElem(mx, first, false);
          x.toList().removeFront();
          Text res;
          res.n = 0; res.d[0] = 0;
          res.add("[");
          res.add(mx.d + 1 + first.n + 1);
          mx = res;
        }
        break;
      case 21:
        if(mx.d[0] == '(' && mx.n > 2 && (k != j || allowSelfNest))
        {
          lastop = k == j ? "x.toArray().front() = x" : "x.toArray().front() = y";
          x.toArray()[0] = y;
          replaceFirst(mx, my);
        }
        break;
      case 22:
        if(mx.d[0] == '{' && mx.n > 2 && (k != j || allowSelfNest))
        {
          lastop = k == j ? "x.toMap().front() = x" : "x.toMap().front() = y";
          Text first;
          firstElem(mx, first, true);
          x.toMap().front() = y;
          // rebuild
          size_t colon = 0;
          while(mx.d[colon] != ':') ++colon;
          Text res;
          res.n = 0; res.d[0] = 0;
          char head[64];
          memcpy(head, mx.d, colon + 1);
          head[colon + 1] = 0;
          res.add(head);
          res.add(my.d);
          res.add(mx.d + colon + 1 + first.n);
          mx = res;
        }
        break;
      case 23:
        if(mx.d[0] == '[' && mx.n > 2)
        {
          lastop = "x = x.toList().front().toString() (mutable)";
          Text t;
          t.n = 0; t.d[0] = 0;
          t.add("\"");
          t.add(((const Variant&)x).toList().front().toString());
          t.add("\"");
          x = x.toList().front().toString();
          mx = t;
        }
        break;
      }
      for(int i = 0; i < NV; ++i)
        if(model[i].n > 1500)
        {
          v[i]->clear();
          set(model[i], "null");
        }
      checkAll();
    }
    for(int i = 0; i < NV; ++i)
      delete v[i];
  }
  if(fails)
  {
    printf("FAIL\n");
    return 1;
  }
  printf("ok\n");
  return 0;
}
