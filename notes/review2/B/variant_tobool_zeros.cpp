// [C07] conversion of a decimal string to bool: a zero written with more than one digit and no
// decimal point ("00", "000") converts to true, while "0", "00.", "00.0", "0.00" convert to false and
// the same Variant converts to 0 / 0.0 as a number.
//
// g++ -std=c++11 -g -I/tmp/rw_B/include variant_tobool_zeros.cpp /tmp/rw_B_build/libnstd_plain.a -lpthread -ldl
#include <stdio.h>
#include <nstd/Variant.hpp>

int main()
{
  const char* zeros[] = {"0", "00", "000", "00.", "00.0", "0.00", ".00"};
  int failed = 0;
  for(unsigned i = 0; i < sizeof(zeros) / sizeof(*zeros); ++i)
  {
    Variant v(String::fromCString(zeros[i]));
    bool b = v.toBool();
    printf("Variant(\"%s\"): toInt() = %d, toDouble() = %g, toBool() = %s%s\n", zeros[i], v.toInt(), v.toDouble(), b ? "true" : "false", b ? "   WRONG (expected false)" : "");
    if(b)
      failed = 1;
  }
  printf(failed ? "FAIL\n" : "PASS\n");
  return failed;
}
