// [C06] String::operator=(const String&) and String::append(const String&) (operator+=) with an
// argument that is attached to a range of the target's own bytes: the target's buffer is released
// (operator=) or replaced (append that has to grow) before the argument's bytes are copied.
//
// plain:  g++ -std=c++11 -g -I/tmp/rw_B/include string_view_of_own_bytes.cpp /tmp/rw_B_build/libnstd_plain.a -lpthread -ldl
// asan:   g++ -std=c++11 -g -fsanitize=address,undefined -DNO_POISON -I/tmp/rw_B/include string_view_of_own_bytes.cpp /tmp/rw_B_build/libnstd_asan.a -lpthread -ldl
#include <stdio.h>
#include "poison_alloc.h"
#include <nstd/String.hpp>

static int failed = 0;

static void expect(const char* what, const String& s, const char* expected, usize len)
{
  bool ok = s.length() == len && memcmp((const char*)s, expected, len) == 0;
  printf("%-45s -> \"%.*s\"  expected \"%s\"  %s\n", what, (int)s.length(), (const char*)s, expected, ok ? "ok" : "WRONG");
  if(!ok)
    failed = 1;
}

int main()
{
  {
    // the word "world" of line, as a non-owning view (the way Xml.cpp / Process.cpp use attach)
    String line = String::fromCString("hello world, hello moon");
    String word;
    word.attach((const char*)line + 6, 5);
    line = word; // expected: line == "world"
    expect("line = view(line, 6, 5)", line, "world", 5);
  }
  {
    String line = String::fromCString("hello world");
    String word;
    word.attach((const char*)line + 6, 5);
    line.append(word); // has to grow: expected "hello worldworld"
    expect("line.append(view(line, 6, 5))", line, "hello worldworld", 16);
  }
  {
    String line = String::fromCString("hello world");
    String word;
    word.attach((const char*)line, 5);
    line += word;
    expect("line += view(line, 0, 5)", line, "hello worldhello", 16);
  }
  {
    // the overloads that were repaired earlier behave: same bytes passed as pointer + length
    String line = String::fromCString("hello world");
    line.append((const char*)line + 6, 5);
    expect("line.append(ptr into line, 5) [repaired]", line, "hello worldworld", 16);
    String line2 = String::fromCString("hello world");
    String word;
    word.attach((const char*)line2 + 6, 5);
    line2.prepend(word);
    expect("line.prepend(view(line, 6, 5)) [fine]", line2, "worldhello world", 16);
  }
  if(failed)
  {
    printf("FAIL\n");
    return 1;
  }
  printf("PASS\n");
  return 0;
}
