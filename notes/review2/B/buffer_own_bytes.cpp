// [C08] Buffer operations whose argument lies inside the buffer's own bytes, in the overloads the
// earlier repairs (append(const byte*, usize), prepend) did not touch:
//  (a) append(const Buffer&) with a Buffer attached to a range of the target's bytes: resize() replaces the
//      allocation, then the bytes are copied out of the released block
//  (b) assign(const byte*, usize) with a range of the buffer's own bytes, and operator= with the buffer itself
//      after removeFront: Memory::copy (memcpy) is called with overlapping source and destination
//
// plain:  g++ -std=c++11 -g -I/tmp/rw_B/include buffer_own_bytes.cpp /tmp/rw_B_build/libnstd_plain.a -lpthread -ldl
// asan:   g++ -std=c++11 -g -fsanitize=address,undefined -DNO_POISON -I/tmp/rw_B/include buffer_own_bytes.cpp /tmp/rw_B_build/libnstd_asan.a -lpthread -ldl
//         ./a.out a | ./a.out b | ./a.out c   (one case per run, AddressSanitizer stops at the first report)
#include <stdio.h>
#include "poison_alloc.h"
#include <nstd/Buffer.hpp>

static int failed = 0;

static void expect(const char* what, const Buffer& b, const char* expected)
{
  usize len = strlen(expected);
  bool ok = b.size() == len && memcmp((const byte*)b, expected, len) == 0;
  printf("%-45s -> \"%.*s\"  expected \"%s\"  %s\n", what, (int)b.size(), (const char*)(const byte*)b, expected, ok ? "ok" : "WRONG");
  if(!ok)
    failed = 1;
}

int main(int argc, char** argv)
{
  char which = argc > 1 ? argv[1][0] : 0;
  if(!which || which == 'a')
  {
    Buffer b((const byte*)"0123456789", 10);
    Buffer view;
    view.attach((byte*)b + 2, 4); // "2345"
    b.append(view);
    expect("(a) b.append(view(b, 2, 4))", b, "01234567892345");
  }
  if(!which || which == 'b')
  {
    Buffer b((const byte*)"0123456789", 10);
    b.assign((const byte*)b + 2, 6); // memcpy(buffer, buffer + 2, 6): overlapping
    expect("(b) b.assign(b + 2, 6)", b, "234567");
  }
  if(!which || which == 'c')
  {
    Buffer b((const byte*)"0123456789", 10);
    b.removeFront(2);
    b = b; // memcpy(buffer, buffer + 2, 8): overlapping
    expect("(b) b.removeFront(2); b = b", b, "23456789");
  }
  if(failed)
  {
    printf("FAIL\n");
    return 1;
  }
  printf("PASS (the overlapping memcpy of case (b) is only visible to a sanitizer on this C library)\n");
  return 0;
}
