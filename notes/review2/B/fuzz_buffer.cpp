// differential fuzz of Buffer against a simple reference model (scratch tool, not a finding by itself)
#include <stdio.h>
#include <stdlib.h>
#include <string.h>
#define private public
#include <nstd/Buffer.hpp>
#undef private

struct Model
{
  unsigned char d[4096];
  size_t n;
  unsigned char known[4096]; // 1 = byte value specified
};

static int fails = 0;
static const char* lastop = "";
static unsigned long iter = 0;

static void check(Buffer& b, Model& m, const char* what)
{
  if(b.size() != m.n)
  {
    printf("FAIL[%lu] %s after %s: size %zu expected %zu\n", iter, what, lastop, (size_t)b.size(), m.n);
    ++fails;
    return;
  }
  const byte* p = b;
  for(size_t i = 0; i < m.n; ++i)
    if(m.known[i] && p[i] != m.d[i])
    {
      printf("FAIL[%lu] %s after %s: byte %zu is %d expected %d\n", iter, what, lastop, i, p[i], m.d[i]);
      ++fails;
      return;
    }
  if(b.buffer)
  {
    if(p[m.n] != 0)
    {
      printf("FAIL[%lu] %s after %s: terminator missing (size %zu)\n", iter, what, lastop, m.n);
      ++fails;
    }
    if(b.bufferStart < b.buffer || b.bufferEnd > b.buffer + b._capacity)
    {
      printf("FAIL[%lu] %s after %s: range outside allocation\n", iter, what, lastop);
      ++fails;
    }
  }
}

static unsigned rnd(unsigned n) { return (unsigned)rand() % n; }

int main(int argc, char** argv)
{
  unsigned seed = argc > 1 ? atoi(argv[1]) : 1;
  unsigned long rounds = argc > 2 ? atol(argv[2]) : 20000;
  int noOverlap = argc > 3 ? atoi(argv[3]) : 0;
  srand(seed);
  for(unsigned long r = 0; r < rounds && fails < 5; ++r)
  {
    Buffer* b[2];
    Model m[2];
    byte* att[2] = {0, 0}; // attached memory (exact size heap blocks)
    size_t attLen[2] = {0, 0};
    byte* attCopy[2] = {0, 0};
    for(int i = 0; i < 2; ++i)
    {
      b[i] = rnd(2) ? new Buffer() : new Buffer((usize)rnd(6));
      m[i].n = 0;
    }
    int steps = 1 + rnd(12);
    for(int s = 0; s < steps && fails < 5; ++s)
    {
      ++iter;
      int k = rnd(2);
      Buffer& x = *b[k];
      Model& mx = m[k];
      Buffer& y = *b[1 - k];
      Model& my = m[1 - k];
      byte tmp[16];
      size_t len = rnd(7);
      for(size_t i = 0; i < len; ++i)
        tmp[i] = (byte)(1 + rnd(250));
      switch(rnd(19))
      {
      case 0:
        lastop = "append(ptr)";
        x.append(tmp, len);
        memcpy(mx.d + mx.n, tmp, len);
        memset(mx.known + mx.n, 1, len);
        mx.n += len;
        break;
      case 1:
        lastop = "prepend(ptr)";
        x.prepend(tmp, len);
        memmove(mx.d + len, mx.d, mx.n);
        memmove(mx.known + len, mx.known, mx.n);
        memcpy(mx.d, tmp, len);
        memset(mx.known, 1, len);
        mx.n += len;
        break;
      case 2:
        lastop = "assign(ptr)";
        x.assign(tmp, len);
        memcpy(mx.d, tmp, len);
        memset(mx.known, 1, len);
        mx.n = len;
        break;
      case 3:
      {
        lastop = "resize";
        size_t n = rnd(12);
        x.resize(n);
        if(n > mx.n)
          memset(mx.known + mx.n, 0, n - mx.n);
        mx.n = n;
        break;
      }
      case 4:
        lastop = "reserve";
        x.reserve(rnd(14));
        break;
      case 5:
      {
        lastop = "removeFront";
        size_t n = rnd(8);
        x.removeFront(n);
        if(n >= mx.n)
          mx.n = 0;
        else
        {
          memmove(mx.d, mx.d + n, mx.n - n);
          memmove(mx.known, mx.known + n, mx.n - n);
          mx.n -= n;
        }
        break;
      }
      case 6:
      {
        lastop = "removeBack";
        size_t n = rnd(8);
        x.removeBack(n);
        mx.n = n >= mx.n ? 0 : mx.n - n;
        break;
      }
      case 7:
        lastop = "clear";
        x.clear();
        mx.n = 0;
        break;
      case 8:
        lastop = "free";
        x.free();
        mx.n = 0;
        break;
      case 9:
      {
        lastop = "swap";
        x.swap(y);
        Model t = mx;
        mx = my;
        my = t;
        break;
      }
      case 10:
        lastop = "operator=";
        x = y;
        mx = my;
        break;
      case 11:
        lastop = "append(Buffer)";
        x.append(y);
        memcpy(mx.d + mx.n, my.d, my.n);
        memcpy(mx.known + mx.n, my.known, my.n);
        mx.n += my.n;
        break;
      case 12:
        lastop = "prepend(Buffer)";
        x.prepend(y);
        memmove(mx.d + my.n, mx.d, mx.n);
        memmove(mx.known + my.n, mx.known, mx.n);
        memcpy(mx.d, my.d, my.n);
        memcpy(mx.known, my.known, my.n);
        mx.n += my.n;
        break;
      case 13:
        if(mx.n)
        { // own range
          size_t off = rnd((unsigned)mx.n), l = rnd((unsigned)(mx.n - off) + 1);
          byte save[4096], ksave[4096];
          memcpy(save, mx.d + off, l);
          memcpy(ksave, mx.known + off, l);
          int which = rnd(noOverlap ? 2 : 3);
          if(which == 0)
          {
            lastop = "append(own)";
            x.append((const byte*)x + off, l);
            memcpy(mx.d + mx.n, save, l);
            memcpy(mx.known + mx.n, ksave, l);
            mx.n += l;
          }
          else if(which == 1)
          {
            lastop = "prepend(own)";
            x.prepend((const byte*)x + off, l);
            memmove(mx.d + l, mx.d, mx.n);
            memmove(mx.known + l, mx.known, mx.n);
            memcpy(mx.d, save, l);
            memcpy(mx.known, ksave, l);
            mx.n += l;
          }
          else
          {
            lastop = "assign(own)";
            x.assign((const byte*)x + off, l);
            memcpy(mx.d, save, l);
            memcpy(mx.known, ksave, l);
            mx.n = l;
          }
        }
        break;
      case 14:
        lastop = "self append";
        x.append(x);
        memcpy(mx.d + mx.n, mx.d, mx.n);
        memcpy(mx.known + mx.n, mx.known, mx.n);
        mx.n *= 2;
        break;
      case 15:
        lastop = "self prepend";
        x.prepend(x);
        memcpy(mx.d + mx.n, mx.d, mx.n);
        memcpy(mx.known + mx.n, mx.known, mx.n);
        mx.n *= 2;
        break;
      case 16:
        lastop = "self assign";
        if(!noOverlap) x = x;
        break;
      case 17:
      {
        lastop = "copy ctor";
        Buffer* c = new Buffer(y);
        delete b[k];
        b[k] = c;
        mx = my;
        break;
      }
      case 18:
        if(!att[k] && b[1 - k]->bufferStart != att[k]) // attach x to fresh exact-size memory
        {
          lastop = "attach";
          attLen[k] = len;
          att[k] = (byte*)malloc(len ? len : 1);
          attCopy[k] = (byte*)malloc(len ? len : 1);
          memcpy(att[k], tmp, len);
          memcpy(attCopy[k], tmp, len);
          if(len == 0)
          {
            free(att[k]);
            att[k] = (byte*)malloc(1);
          }
          x.attach(att[k], len);
          memcpy(mx.d, tmp, len);
          memset(mx.known, 1, len);
          mx.n = len;
        }
        break;
      }
      check(*b[0], m[0], "b0");
      check(*b[1], m[1], "b1");
      // swap may have moved attachments around: just verify all attached memory blocks are unchanged
      for(int i = 0; i < 2; ++i)
        if(att[i] && memcmp(att[i], attCopy[i], attLen[i]) != 0)
        {
          // attached memory may be legitimately changed? no operation in this test writes through an attached buffer
          printf("FAIL[%lu] attached memory %d changed after %s\n", iter, i, lastop);
          ++fails;
        }
    }
    delete b[0];
    delete b[1];
    for(int i = 0; i < 2; ++i)
    {
      free(att[i]);
      free(attCopy[i]);
    }
  }
  if(fails)
  {
    printf("FAIL\n");
    return 1;
  }
  printf("ok\n");
  return 0;
}
