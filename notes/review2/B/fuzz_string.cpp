// differential fuzz of String against a simple reference model (scratch tool, not a finding by itself)
#include <stdio.h>
#include <stdlib.h>
#include <string.h>
#include <ctype.h>
#define private public
#include <nstd/String.hpp>
#undef private
#include <nstd/List.hpp>

struct Model
{
  char d[8192];
  size_t n;
};

static int fails = 0;
static const char* lastop = "";
static unsigned long iter = 0;
static unsigned rnd(unsigned n) { return (unsigned)rand() % n; }

#define NV 3
static String* s[NV];
static Model m[NV];

static void failmsg(const char* what, int i)
{
  printf("FAIL[%lu] %s (var %d) after %s\n", iter, what, i, lastop);
  ++fails;
}

static bool nulfree(const Model& a) { return memchr(a.d, 0, a.n) == 0; }

static void checkAll()
{
  for(int i = 0; i < NV; ++i)
  {
    if(s[i]->length() != m[i].n)
    {
      printf("FAIL[%lu] var %d after %s: length %zu expected %zu\n", iter, i, lastop, (size_t)s[i]->length(), m[i].n);
      ++fails;
      continue;
    }
    if(memcmp(s[i]->data->str, m[i].d, m[i].n) != 0)
    {
      printf("FAIL[%lu] var %d after %s: bytes differ: got '%.*s' expected '%.*s'\n", iter, i, lastop, (int)m[i].n, s[i]->data->str, (int)m[i].n, m[i].d);
      ++fails;
      continue;
    }
    if(s[i]->data->ref && s[i]->data->str[m[i].n] != 0)
      failmsg("owned data not terminated", i);
    if(rnd(4) == 0)
    {
      const char* p = *(const String*)s[i];
      if(p[m[i].n] != 0 || memcmp(p, m[i].d, m[i].n) != 0)
        failmsg("c-string view wrong", i);
    }
  }
}

static const char alphabet[] = "abAB ,x";
static size_t randBytes(char* out, size_t max, bool allowNul)
{
  size_t len = rnd((unsigned)max + 1);
  for(size_t i = 0; i < len; ++i)
    out[i] = (allowNul && rnd(12) == 0) ? 0 : alphabet[rnd(sizeof(alphabet) - 1)];
  out[len] = 0;
  return len;
}

static void mAppend(Model& a, const char* p, size_t l) { memmove(a.d + a.n, p, l); a.n += l; }
static void mPrepend(Model& a, const char* p, size_t l)
{
  char t[8192];
  memcpy(t, p, l);
  memmove(a.d + l, a.d, a.n);
  memcpy(a.d, t, l);
  a.n += l;
}
static void mAssign(Model& a, const char* p, size_t l) { char t[8192]; memcpy(t, p, l); memcpy(a.d, t, l); a.n = l; }

static int sign(int v) { return v < 0 ? -1 : v > 0 ? 1 : 0; }

static int mCompare(const Model& a, const Model& b)
{
  size_t l = a.n < b.n ? a.n : b.n;
  int r = memcmp(a.d, b.d, l);
  if(r) return sign(r);
  return a.n < b.n ? -1 : a.n > b.n ? 1 : 0;
}

static void mReplace(Model& a, const Model& needle, const Model& rep)
{
  if(needle.n == 0) return;
  char out[8192];
  size_t o = 0;
  for(size_t i = 0; i < a.n;)
  {
    if(i + needle.n <= a.n && memcmp(a.d + i, needle.d, needle.n) == 0)
    {
      memcpy(out + o, rep.d, rep.n);
      o += rep.n;
      i += needle.n;
    }
    else
      out[o++] = a.d[i++];
  }
  memcpy(a.d, out, o);
  a.n = o;
}

static char literal0[] = "ab, AB";
static char literal1[] = "";
static char literal2[] = "x";
static char literal3[] = "a,b,,A B ";

int main(int argc, char** argv)
{
  unsigned seed = argc > 1 ? atoi(argv[1]) : 1;
  unsigned long rounds = argc > 2 ? atol(argv[2]) : 5000;
  bool allowNul = argc > 3 ? atoi(argv[3]) != 0 : false;
  bool noView = argc > 4 ? atoi(argv[4]) != 0 : false;
  srand(seed);
  for(unsigned long r = 0; r < rounds && fails < 5; ++r)
  {
    char* attached[64];
    int nAttached = 0;
    for(int i = 0; i < NV; ++i)
    {
      s[i] = new String();
      m[i].n = 0;
    }
    int steps = 1 + rnd(14);
    for(int st = 0; st < steps && fails < 5; ++st)
    {
      ++iter;
      int k = rnd(NV), j = rnd(NV);
      String& x = *s[k];
      Model& mx = m[k];
      String& y = *s[j];
      Model& my = m[j];
      char tmp[64];
      size_t len = randBytes(tmp, 9, allowNul);
      Model arg;
      switch(rnd(34))
      {
      case 0:
        lastop = "literal";
        switch(rnd(4))
        {
        case 0: x = String(literal0); mAssign(mx, literal0, sizeof(literal0) - 1); break;
        case 1: x = String(literal1); mAssign(mx, literal1, sizeof(literal1) - 1); break;
        case 2: x = String(literal2); mAssign(mx, literal2, sizeof(literal2) - 1); break;
        case 3: x = String(literal3); mAssign(mx, literal3, sizeof(literal3) - 1); break;
        }
        break;
      case 1:
        lastop = "String(ptr,len)";
        x = String(tmp, len);
        mAssign(mx, tmp, len);
        break;
      case 2:
        if(nAttached < 64)
        {
          lastop = "attach";
          char* mem = (char*)malloc(len + 1);
          memcpy(mem, tmp, len);
          mem[len] = rnd(2) ? 'Z' : 0; // the byte behind the attached range is readable (String peeks at it) but is not part of the string
          attached[nAttached++] = mem;
          x.attach(mem, len);
          mAssign(mx, tmp, len);
        }
        break;
      case 3:
        lastop = "append(String)";
        arg = my;
        x.append(y);
        mAppend(mx, arg.d, arg.n);
        break;
      case 4:
        lastop = "append(ptr,len)";
        x.append(tmp, len);
        mAppend(mx, tmp, len);
        break;
      case 5:
        lastop = "append(char)";
        x.append(tmp[0]);
        mAppend(mx, tmp, 1);
        break;
      case 6:
        lastop = "prepend(String)";
        arg = my;
        x.prepend(y);
        mPrepend(mx, arg.d, arg.n);
        break;
      case 7:
        lastop = "prepend(ptr,len)";
        x.prepend(tmp, len);
        mPrepend(mx, tmp, len);
        break;
      case 8:
        lastop = "operator=";
        arg = my;
        x = y;
        mAssign(mx, arg.d, arg.n);
        break;
      case 9:
      {
        lastop = "resize";
        size_t n = rnd(14);
        x.resize(n);
        if(n > mx.n)
        {
          char* p = x;
          for(size_t i = mx.n; i < n; ++i)
            p[i] = mx.d[i] = 'r';
        }
        mx.n = n;
        break;
      }
      case 10:
        lastop = "reserve";
        x.reserve(rnd(20));
        break;
      case 11:
        lastop = "clear";
        x.clear();
        mx.n = 0;
        break;
      case 12:
      {
        lastop = "replace(char,char)";
        char a = alphabet[rnd(sizeof(alphabet) - 1)], b = alphabet[rnd(sizeof(alphabet) - 1)];
        x.replace(a, b);
        for(size_t i = 0; i < mx.n; ++i)
          if(mx.d[i] == a)
            mx.d[i] = b;
        break;
      }
      case 13:
        if(nulfree(mx) && nulfree(my) && nulfree(m[(j + 1) % NV]) && my.n <= 3)
        {
          lastop = "replace(String,String)";
          Model needle = my, rep = m[(j + 1) % NV];
          if(rep.n > 6) break;
          x.replace(y, *s[(j + 1) % NV]);
          mReplace(mx, needle, rep);
        }
        break;
      case 14:
        lastop = "toLowerCase";
        x.toLowerCase();
        for(size_t i = 0; i < mx.n; ++i) mx.d[i] = (char)tolower((unsigned char)mx.d[i]);
        break;
      case 15:
        lastop = "toUpperCase";
        x.toUpperCase();
        for(size_t i = 0; i < mx.n; ++i) mx.d[i] = (char)toupper((unsigned char)mx.d[i]);
        break;
      case 16:
      {
        lastop = "trim";
        const char* chars = rnd(2) ? " ," : "a ";
        x.trim(chars);
        size_t b = 0, e = mx.n;
        while(b < e && mx.d[b] && strchr(chars, mx.d[b])) ++b;
        while(e > b && mx.d[e - 1] && strchr(chars, mx.d[e - 1])) --e;
        memmove(mx.d, mx.d + b, e - b);
        mx.n = e - b;
        break;
      }
      case 17:
      {
        lastop = "substr";
        ssize start = (ssize)rnd(12) - 4, l = (ssize)rnd(10) - 2;
        arg = my;
        x = y.substr(start, l);
        ssize b = start < 0 ? (ssize)arg.n + start : start;
        if(b < 0) b = 0;
        if(b > (ssize)arg.n) b = arg.n;
        ssize e = l < 0 ? (ssize)arg.n : b + l;
        if(e > (ssize)arg.n) e = arg.n;
        mAssign(mx, arg.d + b, e - b);
        break;
      }
      case 18:
        if(mx.n)
        { // own range
          size_t off = rnd((unsigned)mx.n), l = rnd((unsigned)(mx.n - off) + 1);
          char save[8192];
          memcpy(save, mx.d + off, l);
          if(rnd(2))
          {
            lastop = "append(own range)";
            x.append(x.data->str + off, l);
            mAppend(mx, save, l);
          }
          else
          {
            lastop = "prepend(own range)";
            x.prepend(x.data->str + off, l);
            mPrepend(mx, save, l);
          }
        }
        break;
      case 19:
        if(mx.n && !noView)
        { // a view attached to x's own bytes as argument
          size_t off = rnd((unsigned)mx.n), l = rnd((unsigned)(mx.n - off) + 1);
          char save[8192];
          memcpy(save, mx.d + off, l);
          String v;
          v.attach(x.data->str + off, l);
          switch(rnd(3))
          {
          case 0:
            lastop = "append(view of own bytes)";
            x.append(v);
            mAppend(mx, save, l);
            break;
          case 1:
            lastop = "prepend(view of own bytes)";
            x.prepend(v);
            mPrepend(mx, save, l);
            break;
          case 2:
            lastop = "operator=(view of own bytes)";
            x = v;
            mAssign(mx, save, l);
            break;
          }
          v.attach("", 0);
        }
        break;
      case 20:
        if(nulfree(mx))
        {
          lastop = "printf(self)";
          int num = (int)rnd(1000) - 500;
          char exp[8192];
          bool big = rnd(4) == 0;
          const char* p = *(const String*)&x;
          int res;
          if(big)
          {
            res = x.printf("%s|%250d|%s", p, num, p);
            snprintf(exp, sizeof(exp), "%.*s|%250d|%.*s", (int)mx.n, mx.d, num, (int)mx.n, mx.d);
          }
          else
          {
            res = x.printf("%s|%d", p, num);
            snprintf(exp, sizeof(exp), "%.*s|%d", (int)mx.n, mx.d, num);
          }
          if(strlen(exp) < 4000)
          {
            mAssign(mx, exp, strlen(exp));
            if(res != (int)mx.n) failmsg("printf result", k);
          }
          else
          {
            x.clear();
            mx.n = 0;
          }
        }
        break;
      case 21:
      {
        lastop = "compare/==";
        if(sign(x.compare(y)) != mCompare(mx, my)) failmsg("compare", k);
        bool eq = mx.n == my.n && memcmp(mx.d, my.d, mx.n) == 0;
        if((x == y) != eq) failmsg("==", k);
        if((x != y) != !eq) failmsg("!=", k);
        if((x < y) != (mCompare(mx, my) < 0)) failmsg("<", k);
        if((x >= y) != (mCompare(mx, my) >= 0)) failmsg(">=", k);
        break;
      }
      case 22:
      {
        lastop = "startsWith/endsWith";
        bool sw = mx.n >= my.n && memcmp(mx.d, my.d, my.n) == 0;
        bool ew = mx.n >= my.n && memcmp(mx.d + mx.n - my.n, my.d, my.n) == 0;
        if(x.startsWith(y) != sw) failmsg("startsWith", k);
        if(x.endsWith(y) != ew) failmsg("endsWith", k);
        break;
      }
      case 23:
      {
        lastop = "find(char)";
        char c = alphabet[rnd(sizeof(alphabet) - 1)];
        const char* f = x.find(c);
        const void* e = memchr(mx.d, c, mx.n);
        if((f == 0) != (e == 0) || (f && (size_t)(f - x.data->str) != (size_t)((const char*)e - mx.d))) failmsg("find(char)", k);
        const char* fl = x.findLast(c);
        ssize el = -1;
        for(size_t i = 0; i < mx.n; ++i) if(mx.d[i] == c) el = i;
        if((fl == 0) != (el < 0) || (fl && fl - x.data->str != el)) failmsg("findLast(char)", k);
        break;
      }
      case 24:
        if(nulfree(mx) && nulfree(my))
        {
          lastop = "find(str)";
          char a[8192], b[8192];
          memcpy(a, mx.d, mx.n); a[mx.n] = 0;
          memcpy(b, my.d, my.n); b[my.n] = 0;
          const char* yb = *(const String*)&y;
          const char* f = x.find(yb);
          const char* e = strstr(a, b);
          const char* base = *(const String*)&x;
          if((f == 0) != (e == 0) || (f && f - base != e - a)) failmsg("find(str)", k);
          const char* fl = x.findLast(yb);
          const char* el = 0;
          for(const char* q = a; (q = strstr(q, b)); ++q) { el = q; if(!*q) break; }
          base = *(const String*)&x;
          if((fl == 0) != (el == 0) || (fl && fl - base != el - a)) failmsg("findLast(str)", k);
          size_t start = rnd((unsigned)mx.n + 2);
          const char* fs = x.find(yb, start);
          const char* es = start <= mx.n ? strstr(a + start, b) : 0;
          if(start >= mx.n) es = fs ? es : 0; // start == length: library answers "not found" also for the empty needle; not judged here
          base = *(const String*)&x;
          if((fs == 0) != (es == 0) || (fs && fs - base != es - a)) failmsg("find(str,start)", k);
          const char* fo = x.findOneOf(" ,");
          const char* eo = strpbrk(a, " ,");
          if((fo == 0) != (eo == 0) || (fo && fo - base != eo - a)) failmsg("findOneOf", k);
          const char* flo = x.findLastOf(" ,");
          const char* elo = 0;
          for(const char* q = a; *q; ++q) if(strchr(" ,", *q)) elo = q;
          if((flo == 0) != (elo == 0) || (flo && flo - base != elo - a)) failmsg("findLastOf", k);
        }
        break;
      case 25:
      {
        lastop = "equalsIgnoreCase";
        bool eq = mx.n == my.n;
        for(size_t i = 0; eq && i < mx.n; ++i)
          if(tolower((unsigned char)mx.d[i]) != tolower((unsigned char)my.d[i])) eq = false;
        if(x.equalsIgnoreCase(y) != eq) failmsg("equalsIgnoreCase", k);
        break;
      }
      case 26:
        if(nulfree(mx))
        {
          lastop = "split/join";
          List<String> tokens;
          bool skipEmpty = rnd(2) != 0;
          x.split(tokens, ",", skipEmpty);
          // model
          char exp[8192];
          size_t eo = 0;
          size_t count = 0;
          size_t b = 0;
          for(size_t i = 0; i <= mx.n; ++i)
            if(i == mx.n || mx.d[i] == ',')
            {
              if(i > b || !skipEmpty)
              {
                if(count) exp[eo++] = ';';
                memcpy(exp + eo, mx.d + b, i - b);
                eo += i - b;
                ++count;
              }
              b = i + 1;
            }
          if(tokens.size() != count) failmsg("split count", k);
          y.join(tokens, ';');
          mAssign(my, exp, eo);
        }
        break;
      case 27:
        if(nulfree(mx))
        {
          lastop = "token";
          usize start = rnd((unsigned)mx.n + 1), start0 = start;
          String t = rnd(2) ? x.token(',', start) : x.token(", ", start);
          (void)start0;
          s[(k + 1) % NV]->operator=(t);
          Model& mt = m[(k + 1) % NV];
          mAssign(mt, (const char*)t, t.length());
        }
        break;
      case 28:
        lastop = "copy ctor";
        {
          String* c = new String(y);
          arg = my;
          delete s[k];
          s[k] = c;
          mAssign(m[k], arg.d, arg.n);
        }
        break;
      case 29:
        lastop = "operator+";
        arg = my;
        {
          String sum = x + y;
          Model ms = mx;
          mAppend(ms, arg.d, arg.n);
          *s[(k + 1) % NV] = sum;
          m[(k + 1) % NV] = ms;
        }
        break;
      case 30:
        if(nulfree(mx) && nulfree(my) && my.n <= 3 && my.n > 0)
        {
          lastop = "replace(needle, self)";
          Model needle = my, rep = mx;
          if(rep.n > 8) break;
          x.replace(y, x);
          mReplace(mx, needle, rep);
        }
        break;
      case 31:
        if(nulfree(mx))
        {
          lastop = "replace(self, y)";
          Model needle = mx, rep = my;
          if(rep.n > 8) break;
          x.replace(x, y);
          mReplace(mx, needle, rep);
        }
        break;
      case 32:
      {
        lastop = "operator char*";
        char* p = x;
        if(mx.n)
        {
          size_t i = rnd((unsigned)mx.n);
          p[i] = mx.d[i] = 'w';
        }
        break;
      }
      case 33:
        lastop = "trim(own chars)";
        if(nulfree(mx))
        {
          char chars[8192];
          memcpy(chars, mx.d, mx.n);
          chars[mx.n] = 0;
          const char* p = *(const String*)&x;
          x.trim(p);
          size_t b = 0, e = mx.n;
          while(b < e && mx.d[b] && strchr(chars, mx.d[b])) ++b;
          while(e > b && mx.d[e - 1] && strchr(chars, mx.d[e - 1])) --e;
          memmove(mx.d, mx.d + b, e - b);
          mx.n = e - b;
        }
        break;
      }
      for(int i = 0; i < NV; ++i)
        if(m[i].n > 3000)
        {
          s[i]->clear();
          m[i].n = 0;
        }
      checkAll();
    }
    for(int i = 0; i < NV; ++i)
      delete s[i];
    for(int i = 0; i < nAttached; ++i)
      free(attached[i]);
  }
  if(fails)
  {
    printf("FAIL\n");
    return 1;
  }
  printf("ok\n");
  return 0;
}
