// [C06] String::find(const char* str, usize start) answers "not found" for the empty needle at
// start == length() (and for every start on the empty string), while find(str), findLast(str) and
// find(str, start) with start < length() all report the empty needle as found at the position asked for.
//
// g++ -std=c++11 -g -I/tmp/rw_B/include string_find_start_at_end.cpp /tmp/rw_B_build/libnstd_plain.a -lpthread -ldl
#include <stdio.h>
#include <nstd/String.hpp>

static int failed = 0;

static void check(bool ok, const char* what)
{
  printf("%-75s %s\n", what, ok ? "ok" : "WRONG");
  if(!ok)
    failed = 1;
}

int main()
{
  String s = String::fromCString("abc");
  const char* base = s;
  check(s.find("") == base, "\"abc\".find(\"\") == begin");
  check(s.find("", (usize)1) == base + 1, "\"abc\".find(\"\", 1) == begin + 1");
  check(s.find("", (usize)2) == base + 2, "\"abc\".find(\"\", 2) == begin + 2");
  check(s.findLast("") == base + 3, "\"abc\".findLast(\"\") == begin + 3 (the end is a match position)");
  check(s.find("", (usize)3) == base + 3, "\"abc\".find(\"\", 3) == begin + 3");

  String e;
  check(e.find("") != 0, "\"\".find(\"\") is found");
  check(e.find("", (usize)0) != 0, "\"\".find(\"\", 0) is found");

  if(failed)
  {
    printf("FAIL\n");
    return 1;
  }
  printf("PASS\n");
  return 0;
}
