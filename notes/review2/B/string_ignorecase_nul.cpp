// [C06] String::equalsIgnoreCase / compareIgnoreCase / compare(other, len) end at the first NUL byte,
// although a String is length delimited (==, !=, compare(), toLowerCase() ... use the length).
//
// g++ -std=c++11 -g -I/tmp/rw_B/include string_ignorecase_nul.cpp /tmp/rw_B_build/libnstd_plain.a -lpthread -ldl
#include <stdio.h>
#include <nstd/String.hpp>

static int failed = 0;

static void check(bool ok, const char* what)
{
  printf("%-75s %s\n", what, ok ? "ok" : "WRONG");
  if(!ok)
    failed = 1;
}

int main()
{
  String a("key\0one", 7);
  String b("KEY\0two", 7);
  String la(a), lb(b);
  la.toLowerCase();
  lb.toLowerCase();

  check(a != b, "a = \"key\\0one\", b = \"KEY\\0two\": a != b");
  check(la != lb, "a.toLowerCase() != b.toLowerCase()");
  check(la.compare(lb) < 0, "a.toLowerCase().compare(b.toLowerCase()) < 0");
  // the case-insensitive queries must agree with the comparison of the case-mapped strings
  check(!a.equalsIgnoreCase(b), "a.equalsIgnoreCase(b) is false");
  check(a.compareIgnoreCase(b) < 0, "a.compareIgnoreCase(b) < 0");
  check(a.compareIgnoreCase(b, 7) < 0, "a.compareIgnoreCase(b, 7) < 0");
  check(!a.equalsIgnoreCase(b, 7), "a.equalsIgnoreCase(b, 7) is false");
  check(la.compare(lb, 7) < 0, "a.toLowerCase().compare(b.toLowerCase(), 7) < 0");

  // shorter against longer: equal up to the NUL
  String c("ab", 2), d("ab\0x", 4);
  check(c.compare(d) < 0, "\"ab\".compare(\"ab\\0x\") < 0");
  check(c.compareIgnoreCase(d) < 0, "\"ab\".compareIgnoreCase(\"ab\\0x\") < 0");

  if(failed)
  {
    printf("FAIL\n");
    return 1;
  }
  printf("PASS\n");
  return 0;
}
