// [C07]/[C09] A Variant copied into the container obtained from its own mutable accessor
// (v.toList().append(v), v.toMap().append(key, v), v.toArray().append(v), v.toList().front() = v,
// and the same for Xml::Variant::toElement().content) shares the payload that is being modified in place:
// the stored copy changes together with v, the payload refers to itself, comparing recurses without end
// and the payload is never released.
//
// g++ -std=c++11 -g -I/tmp/rw_B/include variant_self_nesting.cpp /tmp/rw_B_build/libnstd_plain.a -lpthread -ldl
#include <stdio.h>
#include <unistd.h>
#include <sys/wait.h>
#include <sys/resource.h>
#include "poison_alloc.h"
#include <nstd/Variant.hpp>
#include <nstd/Document/Xml.hpp>

static int failed = 0;

static void check(bool ok, const char* what)
{
  printf("%-90s %s\n", what, ok ? "ok" : "WRONG");
  if(!ok)
    failed = 1;
}

int main()
{
  setvbuf(stdout, 0, _IONBF, 0);
  usize before = liveBlocks;
  {
    Variant v;
    v.toList().append(Variant(1)); // v = [1]
    Variant snapshot(v);           // an independent copy for comparison: [1]
    v.toList().append(v);          // append the current value of v to v: expected v = [1, [1]]

    const List<Variant>& outer = ((const Variant&)v).toList();
    check(outer.size() == 2, "v.toList().append(v): v has 2 elements");
    const Variant& inner = outer.back();
    check(inner.getType() == Variant::listType, "  the new element is a list");
    printf("  size of the new element: %d (expected 1)\n", (int)inner.toList().size());
    check(inner.toList().size() == 1, "  the new element holds the value v had when it was copied, [1]");
    check(snapshot.toList().size() == 1, "  a copy taken before is unchanged");
    check(&inner.toList() != &outer, "  the new element is not the very list it is stored in");

    // v == copy of v recurses without end: run it in a child process with a small stack
    pid_t pid = fork();
    if(pid == 0)
    {
      struct rlimit rl = {1 << 20, 1 << 20};
      setrlimit(RLIMIT_STACK, &rl);
      Variant copy(v);
      bool eq = copy == v;
      _exit(eq ? 0 : 3);
    }
    int status = 0;
    waitpid(pid, &status, 0);
    if(WIFSIGNALED(status))
      printf("  Variant copy(v); copy == v  -> child killed by signal %d (stack exhausted)\n", WTERMSIG(status));
    check(WIFEXITED(status) && WEXITSTATUS(status) == 0, "  v compares equal to a copy of itself");
  }
  printf("  heap blocks still allocated after all Variants are gone: %d (expected 0)\n", (int)(liveBlocks - before));
  check(liveBlocks == before, "  the payload is released after its last handle has gone");

  before = liveBlocks;
  {
    Variant m;
    m.toMap().append("a", Variant(1));
    m.toMap().append("self", m); // expected {a: 1, self: {a: 1}}
    const Variant& inner = *((const Variant&)m).toMap().find("self");
    printf("  size of m[\"self\"]: %d (expected 1)\n", (int)inner.toMap().size());
    check(inner.toMap().size() == 1, "m.toMap().append(\"self\", m): the stored copy holds {a: 1}");
  }
  check(liveBlocks == before, "  the payload is released after its last handle has gone");

  before = liveBlocks;
  {
    Xml::Variant x;
    x.toElement().type = "node";
    x.toElement().content.append(x); // expected <node><node/></node>
    const Xml::Element& outer = ((const Xml::Variant&)x).toElement();
    const Xml::Element& inner = outer.content.back().toElement();
    printf("  children of the stored copy: %d (expected 0)\n", (int)inner.content.size());
    check(inner.content.size() == 0, "x.toElement().content.append(x): the stored copy is the childless <node/>");
  }
  check(liveBlocks == before, "  the payload is released after its last handle has gone");

  if(failed)
  {
    printf("FAIL\n");
    return 1;
  }
  printf("PASS\n");
  return 0;
}
