// C14: a timer with the largest interval ("never"): Time::ticks() + interval overflows to a due time far in the
// past that sorts first in the queue; the wait time derived from it overflows again and truncates to -1 in
// epoll_wait(), so run() blocks for ever and no other timer is activated any more.
#include <stdio.h>
#include <signal.h>
#include <unistd.h>
#include <nstd/Socket/Server.hpp>

static Server* server;
static int activations = 0;
struct Never : public Server::Timer::ICallback { virtual void onActivated() { ++activations; } };
struct Stop : public Server::Timer::ICallback { virtual void onActivated() { server->interrupt(); } };

static void watchdog(int)
{
  const char msg[] = "FAIL: the 100 ms timer was not activated within 3 s\n";
  (void)!write(1, msg, sizeof(msg) - 1);
  _exit(1);
}

int main()
{
  signal(SIGALRM, watchdog);
  alarm(3);
  Server s; server = &s;
  Never never; Stop stop;
  s.time(0x7fffffffffffffffLL, never); // "never"
  s.time(100, stop);
  s.run();
  if(activations)
  {
    printf("FAIL: timer with interval INT64_MAX was activated %d time(s) within 100 ms\n", activations);
    return 1;
  }
  printf("ok\n");
  return 0;
}
