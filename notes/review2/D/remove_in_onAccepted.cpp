// C14: Server::remove(client) from inside onAccepted/onConnected is only honoured when the callback also
// returns null; otherwise the "removed" client stays registered and later receives onClosed (and onRead).
#include <stdio.h>
#include <stdlib.h>
#include <nstd/Socket/Server.hpp>
#include <nstd/Socket/Socket.hpp>

static Server* server;
static bool removedReturned = false;
static int callbacksAfterRemove = 0;

struct Handler : public Server::Client::ICallback
{
  const char* name;
  Server::Client* client;
  Handler(const char* name) : name(name), client(0) {}
  virtual void onRead()
  {
    if(removedReturned) { ++callbacksAfterRemove; printf("%s: onRead after remove() returned\n", name); }
    byte buf[16]; usize size; client->read(buf, sizeof(buf), size); // the "removed" client is still alive inside the server
  }
  virtual void onWrite() { if(removedReturned) { ++callbacksAfterRemove; printf("%s: onWrite after remove() returned\n", name); } }
  virtual void onClosed() { if(removedReturned) { ++callbacksAfterRemove; printf("%s: onClosed after remove() returned\n", name); } }
};

static Handler accepted("accepted client");

struct Listener : public Server::Listener::ICallback
{
  virtual Server::Client::ICallback* onAccepted(Server::Client& client, uint32, uint16)
  {
    server->remove(client); // e.g. a handler that gives up after a failed greeting
    removedReturned = true;
    accepted.client = &client;
    return &accepted;
  }
};

struct Stop : public Server::Timer::ICallback { virtual void onActivated() { server->interrupt(); } };

int main()
{
  Server s; server = &s;
  Listener l;
  if(!s.listen(Socket::loopbackAddress, 41877, l)) { printf("listen failed\n"); return 2; }
  Socket peer;
  if(!peer.open() || !peer.connect(Socket::loopbackAddress, 41877)) { printf("connect failed\n"); return 2; }
  peer.send((const byte*)"x", 1);
  Stop stop;
  s.time(200, stop);
  s.run();
  if(callbacksAfterRemove)
  {
    printf("FAIL: %d callback(s) for a client after Server::remove(client) had returned\n", callbacksAfterRemove);
    return 1;
  }
  printf("ok\n");
  return 0;
}
