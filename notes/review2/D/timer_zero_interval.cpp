// C14: Server::time(0, cb) - run() never reaches poll() again, so interrupt(), sockets and other timers are dead.
#include <stdio.h>
#include <stdlib.h>
#include <unistd.h>
#include <nstd/Socket/Server.hpp>

static Server* server;
static int activations = 0;

struct Zero : public Server::Timer::ICallback
{
  virtual void onActivated()
  {
    if(++activations == 1)
      server->interrupt(); // "interrupt() ... during run makes the current run() return"
    if(activations == 1000000)
    {
      printf("FAIL: timer with interval 0 was activated %d times within one run() turn; interrupt() was ignored, run() never returns\n", activations);
      fflush(stdout);
      _exit(1);
    }
  }
};

int main()
{
  Server s; server = &s;
  Zero z;
  s.time(0, z);
  s.run();
  printf("ok: run() returned after %d activation(s)\n", activations);
  return 0;
}
