// C13 stress: interpose send(2) so that every outcome (EAGAIN, partial, full) can be scripted,
// and compare what the "operating system" got with what Client::write accepted.
#include <stdio.h>
#include <stdlib.h>
#include <string.h>
#include <errno.h>
#include <unistd.h>
#include <sys/types.h>
#include <sys/socket.h>
#include <nstd/Socket/Server.hpp>
#include <nstd/Socket/Socket.hpp>

static int serverFd = -1;
static unsigned char* osGot = 0; static size_t osGotLen = 0;
static unsigned char* accepted = 0; static size_t acceptedLen = 0;
static int fails = 0;
static int mode = 0;

extern "C" ssize_t send(int fd, const void* buf, size_t len, int flags)
{
  if(fd != serverFd)
    return sendto(fd, buf, len, flags, 0, 0);
  int r = rand() % 10;
  size_t n;
  if(r < 3) { errno = EAGAIN; return -1; }
  else if(r < 8 && len > 0) n = 1 + rand() % len;
  else n = len;
  memcpy(osGot + osGotLen, buf, n);
  osGotLen += n;
  return (ssize_t)n;
}

struct Handler : public Server::Client::ICallback, public Server::Timer::ICallback
{
  Server& server;
  Server::Client* client;
  Socket peer;
  int ticks;
  int onWrites;
  int drains; // expected onWrite count
  bool hadBacklog;
  unsigned char next;
  int readsWhileSuspended;

  Handler(Server& server) : server(server), client(0), ticks(0), onWrites(0), drains(0), hadBacklog(false), next(0), readsWhileSuspended(0) {}

  void doWrite()
  {
    size_t size = 1 + rand() % 3000;
    unsigned char buf[3000];
    for(size_t i = 0; i < size; ++i) buf[i] = next + (unsigned char)i * 7;
    usize postponed = 12345;
    size_t before = osGotLen;
    (void)before;
    if(client->write(buf, size, &postponed))
    {
      memcpy(accepted + acceptedLen, buf, size);
      acceptedLen += size;
      next += 13;
      if(postponed != acceptedLen - osGotLen) { printf("FAIL postponed %u != %u\n", (unsigned)postponed, (unsigned)(acceptedLen - osGotLen)); ++fails; }
      if(client->getSendBufferSize() != acceptedLen - osGotLen) { printf("FAIL getSendBufferSize\n"); ++fails; }
      if(postponed) hadBacklog = true;
    }
    else { printf("FAIL write returned false\n"); ++fails; }
  }

  virtual void onActivated()
  {
    ++ticks;
    if(ticks > 400) { if(ticks == 401) server.interrupt(); return; }
    int r = rand() % 10;
    if(r < 5) doWrite();
    else if(r < 6) client->suspend();
    else if(r < 7) client->resume();
    else if(r < 9) { byte b[10]; peer.send(b, 10); }
  }
  virtual void onRead()
  {
    if(client->isSuspended()) { printf("FAIL onRead while suspended\n"); ++fails; }
    byte buf[100]; usize size;
    client->read(buf, sizeof(buf), size);
    if(rand() % 3 == 0) doWrite();
    if(rand() % 5 == 0) client->suspend();
  }
  virtual void onWrite()
  {
    ++onWrites;
    if(acceptedLen != osGotLen) { printf("FAIL onWrite with backlog %u\n", (unsigned)(acceptedLen - osGotLen)); ++fails; }
    if(client->getSendBufferSize() != 0) { printf("FAIL onWrite sendbuffersize\n"); ++fails; }
    if(!hadBacklog) { printf("FAIL onWrite without preceding backlog\n"); ++fails; }
    hadBacklog = false;
    if(rand() % 2 == 0) doWrite();
  }
  virtual void onClosed() { printf("FAIL onClosed\n"); ++fails; }
};

int main(int argc, char** argv)
{
  osGot = (unsigned char*)malloc(64 << 20);
  accepted = (unsigned char*)malloc(64 << 20);
  int seed0 = argc > 1 ? atoi(argv[1]) : 1;
  for(int seed = seed0; seed < seed0 + 40 && !fails; ++seed)
  {
    srand(seed);
    osGotLen = acceptedLen = 0;
    Server server;
    Handler h(server);
    h.client = server.pair(h, h.peer);
    if(!h.client) { printf("pair failed\n"); return 2; }
    serverFd = (int)h.client->getSocket().getFileDescriptor();
    server.time(1, h);
    server.run();
    // drain: resume irrelevant for writes; run until backlog is gone
    struct Stop : public Server::Timer::ICallback { Server& s; Handler& h; int n; Stop(Server& s, Handler& h) : s(s), h(h), n(0) {} virtual void onActivated() { if(acceptedLen == osGotLen || ++n > 2000) s.interrupt(); } } stop(server, h);
    server.time(1, stop);
    server.run();
    if(acceptedLen != osGotLen) { printf("FAIL backlog never drained: %u vs %u\n", (unsigned)acceptedLen, (unsigned)osGotLen); ++fails; }
    else if(memcmp(accepted, osGot, osGotLen) != 0) { printf("FAIL data differs\n"); ++fails; }
    if(h.hadBacklog) { printf("FAIL drained without onWrite\n"); ++fails; }
    if(fails) printf("seed %d\n", seed);
    serverFd = -1;
  }
  if(fails) { printf("FAIL\n"); return 1; }
  printf("ok\n");
  return 0;
}
