// Side note (CPU only): a suspended client without backlog is registered with no events; when its peer hangs up,
// epoll reports EPOLLHUP anyway, Poll::poll() hands out an event with flags 0 and Server::run() busy-loops until resume().
#include <stdio.h>
#include <stdlib.h>
#include <time.h>
#include <nstd/Socket/Server.hpp>
#include <nstd/Socket/Socket.hpp>

static Server* server;
struct Handler : public Server::Client::ICallback
{
  virtual void onRead() {}
  virtual void onWrite() {}
  virtual void onClosed() {}
};
struct Stop : public Server::Timer::ICallback { virtual void onActivated() { server->interrupt(); } };

int main()
{
  Server s; server = &s;
  Handler h; Socket peer;
  Server::Client* c = s.pair(h, peer);
  c->suspend();
  peer.close();
  Stop stop;
  s.time(500, stop);
  clock_t begin = clock();
  s.run();
  double cpu = (double)(clock() - begin) / CLOCKS_PER_SEC;
  printf("cpu time used during a 500 ms idle run(): %.0f ms\n", cpu * 1000);
  if(cpu > 0.25) { printf("FAIL: run() busy-loops\n"); return 1; }
  printf("ok\n");
  return 0;
}
