// fuzz MultiMap<int64,int*> the way Server uses it: insert, find, remove(it), removeFront
#include <stdio.h>
#include <stdlib.h>
#define private public
#include <nstd/MultiMap.hpp>
#undef private

typedef MultiMap<int64, int> MM;

static int fails = 0;

static int checkTree(MM::Item* item, MM::Item* parent, MM::Item**& listPos, MM::Item** listEnd)
{
  if(!item) return 0;
  if(item->parent != parent) { printf("FAIL parent link\n"); ++fails; }
  int lh = checkTree(item->left, item, listPos, listEnd);
  if(listPos == listEnd || *listPos != item) { printf("FAIL inorder != list\n"); ++fails; }
  else ++listPos;
  int rh = checkTree(item->right, item, listPos, listEnd);
  int h = (lh > rh ? lh : rh) + 1;
  if((int)item->height != h) { printf("FAIL height %d != %d\n", (int)item->height, h); ++fails; }
  if(lh - rh > 1 || rh - lh > 1) { printf("FAIL balance %d %d\n", lh, rh); ++fails; }
  return h;
}

static void check(MM& m)
{
  static MM::Item* list[100000];
  usize n = 0;
  int64 last = -1000000;
  for(MM::Item* i = m._begin.item; i != &m.endItem; i = i->next)
  {
    if(i->key < last) { printf("FAIL list order\n"); ++fails; }
    last = i->key;
    list[n++] = i;
  }
  if(n != m.size()) { printf("FAIL size\n"); ++fails; }
  MM::Item** pos = list;
  checkTree(m.root, 0, pos, list + n);
  if(pos != list + n) { printf("FAIL tree smaller than list\n"); ++fails; }
  for(usize i = 0; i < n; ++i)
  {
    MM::Iterator it = m.find(list[i]->key);
    if(it == m.end() || it.key() != list[i]->key) { printf("FAIL find\n"); ++fails; }
  }
}

int main(int argc, char** argv)
{
  unsigned seed = argc > 1 ? atoi(argv[1]) : 1;
  for(unsigned s = seed; s < seed + 300 && !fails; ++s)
  {
    srand(s);
    MM m;
    int range = 1 + rand() % 40;
    for(int step = 0; step < 400 && !fails; ++step)
    {
      int op = rand() % 10;
      if(op < 5 || m.isEmpty())
        m.insert(rand() % range, step);
      else if(op < 7)
        m.removeFront();
      else
      {
        // remove a random element
        usize k = rand() % m.size();
        MM::Iterator it = m.begin();
        while(k--) ++it;
        m.remove(it);
      }
      check(m);
      if(fails) printf("seed %u step %d\n", s, step);
    }
  }
  if(fails) { printf("FAIL\n"); return 1; }
  printf("ok\n");
  return 0;
}
