// C14 lifecycle stress with real sockets: listeners, establishers (address and host name), clients;
// everything gets removed from inside random callbacks; no callback may arrive for a removed object.
#include <stdio.h>
#include <stdlib.h>
#include <nstd/Socket/Server.hpp>
#include <nstd/Socket/Socket.hpp>
#include <nstd/Time.hpp>

static int fails = 0;
static Server* server;
static int live = 0, events = 0;

struct Conn : public Server::Client::ICallback
{
  Server::Client* client;
  bool removed;
  bool closedSeen;
  Conn() : client(0), removed(false), closedSeen(false) { ++live; }
  void drop() { if(!removed) { removed = true; server->remove(*client); --live; } }
  void check(const char* what) { ++events; if(removed) { printf("FAIL %s after remove\n", what); ++fails; } }
  virtual void onRead()
  {
    check("onRead");
    if(removed) return;
    byte buf[512]; usize size;
    if(client->isSuspended()) { printf("FAIL onRead while suspended\n"); ++fails; }
    if(!client->read(buf, sizeof(buf), size)) { if(rand() % 2) drop(); return; }
    int r = rand() % 10;
    if(r < 5) { byte out[3000]; for(int i = 0; i < 3000; ++i) out[i] = (byte)i; if(!client->write(out, 1 + rand() % 3000)) { if(rand() % 2) drop(); } }
    else if(r < 6) drop();
    else if(r < 7) client->suspend();
  }
  virtual void onWrite() { check("onWrite"); if(removed) return; if(rand() % 10 == 0) drop(); }
  virtual void onClosed() { check("onClosed"); if(removed) return; closedSeen = true; drop(); }
};

static Conn* conns[4096]; static int nconns = 0;
static Conn* newConn(Server::Client& c) { if(nconns >= 4096) return 0; Conn* x = new Conn; x->client = &c; conns[nconns++] = x; return x; }

struct Lis : public Server::Listener::ICallback
{
  Server::Listener* listener; bool removed;
  Lis() : listener(0), removed(true) {}
  virtual Server::Client::ICallback* onAccepted(Server::Client& client, uint32, uint16)
  {
    ++events;
    if(removed) { printf("FAIL onAccepted after remove\n"); ++fails; }
    int r = rand() % 10;
    if(r == 0) return 0;
    if(r == 1 && !removed) { removed = true; server->remove(*listener); }
    Conn* c = newConn(client);
    if(c && r == 2) { byte b[100] = {0}; client.write(b, 100); }
    if(c && r == 3) client.suspend();
    return c;
  }
};

struct Est : public Server::Establisher::ICallback
{
  Server::Establisher* est; bool removed;
  Est() : est(0), removed(true) {}
  void drop() { if(!removed) { removed = true; server->remove(*est); } }
  virtual Server::Client::ICallback* onConnected(Server::Client& client)
  {
    ++events;
    if(removed) { printf("FAIL onConnected after remove\n"); ++fails; }
    int r = rand() % 4;
    if(r == 0) drop();
    Conn* c = newConn(client);
    if(c) { byte b[2000] = {1}; client.write(b, 1 + rand() % 2000); }
    if(r != 0 && r != 1) drop();
    if(r == 1) { drop(); }
    return c;
  }
  virtual void onAbolished()
  {
    ++events;
    if(removed) { printf("FAIL onAbolished after remove\n"); ++fails; }
    drop();
  }
};

static Lis lis[4]; static Est ests[64];
static uint16 ports[4] = {41871, 41872, 41873, 41874};

struct Driver : public Server::Timer::ICallback
{
  int ticks;
  Driver() : ticks(0) {}
  virtual void onActivated()
  {
    if(++ticks > 1500) { server->interrupt(); return; }
    for(int n = 0; n < 3; ++n)
    {
      int r = rand() % 12;
      if(r < 2) { int k = rand() % 4; if(lis[k].removed) { lis[k].listener = server->listen(Socket::loopbackAddress, ports[k], lis[k]); if(lis[k].listener) lis[k].removed = false; } }
      else if(r < 3) { int k = rand() % 4; if(!lis[k].removed) { lis[k].removed = true; server->remove(*lis[k].listener); } }
      else if(r < 7) { int k = rand() % 64; if(ests[k].removed) { uint16 port = ports[rand() % 4]; if(rand() % 8 == 0) port = 41999;
          ests[k].est = (rand() % 4) ? server->connect(Socket::loopbackAddress, port, ests[k]) : server->connect(String("localhost"), port, ests[k]); if(ests[k].est) ests[k].removed = false; } }
      else if(r < 8) { int k = rand() % 64; ests[k].drop(); }
      else if(r < 10 && nconns) { Conn* c = conns[rand() % nconns]; if(!c->removed) { if(rand() % 2) c->client->resume(); else { byte b[4000] = {2}; if(!c->client->write(b, 1 + rand() % 4000) && rand() % 2) c->drop(); } } }
      else if(nconns) { Conn* c = conns[rand() % nconns]; if(rand() % 4 == 0) c->drop(); }
    }
  }
};

int main(int argc, char** argv)
{
  srand(argc > 1 ? atoi(argv[1]) : 1);
  Server s; server = &s;
  Driver d;
  s.time(1, d);
  s.run();
  printf("events %d conns %d live %d\n", events, nconns, live);
  if(fails) { printf("FAIL\n"); return 1; }
  printf("ok\n");
  return 0;
}
