// C14 timers: many timers with coinciding due times, removed/created from inside callbacks
#include <stdio.h>
#include <stdlib.h>
#include <nstd/Socket/Server.hpp>
#include <nstd/Time.hpp>

static int fails = 0;
struct T;
static T* all[64];
static Server* server;
static int activations = 0;

struct T : public Server::Timer::ICallback
{
  Server::Timer* timer;
  int64 interval;
  int64 due;
  bool removed;
  int slot;
  T() : timer(0), removed(true) {}
  void start(int64 iv) { interval = iv; due = Time::ticks() + iv; timer = server->time(iv, *this); removed = false; }
  void stop() { if(!removed) { server->remove(*timer); removed = true; timer = 0; } }
  virtual void onActivated()
  {
    ++activations;
    int64 now = Time::ticks();
    if(removed) { printf("FAIL callback after remove\n"); ++fails; return; }
    if(now < due) { printf("FAIL before due: %d ms early\n", (int)(due - now)); ++fails; }
    due += interval;
    // check order: no other live timer has an earlier due time
    for(int i = 0; i < 64; ++i)
      if(all[i] && !all[i]->removed && all[i] != this && all[i]->due + 1 < due - interval) { printf("FAIL order: other due %d ms earlier\n", (int)(due - interval - all[i]->due)); ++fails; }
    int r = rand() % 8;
    if(r == 0) stop();
    else if(r == 1) { int k = rand() % 64; if(all[k]) all[k]->stop(); }
    else if(r == 2) { int k = rand() % 64; if(all[k] && all[k]->removed) all[k]->start(1 + rand() % 3); }
    else if(r == 3) { for(int k = 0; k < 64; k += 3) if(all[k]) all[k]->stop(); }
    else if(r == 4) { for(int k = 0; k < 64; k += 2) if(all[k] && all[k]->removed) all[k]->start(2); }
    if(activations > 20000) server->interrupt();
  }
};

int main(int argc, char** argv)
{
  srand(argc > 1 ? atoi(argv[1]) : 1);
  Server s; server = &s;
  static T ts[64];
  for(int i = 0; i < 64; ++i) { all[i] = &ts[i]; ts[i].slot = i; ts[i].start(1 + i % 3); }
  struct Stop : public Server::Timer::ICallback { virtual void onActivated() { server->interrupt(); } } stop;
  s.time(1500, stop);
  s.run();
  printf("activations %d\n", activations);
  if(fails) { printf("FAIL\n"); return 1; }
  printf("ok\n");
  return 0;
}
