// C16: comments are accepted "wherever white space is allowed" / "comments next to text".
// White space in front of a comment that is followed by text is delivered as a text node
// of its own, although the same white space without the comment is part of the text and
// the same white space in front of a comment + element is dropped.
#include <stdio.h>
#include <nstd/Document/Xml.hpp>

static usize texts(const char* doc, String& first)
{
  Xml::Element e;
  if(!Xml::parse(doc, e))
    return (usize)-1;
  usize n = 0;
  for(List<Xml::Variant>::Iterator i = e.content.begin(); i != e.content.end(); ++i)
    if(i->isText())
    {
      if(!n) first = i->toString();
      ++n;
    }
  return n;
}

int main()
{
  String t;
  usize a = texts("<a>\n  <!-- note -->\n  value</a>", t);
  printf("white space, comment, text : %d text node(s), first = [%s]\n", (int)a, (const char*)t);
  String u;
  usize b = texts("<a>\n  <!-- note -->\n  <b/></a>", u);
  printf("white space, comment, child: %d text node(s)\n", (int)b);
  String v;
  usize c = texts("<a><!-- note -->\n  value</a>", v);
  printf("comment, text              : %d text node(s), first = [%s]\n", (int)c, (const char*)v);
  if(a != 1)
    return printf("FAIL: %d text nodes, the first one is blank\n", (int)a), 1;
  printf("ok\n");
  return 0;
}
