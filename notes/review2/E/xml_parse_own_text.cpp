// C16: Xml::parse(text, element) where the text is owned by `element` itself
// (here: an attribute value that carries an embedded document). Private::parse()
// calls element.clear() before it reads the text behind the first '<', so the text is
// released and then parsed: heap-use-after-free.
//
// Build (plain):  g++ -std=c++11 -g -I/tmp/rw_E/include xml_parse_own_text.cpp libnstd.a -lpthread -ldl -lrt
// Build (ASan):   add -fsanitize=address,undefined  -> heap-use-after-free in Xml::Private::skipSpace
//
// The plain build replaces the global allocation functions (nstd/Base.hpp only declares them)
// by versions that overwrite released memory, so that the stale read is visible in the result.
#include <stdio.h>
#include <stdlib.h>
#include <string.h>
#include <nstd/Document/Xml.hpp>
#include <nstd/Error.hpp>

static void* allocate(usize size)
{
  usize* p = (usize*)malloc(size + 2 * sizeof(usize));
  if(!p) abort();
  p[0] = size;
  return p + 2;
}
static void release(void* buffer)
{
  if(!buffer) return;
  usize* p = (usize*)buffer - 2;
  memset(buffer, 0x3c /* '<' */, p[0]); // scribble over released memory
  free(p);
}
void* operator new(usize size) {return allocate(size);}
void* operator new [](usize size) {return allocate(size);}
void operator delete(void* buffer) {release(buffer);}
void operator delete[](void* buffer) {release(buffer);}

int main()
{
  Xml::Element e;
  if(!Xml::parse("<msg payload=\"&lt;inner id='7'&gt;hello&lt;/inner&gt;\"/>", e))
    return printf("setup failed\n"), 2;
  const String& payload = *e.attributes.find("payload"); // <inner id='7'>hello</inner>
  printf("payload = %s\n", (const char*)payload);

  bool ok = Xml::parse(payload, e); // unpack the embedded document into the same element
  String id = ok && e.attributes.find("id") != e.attributes.end() ? *e.attributes.find("id") : String();
  printf("ok=%d type='%s' id='%s' (expected ok=1 type='inner' id='7')\n", (int)ok, (const char*)e.type, (const char*)id);
  if(!ok)
    printf("error: %s\n", (const char*)Error::getErrorString());
  if(!ok || !(e.type == "inner") || !(id == "7"))
    return printf("FAIL\n"), 1;
  printf("ok\n");
  return 0;
}
