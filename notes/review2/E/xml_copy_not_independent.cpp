// C16: "copies of element values are independent of their source".
// Xml::Variant copies share the payload (reference count) and Variant::toElement()
// un-shares it only at the time it is CALLED. A reference that toElement() handed out
// while the payload was unshared stays writable after a copy has been taken, and what is
// written through it shows in the copy.
#include <stdio.h>
#include <nstd/Document/Xml.hpp>

int main()
{
  Xml::Element root;
  if(!Xml::parse("<config><server port=\"80\"/></config>", root))
    return printf("setup failed\n"), 2;

  Xml::Element& server = root.content.front().toElement(); // working reference, payload unshared
  Xml::Element backup = root;                              // take a copy of the whole tree
  server.attributes.append("port", "8080");                // go on editing the source
  server.type = "listener";

  String before = "<config><server port=\"80\"/></config>";
  String copyText = backup.toString();
  printf("source: %s\n", (const char*)root.toString());
  printf("copy  : %s\n", (const char*)copyText);
  if(copyText != before)
    return printf("FAIL: the copy changed with its source\n"), 1;
  printf("ok\n");
  return 0;
}
