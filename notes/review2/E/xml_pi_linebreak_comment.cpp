// C16: "accepts ... processing instructions before the root element".
// Since the repair "Xml parser counts a line break inside a processing instruction",
// Private::parse() calls skipSpace() at a line break INSIDE a processing instruction.
// skipSpace() also skips comments, so a "<!--" that follows a line break inside the
// instruction's data is taken for a comment start: the "?>" behind it is not seen and
// the rest of the document is swallowed.
#include <stdio.h>
#include <nstd/Document/Xml.hpp>
#include <nstd/Error.hpp>

static int check(const char* text, const char* root = "root")
{
  Xml::Element e;
  bool ok = Xml::parse(text, e);
  printf("ok=%d type='%s'%s%s\n", (int)ok, (const char*)e.type, ok ? "" : "  error: ", ok ? "" : (const char*)Error::getErrorString());
  return ok && e.type == String::fromCString(root) ? 0 : 1;
}

int main()
{
  int fail = 0;
  // the instruction's data is "if ie\n<!-- "; it ends at the first "?>"
  fail |= check("<?cond if ie\n<!-- ?>\n<root/>");
  // with a complete "comment" behind the line break the first "?>" is skipped and the instruction ends at a later one
  fail |= check("<?cond a\n<!-- ?><junk> --> ?>\n</junk>", "junk");
  // control: without the line break both work
  if(check("<?cond if ie <!-- ?>\n<root/>") != 0)
    return printf("control failed\n"), 2;
  if(fail)
    return printf("FAIL\n"), 1;
  printf("ok\n");
  return 0;
}
