// C19: "failed operations report failure without leaving new files behind"
// File::copy(src, dest) with a source that can be opened but not copied (a directory)
// fails - but the destination file it created stays behind.
#include <nstd/File.hpp>
#include <nstd/Directory.hpp>
#include <stdio.h>
#include <stdlib.h>
#include <unistd.h>

int main()
{
  char tmpl[] = "/tmp/rw_F_copydirXXXXXX";
  if(!mkdtemp(tmpl))
    return 2;
  String base = String::fromCString(tmpl);
  String srcDir = base + "/srcdir";
  String dest = base + "/dest";
  if(!Directory::create(srcDir))
    return 2;

  int fail = 0;
  bool result = File::copy(srcDir, dest);
  bool destExists = File::exists(dest);
  printf("File::copy(directory, dest) = %d, dest exists afterwards = %d\n", (int)result, (int)destExists);
  if(!result && destExists)
  {
    printf("FAIL: the failed copy left the new file '%s' behind\n", (const char*)dest);
    fail = 1;
    // consequence: the retry with a proper source now fails with "exists"
    String src = base + "/src";
    File f;
    f.open(src, File::writeFlag);
    f.write(String("hello"));
    f.close();
    bool retry = File::copy(src, dest);
    printf("retry File::copy(file, dest) = %d (expected 1)\n", (int)retry);
    File::unlink(src);
  }
  File::unlink(dest);
  Directory::unlink(base, true);
  if(fail)
    return 1;
  printf("OK\n");
  return 0;
}
