// C19: "Files return exactly the bytes written across write/append/seek/readAll/copy/rename",
//      "failed operations report failure" (and a possible operation must not be reported as failed)
// File::rename(from, to) with the default failIfExists = true creates a regular *file* as placeholder
// for 'to' and then calls ::rename(from, to). rename(2) refuses to move a directory onto a regular
// file (ENOTDIR), so on POSIX a directory can never be renamed with the default arguments although
// the target name is free (the Windows branch, MoveFileEx, renames it).
#include <nstd/File.hpp>
#include <nstd/Directory.hpp>
#include <stdio.h>
#include <stdlib.h>
#include <string.h>
#include <errno.h>

int main()
{
  char tmpl[] = "/tmp/rw_F_renamedirXXXXXX";
  if(!mkdtemp(tmpl))
    return 2;
  String base = String::fromCString(tmpl);
  String from = base + "/olddir", to = base + "/newdir";
  if(!Directory::create(from))
    return 2;
  {
    File f;
    if(!f.open(from + "/data.txt", File::writeFlag) || !f.write(String("payload")))
      return 2;
  }
  int fail = 0;
  bool result = File::rename(from, to); // failIfExists = true, 'to' does not exist
  int err = errno;
  String data;
  bool readable = File::readAll(to + "/data.txt", data);
  printf("File::rename(dir, free name) = %d (errno: %s), newdir/data.txt readable = %d\n", (int)result, result ? "-" : strerror(err), (int)readable);
  if(!result || !readable || data != "payload")
  {
    printf("FAIL: the directory was not renamed although the target name was free\n");
    fail = 1;
  }
  bool result2 = File::rename(from, to, false);
  printf("File::rename(dir, free name, failIfExists = false) = %d\n", (int)result2);
  Directory::unlink(base, true);
  if(fail)
    return 1;
  printf("OK\n");
  return 0;
}
