// C19: "Files return exactly the bytes written across write/append/seek/readAll/copy/rename"
// File::readAll issues a single read() call for the whole file and accepts a short count as the
// content. read() transfers at most 0x7ffff000 bytes per call, so for a file of 2 GiB or more
// readAll() returns true with a truncated string: the tail of the file is silently missing.
#include <nstd/File.hpp>
#include <nstd/Directory.hpp>
#include <stdio.h>
#include <stdlib.h>
#include <string.h>

int main()
{
  char tmpl[] = "/tmp/rw_F_readallXXXXXX";
  if(!mkdtemp(tmpl))
    return 2;
  String base = String::fromCString(tmpl);
  String path = base + "/big";
  const int64 size = 0x80000000LL + 5; // sparse: only the last 5 bytes are written
  {
    File f;
    if(!f.open(path, File::writeFlag) || f.seek(size - 5) != size - 5 || !f.write(String("tail!")))
      return 2;
  }
  int fail = 0;
  {
    File f;
    String data;
    if(!f.open(path))
      return 2;
    bool result = f.readAll(data);
    printf("file size %lld, readAll() = %d, data.length() = %llu\n", (long long)size, (int)result, (unsigned long long)data.length());
    if(result && ((int64)data.length() != size || memcmp((const char*)data + size - 5, "tail!", 5) != 0))
    {
      printf("FAIL: readAll reported success but returned only %llu of %lld bytes\n", (unsigned long long)data.length(), (long long)size);
      fail = 1;
    }
  }
  File::unlink(path);
  Directory::unlink(base, true);
  if(fail)
    return 1;
  printf("OK\n");
  return 0;
}
