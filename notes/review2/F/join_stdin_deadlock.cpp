// C20: "join() returns its exit code ... bytes written to its redirected input arrive intact"
// Process::join (and therefore ~Process) calls waitpid() first and closes the write end of the
// child's redirected standard input only afterwards. A child that reads its input up to
// end-of-file (cat, sort, wc, ...) never sees the end-of-file, so join() never returns.
// Sequence: open(stdin|stdout) - write - join.
#include <nstd/Process.hpp>
#include <stdio.h>
#include <signal.h>
#include <unistd.h>
#include <string.h>

static Process* process = 0;
static void onAlarm(int)
{
  static const char msg[] = "FAIL: join() still blocked after 5 seconds: the child waits for end-of-file on its input, join() waits for the child\n";
  (void)!write(1, msg, sizeof(msg) - 1);
  if(process)
    kill((pid_t)process->getProcessId(), SIGKILL);
  _exit(1);
}

int main()
{
  signal(SIGALRM, onAlarm);
  Process p;
  process = &p;
  if(!p.open("wc -c", Process::stdinStream | Process::stdoutStream))
    return 2;
  const char* payload = "hello world\n";
  if(p.write(payload, strlen(payload)) != (ssize)strlen(payload))
    return 2;
  alarm(5);
  uint32 exitCode = 99;
  bool joined = p.join(exitCode); // expected: child sees EOF, prints the count, exits with 0
  alarm(0);
  printf("join() = %d, exitCode = %u\nOK\n", (int)joined, exitCode);
  return 0;
}
