// C20: "join() returns its exit code" / join(): "@return Whether the process terminated properly"
// Process::join takes WEXITSTATUS(status) without looking at WIFEXITED/WIFSIGNALED. A child that is
// terminated by a signal (crash, kill) has no exit status; join() reports true and exit code 0, i.e.
// exactly what it reports for a child that finished successfully.
#include <nstd/Process.hpp>
#include <stdio.h>

int main()
{
  int fail = 0;
  const char* commands[] = {"sh -c \"kill -SEGV $$\"", "sh -c \"kill -KILL $$\"", "sh -c \"kill -ABRT $$\""};
  for(int i = 0; i < 3; ++i)
  {
    Process process;
    if(!process.start(String::fromCString(commands[i])))
      return 2;
    uint32 exitCode = 0xdead;
    bool joined = process.join(exitCode);
    printf("%-26s join() = %d, exitCode = %u\n", commands[i], (int)joined, exitCode);
    if(joined && exitCode == 0)
      fail = 1;
  }
  {
    Process process;
    process.start("sh -c \"exit 0\"");
    uint32 exitCode = 0xdead;
    bool joined = process.join(exitCode);
    printf("%-26s join() = %d, exitCode = %u\n", "sh -c \"exit 0\"", (int)joined, exitCode);
  }
  if(fail)
  {
    printf("FAIL: a child killed by a signal is reported like a child that exited with code 0\n");
    return 1;
  }
  printf("OK\n");
  return 0;
}
