// C20: "everything it writes to redirected output streams can be read up to end-of-file"
// Process::read(buffer, length, streams) waits with select() on an fd_set. FD_SET/FD_ISSET are only
// defined for descriptors below FD_SETSIZE (1024). In a process that has 1024 or more descriptors
// open (e.g. a Server with many connections) the pipe descriptors are >= 1024, so FD_SET writes
// outside the fd_set on the stack (memory corruption / "buffer overflow detected" abort).
// Build with -fsanitize=address,undefined (stack-buffer-overflow report) or with -O2 -D_FORTIFY_SOURCE=2
// ("buffer overflow detected" abort); the work runs in a forked child so that the abort is reported as FAIL.
#include <nstd/Process.hpp>
#include <stdio.h>
#include <string.h>
#include <fcntl.h>
#include <unistd.h>
#include <sys/resource.h>
#include <sys/select.h>
#include <sys/wait.h>
#include <stdlib.h>

static int run()
{
  struct rlimit rl;
  getrlimit(RLIMIT_NOFILE, &rl);
  if(rl.rlim_max < 1200)
  {
    printf("cannot raise the descriptor limit\n");
    return 2;
  }
  rl.rlim_cur = 1200;
  setrlimit(RLIMIT_NOFILE, &rl);
  int fd;
  do
    fd = open("/dev/null", O_RDONLY | O_CLOEXEC);
  while(fd >= 0 && fd < FD_SETSIZE + 8); // the process now owns descriptors 0..1031

  Process process;
  if(!process.open("sh -c \"echo out; echo err >&2\"", Process::stdoutStream | Process::stderrStream))
    return 2;
  String out, err;
  char buffer[256];
  uint open = Process::stdoutStream | Process::stderrStream;
  while(open)
  {
    uint streams = open;
    ssize n = process.read(buffer, sizeof(buffer), streams); // FD_SET(fd >= 1024, &fdr)
    if(n < 0)
    {
      printf("FAIL: read failed\n");
      return 1;
    }
    if(n == 0)
    {
      open &= ~streams;
      continue;
    }
    (streams == Process::stdoutStream ? out : err).append(buffer, n);
  }
  uint32 exitCode;
  process.join(exitCode);
  printf("stdout = '%s', stderr = '%s'\n", (const char*)out.trim(), (const char*)err.trim());
  if(out != "out" || err != "err")
  {
    printf("FAIL: the output could not be read\n");
    return 1;
  }
  printf("OK (no memory checker: the out-of-range write went unnoticed)\n");
  return 0;
}

int main()
{
  fflush(stdout);
  pid_t pid = fork();
  if(pid == 0)
    _exit(run());
  int status = 0;
  waitpid(pid, &status, 0);
  if(WIFEXITED(status) && WEXITSTATUS(status) == 0)
    return 0;
  if(WIFEXITED(status) && WEXITSTATUS(status) == 2)
    return 2;
  printf("FAIL: Process::read(buffer, length, streams) accessed memory outside its fd_set (descriptors >= FD_SETSIZE)\n");
  return 1;
}
