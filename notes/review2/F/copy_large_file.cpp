// C19: "Files return exactly the bytes written across write/append/seek/readAll/copy/rename"
// File::copy issues a single sendfile() call and treats a short count as an error.
// sendfile() transfers at most 0x7ffff000 bytes per call, so every file of 2 GiB or more
// cannot be copied: copy() returns false and leaves a truncated destination behind.
// usage: copy_large_file [destination]   (default destination is a real file next to the source)
#include <nstd/File.hpp>
#include <nstd/Directory.hpp>
#include <stdio.h>
#include <stdlib.h>
#include <unistd.h>
#include <sys/stat.h>

int main(int argc, char* argv[])
{
  char tmpl[] = "/tmp/rw_F_copybigXXXXXX";
  if(!mkdtemp(tmpl))
    return 2;
  String base = String::fromCString(tmpl);
  String src = base + "/src";
  String dest = argc > 1 ? String::fromCString(argv[1]) : base + "/dest";

  const int64 size = 0x80000000LL + 5; // 2 GiB + 5 bytes, sparse: only the last 5 bytes are written
  {
    File f;
    if(!f.open(src, File::writeFlag) || f.seek(size - 5) != size - 5 || !f.write(String("tail!")))
      return 2;
  }

  bool result = File::copy(src, dest, false);
  struct stat st;
  long long destSize = stat(dest, &st) == 0 ? (long long)st.st_size : -1;
  printf("source size %lld, File::copy = %d, destination size afterwards %lld\n", (long long)size, (int)result, destSize);

  File::unlink(src);
  if(argc <= 1)
    File::unlink(dest);
  Directory::unlink(base, true);
  if(!result)
  {
    printf("FAIL: a %lld byte file could not be copied (0x7ffff000 = %lld bytes were transferred)\n", (long long)size, 0x7ffff000LL);
    return 1;
  }
  printf("OK\n");
  return 0;
}
