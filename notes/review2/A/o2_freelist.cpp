// Does reading item->prev after placement-new of Item (List/Map/MultiMap/PoolMap insert) survive optimisation?
#include <stdio.h>
#include <stdlib.h>
#include <nstd/List.hpp>
#include <nstd/Map.hpp>
#include <nstd/MultiMap.hpp>
#include <nstd/PoolMap.hpp>
#include <nstd/HashMap.hpp>
#include <nstd/HashSet.hpp>
#include <nstd/PoolList.hpp>

struct S { int a; int b; S() : a(0), b(0) {} S(int x) : a(x), b(x) {} bool operator==(const S& o) const {return a == o.a;} bool operator!=(const S& o) const {return a != o.a;} bool operator<(const S& o) const {return a < o.a;} bool operator>(const S& o) const {return a > o.a;} };
inline usize hash(const S& s) { return (usize)s.a; }

int main()
{
  unsigned seed = 1;
  List<S> l; Map<S, S> m; MultiMap<S, S> mm; PoolMap<int, S> pm; HashMap<S, S> hm; HashSet<S> hs; PoolList<S> pl;
  long sum = 0;
  for(int i = 0; i < 200000; ++i)
  {
    seed = seed * 1103515245u + 12345u; int k = (seed >> 16) % 97;
    if((seed >> 8) & 1)
    { l.append(S(k)); m.insert(S(k), S(i)); mm.insert(S(k), S(i)); pm.append(k).a = i; hm.append(S(k), S(i)); hs.append(S(k)); pl.append(k); }
    else
    { if(!l.isEmpty()) l.removeFront(); m.remove(S(k)); mm.remove(S(k)); pm.remove(k); hm.remove(S(k)); hs.remove(S(k)); if(!pl.isEmpty()) pl.removeFront(); }
    if(l.size() > 50) l.clear();
    if(mm.size() > 200) mm.clear();
    if(pl.size() > 50) pl.clear();
    sum += l.size() + m.size() + mm.size() + pm.size() + hm.size() + hs.size() + pl.size();
  }
  usize n = 0; for(Map<S, S>::Iterator i = m.begin(); i != m.end(); ++i) ++n;
  if(n != m.size()) { printf("FAIL\n"); return 1; }
  printf("ok %ld\n", sum);
  return 0;
}
