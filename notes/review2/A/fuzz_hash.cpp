// differential fuzz: HashMap<E,E>, HashSet<E>, PoolMap<E,E>, PoolList<E> against an insertion-ordered reference
#include "track.h"
#include <nstd/HashMap.hpp>
#include <nstd/HashSet.hpp>
#include <nstd/PoolMap.hpp>
#include <nstd/PoolList.hpp>

enum { MAXN = 1024 };
struct Ref
{
  int k[MAXN], v[MAXN]; const void* addr[MAXN]; int n;
  Ref() : n(0) {}
  int find(int key) const { for(int i = 0; i < n; ++i) if(k[i] == key) return i; return -1; }
  void ins(int pos, int key, int val, const void* p)
  {
    memmove(k + pos + 1, k + pos, (n - pos) * sizeof(int)); memmove(v + pos + 1, v + pos, (n - pos) * sizeof(int)); memmove(addr + pos + 1, addr + pos, (n - pos) * sizeof(void*));
    k[pos] = key; v[pos] = val; addr[pos] = p; ++n;
  }
  void del(int pos)
  {
    memmove(k + pos, k + pos + 1, (n - pos - 1) * sizeof(int)); memmove(v + pos, v + pos + 1, (n - pos - 1) * sizeof(int)); memmove(addr + pos, addr + pos + 1, (n - pos - 1) * sizeof(void*));
    --n;
  }
  bool eq(const Ref& o, bool values) const { if(n != o.n) return false; for(int i = 0; i < n; ++i) if(k[i] != o.k[i] || (values && v[i] != o.v[i])) return false; return true; }
};

typedef HashMap<E, E> HM;
static void checkHM(const HM& x, const Ref& r, bool addrs = true)
{
  CHECK((int)x.size() == r.n); CHECK(x.isEmpty() == (r.n == 0));
  int j = 0;
  for(HM::Iterator i = x.begin(); i != x.end(); ++i, ++j) { CHECK(i.key().v == r.k[j]); CHECK(i->v == r.v[j]); i->live(); i.key().live(); if(addrs) CHECK(&*i == r.addr[j]); }
  CHECK(j == r.n);
  HM::Iterator i = x.end(); for(j = r.n; j > 0; --j) { --i; CHECK(i.key().v == r.k[j - 1]); } CHECK(i == x.begin());
  for(int key = 0; key < 40; ++key) { E e(key); int p = r.find(key); HM::Iterator it = x.find(e); CHECK(x.contains(e) == (p >= 0)); if(p < 0) CHECK(it == x.end()); else { CHECK(it.key().v == key); CHECK(it->v == r.v[p]); if(addrs) CHECK(&*it == r.addr[p]); } }
}
static HM::Iterator nth(HM& x, int k) { HM::Iterator it = x.begin(); while(k--) ++it; return it; }
static void rebuild(HM& x, Ref& r) { r.n = 0; int j = 0; for(HM::Iterator i = x.begin(); i != x.end(); ++i, ++j) r.ins(j, i.key().v, i->v, &*i); }

static void fuzzHashMap(int rounds, usize capacity)
{
  HM* x = capacity ? new HM(capacity) : new HM; Ref* r = new Ref;
  HM* y = new HM(3); Ref* s = new Ref;
  for(int step = 0; step < rounds; ++step)
  {
    int op = rnd() % 22; int key = rnd() % 40, v = rnd() % 1000;
    switch(op)
    {
    case 0: case 1: { E k(key), e(v); E& ret = x->append(k, e); int p = r->find(key); if(p >= 0) { r->v[p] = v; CHECK(&ret == r->addr[p]); } else r->ins(r->n, key, v, &ret); break; }
    case 2: { E k(key), e(v); E& ret = x->prepend(k, e); int p = r->find(key); if(p >= 0) { r->v[p] = v; CHECK(&ret == r->addr[p]); } else r->ins(0, key, v, &ret); break; }
    case 3: { int pos = rnd() % (r->n + 1); E k(key), e(v); HM::Iterator ret = x->insert(nth(*x, pos), k, e); int p = r->find(key); if(p >= 0) { r->v[p] = v; CHECK(&*ret == r->addr[p]); } else r->ins(pos, key, v, &*ret); break; }
    case 4: if(r->n) { // key and value refer to the map's own elements
        int a = rnd() % r->n, b = rnd() % r->n, pos = rnd() % (r->n + 1); int vv = r->v[b];
        HM::Iterator ret = x->insert(nth(*x, pos), nth(*x, a).key(), *nth(*x, b)); r->v[a] = vv; CHECK(&*ret == r->addr[a]); } break;
    case 5: if(r->n) { int b = rnd() % r->n; int vv = r->v[b]; E k(key); E& ret = x->append(k, *nth(*x, b)); int p = r->find(key); if(p >= 0) { r->v[p] = vv; CHECK(&ret == r->addr[p]); } else r->ins(r->n, key, vv, &ret); } break;
    case 6: { E k(key); x->remove(k); int p = r->find(key); if(p >= 0) r->del(p); break; }
    case 7: if(r->n) { int p = rnd() % r->n; x->remove(nth(*x, p).key()); r->del(p); } break;
    case 8: if(r->n) { int p = rnd() % r->n; HM::Iterator ret = x->remove(nth(*x, p)); r->del(p); if(p == r->n) CHECK(ret == x->end()); else CHECK(&*ret == r->addr[p]); } break;
    case 9: if(r->n) { if(rnd() & 1) { HM::Iterator ret = x->removeFront(); r->del(0); CHECK(ret == x->begin()); } else { HM::Iterator ret = x->removeBack(); r->del(r->n - 1); CHECK(ret == x->end()); } } break;
    case 10: if(rnd() % 6 == 0) { x->clear(); r->n = 0; } break;
    case 11: { x->swap(*y); Ref* t = r; r = s; s = t; break; }
    case 12: { HM c(*x); checkHM(c, *r, false); CHECK(c == *x); if(r->n) { E e(-1); c.append(c.begin().key(), e); CHECK(c != *x); CHECK(x->front().v == r->v[0]); } break; }
    case 13: { *y = *x; rebuild(*y, *s); CHECK(s->eq(*r, true)); break; }
    case 14: { HM& alias = *x; *x = alias; break; }
    case 15: { CHECK((*x == *y) == r->eq(*s, true)); CHECK((*x != *y) == !r->eq(*s, true)); break; }
    case 16: { delete x; x = new HM(1 + rnd() % 5); r->n = 0; break; }
    case 17: { HM* c = new HM(*x); delete x; x = c; rebuild(*x, *r); break; }
    case 18: { x->swap(*x); break; }
    case 19: if(r->n) { CHECK(x->front().v == r->v[0]); CHECK(x->back().v == r->v[r->n - 1]); } break;
    default: break;
    }
    checkHM(*x, *r); checkHM(*y, *s);
  }
  delete x; delete y; delete r; delete s;
  CHECK(g_ctor == g_dtor);
}

typedef HashSet<E> HS;
static void checkHS(const HS& x, const Ref& r, bool addrs = true)
{
  CHECK((int)x.size() == r.n); CHECK(x.isEmpty() == (r.n == 0));
  int j = 0;
  for(HS::Iterator i = x.begin(); i != x.end(); ++i, ++j) { CHECK((*i).v == r.k[j]); (*i).live(); if(addrs) CHECK(&*i == r.addr[j]); }
  CHECK(j == r.n);
  HS::Iterator i = x.end(); for(j = r.n; j > 0; --j) { --i; CHECK((*i).v == r.k[j - 1]); } CHECK(i == x.begin());
  for(int key = 0; key < 40; ++key) { E e(key); int p = r.find(key); HS::Iterator it = x.find(e); CHECK(x.contains(e) == (p >= 0)); if(p < 0) CHECK(it == x.end()); else { CHECK((*it).v == key); if(addrs) CHECK(&*it == r.addr[p]); } }
  if(r.n) { CHECK(x.front().v == r.k[0]); CHECK(x.back().v == r.k[r.n - 1]); }
}
static HS::Iterator nth(HS& x, int k) { HS::Iterator it = x.begin(); while(k--) ++it; return it; }
static void rebuild(HS& x, Ref& r) { r.n = 0; int j = 0; for(HS::Iterator i = x.begin(); i != x.end(); ++i, ++j) r.ins(j, (*i).v, 0, &*i); }

static void fuzzHashSet(int rounds, usize capacity)
{
  HS* x = capacity ? new HS(capacity) : new HS; Ref* r = new Ref;
  HS* y = new HS(2); Ref* s = new Ref;
  for(int step = 0; step < rounds; ++step)
  {
    int op = rnd() % 24; int key = rnd() % 40;
    switch(op)
    {
    case 0: case 1: { E k(key); x->append(k); if(r->find(key) < 0) r->ins(r->n, key, 0, &*x->find(k)); break; }
    case 2: { E k(key); x->prepend(k); if(r->find(key) < 0) r->ins(0, key, 0, &*x->find(k)); break; }
    case 3: { int pos = rnd() % (r->n + 1); E k(key); HS::Iterator ret = x->insert(nth(*x, pos), k); int p = r->find(key); if(p >= 0) CHECK(&*ret == r->addr[p]); else r->ins(pos, key, 0, &*ret); break; }
    case 4: if(r->n) { int a = rnd() % r->n, pos = rnd() % (r->n + 1); HS::Iterator ret = x->insert(nth(*x, pos), *nth(*x, a)); CHECK(&*ret == r->addr[a]); } break;
    case 6: { E k(key); x->remove(k); int p = r->find(key); if(p >= 0) r->del(p); break; }
    case 7: if(r->n) { int p = rnd() % r->n; x->remove(*nth(*x, p)); r->del(p); } break;
    case 8: if(r->n) { int p = rnd() % r->n; HS::Iterator ret = x->remove(nth(*x, p)); r->del(p); if(p == r->n) CHECK(ret == x->end()); else CHECK(&*ret == r->addr[p]); } break;
    case 9: if(r->n) { if(rnd() & 1) { HS::Iterator ret = x->removeFront(); r->del(0); CHECK(ret == x->begin()); } else { HS::Iterator ret = x->removeBack(); r->del(r->n - 1); CHECK(ret == x->end()); } } break;
    case 10: if(rnd() % 6 == 0) { x->clear(); r->n = 0; } break;
    case 11: { x->swap(*y); Ref* t = r; r = s; s = t; break; }
    case 12: { HS c(*x); checkHS(c, *r, false); CHECK(c == *x); if(r->n) { c.removeFront(); CHECK(c != *x); } break; }
    case 13: { *y = *x; rebuild(*y, *s); CHECK(s->eq(*r, false)); break; }
    case 14: { HS& alias = *x; *x = alias; break; }
    case 15: { CHECK((*x == *y) == r->eq(*s, false)); CHECK((*x != *y) == !r->eq(*s, false)); break; }
    case 16: { delete x; x = new HS(1 + rnd() % 5); r->n = 0; break; }
    case 17: { HS* c = new HS(*x); delete x; x = c; rebuild(*x, *r); break; }
    case 18: { x->swap(*x); break; }
    case 19: { x->append(*y); for(int j = 0; j < s->n; ++j) if(r->find(s->k[j]) < 0) { E k(s->k[j]); r->ins(r->n, s->k[j], 0, &*x->find(k)); } break; }
    case 20: { x->remove(*y); for(int j = 0; j < s->n; ++j) { int p = r->find(s->k[j]); if(p >= 0) r->del(p); } break; }
    case 21: { x->append(*x); break; }
    case 22: if(rnd() % 6 == 0) { x->remove(*x); r->n = 0; } break;
    default: break;
    }
    checkHS(*x, *r); checkHS(*y, *s);
  }
  delete x; delete y; delete r; delete s;
  CHECK(g_ctor == g_dtor);
}

typedef PoolMap<int, E> PM;
static void checkPM(const PM& x, const Ref& r)
{
  CHECK((int)x.size() == r.n); CHECK(x.isEmpty() == (r.n == 0));
  int j = 0;
  for(PM::Iterator i = x.begin(); i != x.end(); ++i, ++j) { CHECK(i.key() == r.k[j]); CHECK(i->v == r.v[j]); i->live(); CHECK(&*i == r.addr[j]); }
  CHECK(j == r.n);
  PM::Iterator i = x.end(); for(j = r.n; j > 0; --j) { --i; CHECK(i.key() == r.k[j - 1]); } CHECK(i == x.begin());
  for(int key = -3; key < 40; ++key) { int p = r.find(key); PM::Iterator it = x.find(key); CHECK(x.contains(key) == (p >= 0)); if(p < 0) CHECK(it == x.end()); else { CHECK(it.key() == key); CHECK(&*it == r.addr[p]); } }
}
static PM::Iterator nth(PM& x, int k) { PM::Iterator it = x.begin(); while(k--) ++it; return it; }

static void fuzzPoolMap(int rounds, usize capacity)
{
  PM* x = capacity ? new PM(capacity) : new PM; Ref* r = new Ref;
  PM* y = new PM(2); Ref* s = new Ref;
  for(int step = 0; step < rounds; ++step)
  {
    int op = rnd() % 16; int key = (int)(rnd() % 43) - 3, v = rnd() % 1000;
    switch(op)
    {
    case 0: case 1: case 2: { long copies = g_copies; E& ret = x->append(key); int p = r->find(key); CHECK(g_copies == copies); if(p >= 0) CHECK(&ret == r->addr[p]); else { CHECK(ret.v == 0); r->ins(r->n, key, 0, &ret); } break; }
    case 3: { int pos = rnd() % (r->n + 1); PM::Iterator ret = x->insert(nth(*x, pos), key); int p = r->find(key); if(p >= 0) CHECK(&*ret == r->addr[p]); else r->ins(pos, key, 0, &*ret); break; }
    case 4: if(r->n) { int a = rnd() % r->n, pos = rnd() % (r->n + 1); PM::Iterator ret = x->insert(nth(*x, pos), nth(*x, a).key()); CHECK(&*ret == r->addr[a]); } break;
    case 5: if(r->n) { int p = rnd() % r->n; E e(v); *nth(*x, p) = e; r->v[p] = v; } break;
    case 6: { x->remove(key); int p = r->find(key); if(p >= 0) r->del(p); break; }
    case 7: if(r->n) { int p = rnd() % r->n; if(rnd() & 1) x->remove(nth(*x, p).key()); else x->remove(*nth(*x, p)); r->del(p); } break;
    case 8: if(r->n) { int p = rnd() % r->n; PM::Iterator ret = x->remove(nth(*x, p)); r->del(p); if(p == r->n) CHECK(ret == x->end()); else CHECK(&*ret == r->addr[p]); } break;
    case 9: if(r->n) { if(rnd() & 1) { PM::Iterator ret = x->removeFront(); r->del(0); CHECK(ret == x->begin()); } else { PM::Iterator ret = x->removeBack(); r->del(r->n - 1); CHECK(ret == x->end()); } } break;
    case 10: if(rnd() % 6 == 0) { x->clear(); r->n = 0; } break;
    case 11: { x->swap(*y); Ref* t = r; r = s; s = t; break; }
    case 12: { delete x; x = new PM(1 + rnd() % 5); r->n = 0; break; }
    case 13: { x->swap(*x); break; }
    case 14: if(r->n) { CHECK(x->front().v == r->v[0]); CHECK(x->back().v == r->v[r->n - 1]); } break;
    default: break;
    }
    checkPM(*x, *r); checkPM(*y, *s);
  }
  delete x; delete y; delete r; delete s;
  CHECK(g_ctor == g_dtor);
}

struct P2 { E a; E b; int c; P2() : c(0) {} P2(int x) : a(x), c(1) {} P2(int x, int y) : a(x), b(y), c(2) {} };
typedef PoolList<P2> PL;
struct LRef { int a[1024]; const P2* addr[1024]; int n; LRef() : n(0) {} 
  void ins(int v, const P2* p) { a[n] = v; addr[n] = p; ++n; }
  void del(int pos) { memmove(a + pos, a + pos + 1, (n - pos - 1) * sizeof(int)); memmove(addr + pos, addr + pos + 1, (n - pos - 1) * sizeof(void*)); --n; } };
static void checkPL(const PL& x, const LRef& r)
{
  CHECK((int)x.size() == r.n); CHECK(x.isEmpty() == (r.n == 0));
  int j = 0;
  for(PL::Iterator i = x.begin(); i != x.end(); ++i, ++j) { i->a.live(); i->b.live(); CHECK(i->a.v == r.a[j]); CHECK(&*i == r.addr[j]); }
  CHECK(j == r.n);
  PL::Iterator i = x.end(); for(j = r.n; j > 0; --j) { --i; CHECK(i->a.v == r.a[j - 1]); } CHECK(i == x.begin());
}
static PL::Iterator nth(PL& x, int k) { PL::Iterator it = x.begin(); while(k--) ++it; return it; }
static void fuzzPoolList(int rounds)
{
  PL* x = new PL; LRef* r = new LRef; PL* y = new PL; LRef* s = new LRef;
  for(int step = 0; step < rounds; ++step)
  {
    int op = rnd() % 12; int v = rnd() % 1000;
    if(r->n > 500) { x->clear(); r->n = 0; }
    switch(op)
    {
    case 0: { long copies = g_copies; P2& ret = x->append(); CHECK(copies == g_copies); CHECK(ret.c == 0); r->ins(0, &ret); break; }
    case 1: { long copies = g_copies; P2& ret = x->append(v); CHECK(copies == g_copies); CHECK(ret.c == 1); r->ins(v, &ret); break; }
    case 2: { long copies = g_copies; P2& ret = x->append(v, 7); CHECK(copies == g_copies); CHECK(ret.c == 2); r->ins(v, &ret); break; }
    case 3: if(r->n) { int p = rnd() % r->n; PL::Iterator ret = x->remove(nth(*x, p)); r->del(p); if(p == r->n) CHECK(ret == x->end()); else CHECK(&*ret == r->addr[p]); } break;
    case 4: if(r->n) { int p = rnd() % r->n; x->remove(*nth(*x, p)); r->del(p); } break;
    case 5: if(r->n) { if(rnd() & 1) { PL::Iterator ret = x->removeFront(); r->del(0); CHECK(ret == x->begin()); } else { PL::Iterator ret = x->removeBack(); r->del(r->n - 1); CHECK(ret == x->end()); } } break;
    case 6: if(rnd() % 6 == 0) { x->clear(); r->n = 0; } break;
    case 7: { x->swap(*y); LRef* t = r; r = s; s = t; break; }
    case 8: { x->swap(*x); break; }
    case 9: if(rnd() % 6 == 0) { delete x; x = new PL; r->n = 0; } break;
    default: break;
    }
    checkPL(*x, *r); checkPL(*y, *s);
  }
  delete x; delete y; delete r; delete s;
  CHECK(g_ctor == g_dtor);
}

int main(int argc, char** argv)
{
  int rounds = argc > 1 ? atoi(argv[1]) : 100000;
  usize caps[] = {0, 1, 2, 7, 40};
  for(int c = 0; c < 5; ++c)
  {
    g_seed = 4711 + c;
    fuzzHashMap(rounds, caps[c]);
    fuzzHashSet(rounds, caps[c]);
    fuzzPoolMap(rounds, caps[c]);
    fuzzPoolList(rounds);
  }
  printf("ok ctor=%ld dtor=%ld\n", g_ctor, g_dtor);
  return 0;
}
