// differential fuzz: Array<E>, List<E> against a plain int sequence
#include "track.h"
#include <nstd/Array.hpp>
#include <nstd/List.hpp>

enum { MAXN = 4096 };
struct Ref
{
  int a[MAXN]; int n;
  Ref() : n(0) {}
  void ins(int pos, int v) { memmove(a + pos + 1, a + pos, (n - pos) * sizeof(int)); a[pos] = v; ++n; }
  void del(int pos) { memmove(a + pos, a + pos + 1, (n - pos - 1) * sizeof(int)); --n; }
};

static void checkArray(const Array<E>& x, const Ref& r)
{
  CHECK((int)x.size() == r.n);
  CHECK(x.isEmpty() == (r.n == 0));
  int k = 0;
  for(Array<E>::Iterator i = x.begin(); i != x.end(); ++i, ++k) { i->live(); CHECK(i->v == r.a[k]); }
  CHECK(k == r.n);
  if(r.n) { CHECK(x.front().v == r.a[0]); CHECK(x.back().v == r.a[r.n - 1]); }
  CHECK(x.capacity() >= x.size());
}

static void fuzzArray(int rounds)
{
  Array<E>* x = new Array<E>; Ref* r = new Ref;
  Array<E>* y = new Array<E>; Ref* s = new Ref;
  for(int step = 0; step < rounds; ++step)
  {
    int op = rnd() % 24;
    int v = rnd() % 50;
    if(r->n > 300) op = 9;
    switch(op)
    {
    case 0: case 1: { E e(v); E& ret = x->append(e); CHECK(&ret == &x->back()); r->ins(r->n, v); break; }
    case 2: if(r->n) { int k = rnd() % r->n; E& ret = x->append((*x)[k]); CHECK(&ret == &x->back()); r->ins(r->n, r->a[k]); } break;
    case 3: if(r->n + s->n < 350) { x->append(*y); for(int k = 0; k < s->n; ++k) r->ins(r->n, s->a[k]); } break;
    case 4: if(r->n < 150) { x->append(*x); int n = r->n; for(int k = 0; k < n; ++k) r->ins(r->n, r->a[k]); } break;
    case 5: if(r->n) { int k = rnd() % r->n; int c = rnd() % (r->n - k + 1); if(c > 40) c = 40; x->append((const E*)*x + k, c); for(int j = 0; j < c; ++j) r->ins(r->n, r->a[k + j]); } break;
    case 6: if(r->n) { int k = rnd() % r->n; x->remove((usize)k); r->del(k); } else { x->remove((usize)0); x->remove((usize)5); } break;
    case 7: if(r->n) { int k = rnd() % r->n; Array<E>::Iterator it = x->begin(); for(int j = 0; j < k; ++j) ++it; Array<E>::Iterator ret = x->remove(it); r->del(k); if(k == r->n) CHECK(ret == x->end()); else CHECK(ret->v == r->a[k]); } break;
    case 8: if(r->n) { if(rnd() & 1) { Array<E>::Iterator ret = x->removeFront(); r->del(0); CHECK(ret == x->begin()); } else { Array<E>::Iterator ret = x->removeBack(); r->del(r->n - 1); CHECK(ret == x->end()); } } break;
    case 9: { int sz = rnd() % 40; if(r->n > 300) sz = 0; if(sz <= r->n) { x->resize(sz); r->n = sz; } else { E e(v); x->resize(sz, e); while(r->n < sz) r->ins(r->n, v); } break; }
    case 10: if(r->n) { int k = rnd() % r->n; int sz = r->n + rnd() % 20; int vv = r->a[k]; x->resize(sz, (*x)[k]); while(r->n < sz) r->ins(r->n, vv); } break;
    case 11: x->reserve(rnd() % 64); break;
    case 12: if(rnd() % 8 == 0) { x->clear(); r->n = 0; } break;
    case 13: { x->swap(*y); Ref* t = r; r = s; s = t; break; }
    case 14: { Array<E> c(*x); checkArray(c, *r); CHECK(c == *x); if(r->n) { c[0].v++; *c[0].heap = c[0].v; CHECK(c != *x); CHECK((*x)[0].v == r->a[0]); } break; }
    case 15: { *y = *x; memcpy(s, r, sizeof(Ref)); break; }
    case 16: { Array<E>& alias = *x; *x = alias; break; }
    case 17: { E e(v); Array<E>::Iterator it = x->find(e); int k = 0; while(k < r->n && r->a[k] != v) ++k; if(k == r->n) CHECK(it == x->end()); else CHECK(&*it == &(*x)[k]); break; }
    case 18: { bool eq = r->n == s->n && memcmp(r->a, s->a, r->n * sizeof(int)) == 0; CHECK((*x == *y) == eq); CHECK((*x != *y) == !eq); break; }
    case 19: { delete x; x = new Array<E>(rnd() % 10); r->n = 0; break; }
    case 20: { Array<E>* c = new Array<E>(*x); delete x; x = c; break; }
    case 21: { x->swap(*x); break; }
    case 22: if(r->n) { int k = rnd() % r->n; E e(v); (*x)[k] = e; r->a[k] = v; } break;
    default: break;
    }
    checkArray(*x, *r);
    checkArray(*y, *s);
  }
  delete x; delete y; delete r; delete s;
  CHECK(g_ctor == g_dtor);
}

struct LRef : Ref { const E* addr[MAXN];
  void ins(int pos, int v, const E* p) { memmove(addr + pos + 1, addr + pos, (n - pos) * sizeof(E*)); addr[pos] = p; Ref::ins(pos, v); }
  void del(int pos) { memmove(addr + pos, addr + pos + 1, (n - pos - 1) * sizeof(E*)); Ref::del(pos); }
};

static void checkList(const List<E>& x, const LRef& r, bool addrs = true)
{
  CHECK((int)x.size() == r.n);
  CHECK(x.isEmpty() == (r.n == 0));
  int k = 0;
  for(List<E>::Iterator i = x.begin(); i != x.end(); ++i, ++k) { i->live(); CHECK(i->v == r.a[k]); if(addrs) CHECK(&*i == r.addr[k]); }
  CHECK(k == r.n);
  List<E>::Iterator i = x.end();
  for(k = r.n; k > 0; --k) { --i; CHECK(i->v == r.a[k - 1]); }
  CHECK(i == x.begin());
  if(r.n) { CHECK(x.front().v == r.a[0]); CHECK(x.back().v == r.a[r.n - 1]); }
}

static List<E>::Iterator nth(List<E>& x, int k) { List<E>::Iterator it = x.begin(); for(int j = 0; j < k; ++j) ++it; return it; }

static void fuzzList(int rounds)
{
  List<E>* x = new List<E>; LRef* r = new LRef;
  List<E>* y = new List<E>; LRef* s = new LRef;
  for(int step = 0; step < rounds; ++step)
  {
    int op = rnd() % 26;
    int v = rnd() % 50;
    if(r->n > 300) { x->clear(); r->n = 0; }
    switch(op)
    {
    case 0: { E e(v); E& ret = x->append(e); r->ins(r->n, v, &ret); break; }
    case 1: { E e(v); E& ret = x->prepend(e); r->ins(0, v, &ret); break; }
    case 2: { int k = rnd() % (r->n + 1); E e(v); List<E>::Iterator ret = x->insert(nth(*x, k), e); r->ins(k, v, &*ret); break; }
    case 3: if(r->n) { int k = rnd() % (r->n + 1), j = rnd() % r->n; int vv = r->a[j]; List<E>::Iterator ret = x->insert(nth(*x, k), *nth(*x, j)); r->ins(k, vv, &*ret); } break;
    case 4: if(r->n) { int k = rnd() % r->n; List<E>::Iterator ret = x->remove(nth(*x, k)); r->del(k); if(k == r->n) CHECK(ret == x->end()); else CHECK(&*ret == r->addr[k]); } break;
    case 5: { E e(v); x->remove(e); int k = 0; while(k < r->n && r->a[k] != v) ++k; if(k < r->n) r->del(k); break; }
    case 6: if(r->n) { int j = rnd() % r->n; int vv = r->a[j]; x->remove(*nth(*x, j)); int k = 0; while(r->a[k] != vv) ++k; r->del(k); } break;
    case 7: if(r->n) { if(rnd() & 1) { List<E>::Iterator ret = x->removeFront(); r->del(0); CHECK(ret == x->begin()); } else { List<E>::Iterator ret = x->removeBack(); r->del(r->n - 1); CHECK(ret == x->end()); } } break;
    case 8: if(rnd() % 8 == 0) { x->clear(); r->n = 0; } break;
    case 9: { x->swap(*y); LRef* t = r; r = s; s = t; break; }
    case 10: { List<E> c(*x); checkList(c, *r, false); CHECK(c == *x); if(r->n) { c.front().v++; *c.front().heap = c.front().v; CHECK(c != *x); CHECK(x->front().v == r->a[0]); } break; }
    case 11: { *y = *x; s->n = 0; int k = 0; for(List<E>::Iterator i = y->begin(); i != y->end(); ++i, ++k) s->ins(k, i->v, &*i); CHECK(*y == *x); break; }
    case 12: { List<E>& alias = *x; *x = alias; break; }
    case 13: { E e(v); List<E>::Iterator it = x->find(e); int k = 0; while(k < r->n && r->a[k] != v) ++k; if(k == r->n) CHECK(it == x->end()); else CHECK(&*it == r->addr[k]); break; }
    case 14: { bool eq = r->n == s->n && memcmp(r->a, s->a, r->n * sizeof(int)) == 0; CHECK((*x == *y) == eq); CHECK((*x != *y) == !eq); break; }
    case 15: if(s->n < 30) { int k = rnd() % (r->n + 1); List<E>::Iterator pos = nth(*x, k); List<E>::Iterator ret = x->insert(pos, *y); if(s->n == 0) CHECK(ret == pos); else { List<E>::Iterator it = ret; for(int j = 0; j < s->n; ++j, ++it) r->ins(k + j, s->a[j], &*it); CHECK(it == pos); } } break;
    case 16: if(r->n < 200) { int k = rnd() % (r->n + 1); List<E>::Iterator pos = nth(*x, k); int n = r->n; List<E>::Iterator ret = x->insert(pos, *x); if(n == 0) CHECK(ret == pos); else { List<E>::Iterator it = ret; int tmp[256]; memcpy(tmp, r->a, n * sizeof(int)); for(int j = 0; j < n; ++j, ++it) r->ins(k + j, tmp[j], &*it); CHECK(it == pos); } } break;
    case 17: if(s->n < 30) { if(rnd() & 1) { x->append(*y); List<E>::Iterator it = x->end(); for(int j = 0; j < s->n; ++j) --it; for(int j = 0; j < s->n; ++j, ++it) r->ins(r->n, s->a[j], &*it); } else { x->prepend(*y); List<E>::Iterator it = x->begin(); for(int j = 0; j < s->n; ++j, ++it) r->ins(j, s->a[j], &*it); } } break;
    case 18: if(r->n < 200) { int n = r->n; int tmp[256]; memcpy(tmp, r->a, n * sizeof(int)); if(rnd() & 1) { x->append(*x); List<E>::Iterator it = x->end(); for(int j = 0; j < n; ++j) --it; for(int j = 0; j < n; ++j, ++it) r->ins(r->n, tmp[j], &*it); } else { x->prepend(*x); List<E>::Iterator it = x->begin(); for(int j = 0; j < n; ++j, ++it) r->ins(j, tmp[j], &*it); } } break;
    case 19: { x->sort(); // values sorted, nodes stay
        for(int i = 1; i < r->n; ++i) { int t = r->a[i], j = i; while(j > 0 && r->a[j - 1] > t) { r->a[j] = r->a[j - 1]; --j; } r->a[j] = t; } break; }
    case 20: { delete x; x = new List<E>; r->n = 0; break; }
    case 21: { List<E>* c = new List<E>(*x); delete x; x = c; r->n = 0; int k = 0; for(List<E>::Iterator i = x->begin(); i != x->end(); ++i, ++k) r->ins(k, i->v, &*i); break; }
    case 22: { x->swap(*x); break; }
    default: break;
    }
    checkList(*x, *r);
    checkList(*y, *s);
  }
  delete x; delete y; delete r; delete s;
  CHECK(g_ctor == g_dtor);
}

int main(int argc, char** argv)
{
  int rounds = argc > 1 ? atoi(argv[1]) : 200000;
  for(int seed = 1; seed <= 5; ++seed)
  {
    g_seed = seed * 7919;
    fuzzArray(rounds);
    fuzzList(rounds);
  }
  // exhaustive sort check: all sequences over {0,1,2,3} of length <= 7
  for(int len = 0; len <= 7; ++len)
  {
    int total = 1; for(int i = 0; i < len; ++i) total *= 4;
    for(int code = 0; code < total; ++code)
    {
      List<int> l; int cnt[4] = {0, 0, 0, 0};
      for(int i = 0, c = code; i < len; ++i, c /= 4) { l.append(c % 4); cnt[c % 4]++; }
      l.sort();
      int prev = -1; int k = 0;
      for(List<int>::Iterator i = l.begin(); i != l.end(); ++i, ++k) { CHECK(*i >= prev); prev = *i; cnt[*i]--; }
      CHECK(k == len); CHECK(!cnt[0] && !cnt[1] && !cnt[2] && !cnt[3]);
    }
  }
  printf("ok ctor=%ld dtor=%ld\n", g_ctor, g_dtor);
  return 0;
}
