// C04: Array::append / resize with an argument that lives inside one of the array's own elements
// (not the element itself): the growth step relocates the elements first and then copies from the freed argument.
#include <stdio.h>
#include <stdlib.h>
#include <signal.h>
#include <unistd.h>
#include <sys/wait.h>
#include <nstd/Array.hpp>

struct Node
{
  int v;
  Array<Node> children;
  Node(int v = 0) : v(v) {}
};

static int failed = 0;
#define EXPECT(c) do { if(!(c)) { printf("FAIL: %s (line %d)\n", #c, __LINE__); failed = 1; } } while(0)

static void crashed(int) { const char msg[] = "FAIL: crashed on the released argument\n"; if(write(1, msg, sizeof(msg) - 1)) {} _exit(1); }

static void case0()
{
  Array<Node> a;
  Node first(1); first.children.append(Node(10)); first.children.append(Node(11));
  a.append(first); a.append(Node(2)); a.append(Node(3)); // capacity 3 is full now
  EXPECT(a.capacity() == 3);
  a.append(a[0].children[1]); // grandchild 11, expected to be appended as if copied first
  EXPECT(a.size() == 4 && a[3].v == 11);
}

static void case1()
{
  Array<Node> a;
  Node first(1); first.children.append(Node(10)); first.children.append(Node(11));
  a.append(first); a.append(Node(2)); a.append(Node(3));
  a.append(a[0].children); // the child array of an own element
  EXPECT(a.size() == 5 && a[3].v == 10 && a[4].v == 11);
}

static void case2()
{
  Array<Node> a;
  Node first(1); first.children.append(Node(10)); first.children.append(Node(11));
  a.append(first);
  a.resize(9, a[0].children[0]);
  EXPECT(a.size() == 9 && a[8].v == 10);
}

static void case3()
{
  Array<Node> a;
  Node first(1); first.children.append(Node(10)); first.children.append(Node(11));
  a.append(first); a.append(Node(2));
  a = a[0].children;
  EXPECT(a.size() == 2 && a[0].v == 10 && a[1].v == 11);
}

int main()
{
  void (*cases[])() = {case0, case1, case2, case3};
  int bad = 0;
  for(unsigned i = 0; i < sizeof(cases) / sizeof(*cases); ++i)
  { // each case in a process of its own: a case may crash
    fflush(stdout);
    pid_t pid = fork();
    if(pid == 0)
    {
      signal(SIGSEGV, crashed); signal(SIGBUS, crashed); signal(SIGABRT, crashed);
      cases[i]();
      _exit(failed);
    }
    int status = 0;
    waitpid(pid, &status, 0);
    if(!WIFEXITED(status) || WEXITSTATUS(status) != 0) { printf("FAIL: case %u\n", i); bad = 1; }
  }
  if(bad) return 1;
  printf("ok\n");
  return 0;
}
