// random connect / disconnect / delete of emitters and listeners, also from inside slots and nested emits (run under ASan)
#include <stdio.h>
#include <stdlib.h>
#include <nstd/Callback.hpp>

static unsigned g_seed = 1;
static unsigned rnd() { g_seed = g_seed * 1103515245u + 12345u; return (g_seed >> 16) & 0x7fff; }

enum { NE = 3, NL = 4 };
struct Em; struct Li;
static Em* em[NE]; static Li* li[NL];
static int depth = 0; static long calls = 0;
// model: conn[e][sig][l][slot] = number of connections
static int conn[NE][2][NL][2];
static void action();

struct Em : public Callback::Emitter
{
  int id; unsigned magic;
  Em(int id) : id(id), magic(0xE11E) {}
  ~Em() { magic = 0; }
  void sigA(int x) {} void sigB(int x) {}
  void fireA(int x) { emit(&Em::sigA, x); }
  void fireB(int x) { emit(&Em::sigB, x); }
};
struct Li : public Callback::Listener
{
  int id; unsigned magic;
  Li(int id) : id(id), magic(0x7157) {}
  ~Li() { magic = 0; }
  void slot0(int x) { hit(x, 0); }
  void slot1(int x) { hit(x, 1); }
  void hit(int x, int s)
  {
    if(magic != 0x7157) { printf("FAIL: slot called on a dead listener\n"); exit(1); }
    int e = x >> 1, sig = x & 1;
    if(li[id] != this) { printf("FAIL: slot called on a replaced listener\n"); exit(1); }
    ++calls;
    if(depth < 3 && rnd() % 3 == 0) action();
  }
};

static void delEm(int e) { if(!em[e]) return; delete em[e]; em[e] = 0; for(int s = 0; s < 2; ++s) for(int l = 0; l < NL; ++l) conn[e][s][l][0] = conn[e][s][l][1] = 0; }
static void delLi(int l) { if(!li[l]) return; delete li[l]; li[l] = 0; for(int e = 0; e < NE; ++e) for(int s = 0; s < 2; ++s) conn[e][s][l][0] = conn[e][s][l][1] = 0; }

static void action()
{
  ++depth;
  int e = rnd() % NE, l = rnd() % NL, sig = rnd() & 1, slot = rnd() & 1;
  switch(rnd() % 8)
  {
  case 0: case 1: if(em[e] && li[l]) { Callback::connect(em[e], sig ? &Em::sigB : &Em::sigA, li[l], slot ? &Li::slot1 : &Li::slot0); ++conn[e][sig][l][slot]; } break;
  case 2: if(em[e] && li[l] && conn[e][sig][l][slot]) { Callback::disconnect(em[e], sig ? &Em::sigB : &Em::sigA, li[l], slot ? &Li::slot1 : &Li::slot0); --conn[e][sig][l][slot]; } break;
  case 3: if(rnd() % 4 == 0) delLi(l); break;
  case 4: if(rnd() % 4 == 0) delEm(e); break;
  case 5: case 6: if(em[e]) { if(sig) em[e]->fireB(e * 2 + 1); else em[e]->fireA(e * 2); } break;
  case 7: if(!em[e]) em[e] = new Em(e); if(!li[l]) li[l] = new Li(l); break;
  }
  --depth;
}

int main(int argc, char** argv)
{
  int rounds = argc > 1 ? atoi(argv[1]) : 300000; if(argc > 2) g_seed = atoi(argv[2]);
  for(int i = 0; i < rounds; ++i) action();
  // quiescent check: every connection fires exactly once per emit
  for(int rep = 0; rep < 2000; ++rep)
  {
    for(int i = 0; i < 30; ++i) action();
    int d = depth; depth = 100; // slots do nothing now
    for(int e = 0; e < NE; ++e) if(em[e]) for(int sig = 0; sig < 2; ++sig)
    {
      long expect = 0; for(int l = 0; l < NL; ++l) expect += conn[e][sig][l][0] + conn[e][sig][l][1];
      long before = calls; if(sig) em[e]->fireB(e * 2 + 1); else em[e]->fireA(e * 2);
      if(calls - before != expect) { printf("FAIL: emitter %d signal %d called %ld slots, %ld connected\n", e, sig, calls - before, expect); return 1; }
    }
    depth = d;
  }
  for(int e = 0; e < NE; ++e) delEm(e);
  for(int l = 0; l < NL; ++l) delLi(l);
  printf("ok calls=%ld\n", calls);
  return 0;
}
