// C04: assignment of a container from a container that lives inside one of its own elements.
//   List<Variant>& l = v.toList();  l = l.front().toList();
// operator= runs clear() first, which destroys the element that owns the source, then copies from the freed source.
#include <stdio.h>
#include <stdlib.h>
#include <signal.h>
#include <unistd.h>
#include <sys/wait.h>
#include <nstd/Variant.hpp>

static int failed = 0;
#define EXPECT(c) do { if(!(c)) { printf("FAIL: %s (line %d)\n", #c, __LINE__); failed = 1; } } while(0)

static void crashed(int) { const char msg[] = "FAIL: crashed on the released argument\n"; if(write(1, msg, sizeof(msg) - 1)) {} _exit(1); }

static void case0()
{ // List
  List<Variant> inner; inner.append(Variant(String("one"))); inner.append(Variant(String("two")));
  List<Variant> l; l.append(Variant(inner)); l.append(Variant(3));
  const List<Variant>& src = ((const Variant&)l.front()).toList();
  l = src; // as if src had been copied first: l == ["one", "two"]
  EXPECT(l.size() == 2);
  EXPECT(l.size() == 2 && l.front().toString() == "one" && l.back().toString() == "two");
}

static void case1()
{ // Array
  Array<Variant> inner; inner.append(Variant(String("one"))); inner.append(Variant(String("two")));
  Array<Variant> a; a.append(Variant(inner)); a.append(Variant(3));
  const Array<Variant>& src = ((const Variant&)a.front()).toArray();
  a = src;
  EXPECT(a.size() == 2);
  EXPECT(a.size() == 2 && a.front().toString() == "one" && a.back().toString() == "two");
}

static void case2()
{ // HashMap
  HashMap<String, Variant> inner; inner.append("a", Variant(String("one"))); inner.append("b", Variant(String("two")));
  HashMap<String, Variant> m; m.append("x", Variant(inner)); m.append("y", Variant(3));
  const HashMap<String, Variant>& src = ((const Variant&)m.front()).toMap();
  m = src;
  EXPECT(m.size() == 2);
  EXPECT(m.size() == 2 && m.front().toString() == "one" && m.back().toString() == "two");
}

int main()
{
  void (*cases[])() = {case0, case1, case2};
  int bad = 0;
  for(unsigned i = 0; i < sizeof(cases) / sizeof(*cases); ++i)
  { // each case in a process of its own: a case may crash
    fflush(stdout);
    pid_t pid = fork();
    if(pid == 0)
    {
      signal(SIGSEGV, crashed); signal(SIGBUS, crashed); signal(SIGABRT, crashed);
      cases[i]();
      _exit(failed);
    }
    int status = 0;
    waitpid(pid, &status, 0);
    if(!WIFEXITED(status) || WEXITSTATUS(status) != 0) { printf("FAIL: case %u\n", i); bad = 1; }
  }
  if(bad) return 1;
  printf("ok\n");
  return 0;
}
