// shared helper: lifetime-tracked element type (C headers only)
#pragma once
#include <stdio.h>
#include <stdlib.h>
#include <string.h>
#include <nstd/Base.hpp>

static int g_fail = 0;
#define CHECK(c) do { if(!(c)) { printf("FAIL %s:%d: %s\n", __FILE__, __LINE__, #c); g_fail = 1; exit(1);} } while(0)

// liveness cookie inside each object
static long g_ctor = 0, g_dtor = 0, g_copies = 0;
static const unsigned LIVE_MAGIC = 0x600DF00Du, DEAD_MAGIC = 0xDEADBEEFu;

struct E
{
  int v;
  unsigned magic;
  int* heap;
  E() : v(0) { reg(); }
  E(int v) : v(v) { reg(); }
  E(const E& o) : v(o.v) { o.live(); ++g_copies; reg(); }
  ~E() { if(magic == DEAD_MAGIC) { printf("FAIL: object destroyed twice %p\n", (void*)this); exit(1);} live(); free(heap); heap = 0; magic = DEAD_MAGIC; ++g_dtor; }
  E& operator=(const E& o) { live(); o.live(); v = o.v; *heap = v; return *this; }
  bool operator==(const E& o) const { live(); o.live(); return v == o.v; }
  bool operator!=(const E& o) const { live(); o.live(); return v != o.v; }
  bool operator<(const E& o) const { live(); o.live(); return v < o.v; }
  bool operator>(const E& o) const { live(); o.live(); return v > o.v; }
  void live() const { if(magic != LIVE_MAGIC) { printf("FAIL: use of an object that is not alive %p\n", (const void*)this); exit(1);} if(*heap != v) { printf("FAIL: corrupted object\n"); exit(1);} }
private:
  void reg() { if(magic == LIVE_MAGIC) { printf("FAIL: constructing over a live object %p\n", (const void*)this); exit(1);} heap = (int*)malloc(sizeof(int)); *heap = v; magic = LIVE_MAGIC; ++g_ctor; }
};
inline usize hash(const E& e) { e.live(); return (usize)e.v; }

static unsigned g_seed = 12345;
static unsigned rnd() { g_seed = g_seed * 1103515245u + 12345u; return (g_seed >> 16) & 0x7fff; }
