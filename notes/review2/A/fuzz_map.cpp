// differential fuzz: Map<E,E>, MultiMap<E,E> against a sorted reference; lookup cost bound
#include "track.h"
#include <math.h>
#include <nstd/Map.hpp>
#include <nstd/MultiMap.hpp>

static long g_cmp = 0;
struct K : E
{
  K() {} K(int v) : E(v) {}
  bool operator<(const K& o) const { ++g_cmp; return E::operator<(o); }
  bool operator>(const K& o) const { ++g_cmp; return E::operator>(o); }
  bool operator<=(const K& o) const { ++g_cmp; return !E::operator>(o); }
  bool operator>=(const K& o) const { ++g_cmp; return !E::operator<(o); }
  bool operator==(const K& o) const { ++g_cmp; return E::operator==(o); }
  bool operator!=(const K& o) const { ++g_cmp; return E::operator!=(o); }
};

enum { MAXN = 2048, KEYS = 64 };
struct Ref
{
  int k[MAXN], v[MAXN]; const void* addr[MAXN]; int n;
  Ref() : n(0) {}
  int lower(int key) const { int i = 0; while(i < n && k[i] < key) ++i; return i; }
  int upper(int key) const { int i = 0; while(i < n && k[i] <= key) ++i; return i; }
  int find(int key) const { int i = lower(key); return i < n && k[i] == key ? i : -1; }
  int count(int key) const { return upper(key) - lower(key); }
  void ins(int pos, int key, int val, const void* p)
  {
    memmove(k + pos + 1, k + pos, (n - pos) * sizeof(int)); memmove(v + pos + 1, v + pos, (n - pos) * sizeof(int)); memmove(addr + pos + 1, addr + pos, (n - pos) * sizeof(void*));
    k[pos] = key; v[pos] = val; addr[pos] = p; ++n;
  }
  void del(int pos)
  {
    memmove(k + pos, k + pos + 1, (n - pos - 1) * sizeof(int)); memmove(v + pos, v + pos + 1, (n - pos - 1) * sizeof(int)); memmove(addr + pos, addr + pos + 1, (n - pos - 1) * sizeof(void*));
    --n;
  }
};

static int g_keys = KEYS;

template<class M> static void check(const M& x, const Ref& r, bool multi, bool addrs = true)
{
  CHECK((int)x.size() == r.n); CHECK(x.isEmpty() == (r.n == 0));
  int j = 0;
  for(typename M::Iterator i = x.begin(); i != x.end(); ++i, ++j) { CHECK(i.key().v == r.k[j]); CHECK(i->v == r.v[j]); i->live(); i.key().live(); if(addrs) CHECK(&*i == r.addr[j]); }
  CHECK(j == r.n);
  typename M::Iterator i = x.end(); for(j = r.n; j > 0; --j) { --i; CHECK(i.key().v == r.k[j - 1]); } CHECK(i == x.begin());
  if(r.n) { CHECK(x.front().v == r.v[0]); CHECK(x.back().v == r.v[r.n - 1]); }
  long bound = 2 * (long)floor(1.4405 * log2((double)r.n + 2));
  for(int key = -1; key <= g_keys; ++key)
  {
    K e(key); int p = r.find(key);
    g_cmp = 0;
    typename M::Iterator it = x.find(e);
    if(g_cmp > bound) { printf("FAIL: find(%d) among %d entries took %ld comparisons, bound %ld\n", key, r.n, g_cmp, bound); exit(1); }
    CHECK(x.contains(e) == (p >= 0));
    if(p < 0) CHECK(it == x.end());
    else { CHECK(it.key().v == key); if(!multi) { CHECK(it->v == r.v[p]); if(addrs) CHECK(&*it == r.addr[p]); } }
  }
}

template<class M> static typename M::Iterator nth(M& x, int k) { typename M::Iterator it = x.begin(); while(k--) ++it; return it; }
template<class M> static int indexOf(M& x, typename M::Iterator it) { int k = 0; for(typename M::Iterator i = x.begin(); i != it; ++i) ++k; return k; }
template<class M> static void rebuild(M& x, Ref& r) { r.n = 0; int j = 0; for(typename M::Iterator i = x.begin(); i != x.end(); ++i, ++j) r.ins(j, i.key().v, i->v, &*i); }

static void fuzzMap(int rounds, int mode)
{
  typedef Map<K, E> M;
  M* x = new M; Ref* r = new Ref; M* y = new M; Ref* s = new Ref;
  int seq = 0;
  for(int step = 0; step < rounds; ++step)
  {
    int op = rnd() % 20; int key = rnd() % g_keys, v = rnd() % 1000;
    if(mode == 1) key = seq++ % g_keys;               // ascending runs
    if(mode == 2) key = g_keys - 1 - (seq++ % g_keys); // descending runs
    if(mode == 3 && op >= 6 && op <= 9 && rnd() % 3) op = 0; // grow mostly
    switch(op)
    {
    case 0: case 1: case 2: { K k(key); E e(v); M::Iterator ret = x->insert(k, e); int p = r->find(key); if(p >= 0) { r->v[p] = v; CHECK(&*ret == r->addr[p]); } else r->ins(r->lower(key), key, v, &*ret); CHECK(ret.key().v == key); CHECK(ret->v == v); break; }
    case 3: case 4: { // any hint
        int pos = rnd() % (r->n + 1); if(rnd() & 1) { pos = r->lower(key) + (int)(rnd() % 3) - 1; if(pos < 0) pos = 0; if(pos > r->n) pos = r->n; }
        K k(key); E e(v); M::Iterator ret = x->insert(nth(*x, pos), k, e); int p = r->find(key); if(p >= 0) { r->v[p] = v; CHECK(&*ret == r->addr[p]); } else r->ins(r->lower(key), key, v, &*ret); CHECK(ret.key().v == key); CHECK(ret->v == v); break; }
    case 5: if(r->n) { // own key / own value as arguments
        int a = rnd() % r->n, b = rnd() % r->n; int vv = r->v[b]; M::Iterator ret = rnd() & 1 ? x->insert(nth(*x, a).key(), *nth(*x, b)) : x->insert(nth(*x, rnd() % (r->n + 1)), nth(*x, a).key(), *nth(*x, b)); r->v[a] = vv; CHECK(&*ret == r->addr[a]); } break;
    case 6: { K k(key); x->remove(k); int p = r->find(key); if(p >= 0) r->del(p); break; }
    case 7: if(r->n) { int p = rnd() % r->n; x->remove(nth(*x, p).key()); r->del(p); } break;
    case 8: if(r->n) { int p = rnd() % r->n; M::Iterator ret = x->remove(nth(*x, p)); r->del(p); if(p == r->n) CHECK(ret == x->end()); else CHECK(&*ret == r->addr[p]); } break;
    case 9: if(r->n) { if(rnd() & 1) { M::Iterator ret = x->removeFront(); r->del(0); CHECK(ret == x->begin()); } else { M::Iterator ret = x->removeBack(); r->del(r->n - 1); CHECK(ret == x->end()); } } break;
    case 10: if(rnd() % 16 == 0) { x->clear(); r->n = 0; } break;
    case 11: if(rnd() % 4 == 0) { M c(*x); check(c, *r, false, false); if(r->n) { E e(-5); c.insert(c.begin().key(), e); CHECK(x->front().v == r->v[0]); } } break;
    case 12: if(rnd() % 4 == 0) { *y = *x; rebuild(*y, *s); } break;
    case 13: { M& alias = *x; *x = alias; break; }
    case 14: if(rnd() % 4 == 0) { // bulk insert
        x->insert(*y); for(int j = 0; j < s->n; ++j) { int p = r->find(s->k[j]); K k(s->k[j]); if(p >= 0) r->v[p] = s->v[j]; else r->ins(r->lower(s->k[j]), s->k[j], s->v[j], &*x->find(k)); } } break;
    case 15: { x->insert(*x); break; }
    case 16: if(rnd() % 16 == 0) { delete x; x = new M; r->n = 0; } break;
    case 17: if(rnd() % 8 == 0) { M* c = new M(*x); delete x; x = c; rebuild(*x, *r); } break;
    case 18: if(rnd() % 8 == 0) { M* t = x; x = y; y = t; Ref* tr = r; r = s; s = tr; } break;
    default: break;
    }
    check(*x, *r, false);
    if((step & 15) == 0) check(*y, *s, false);
  }
  delete x; delete y; delete r; delete s;
  CHECK(g_ctor == g_dtor);
}

static void fuzzMultiMap(int rounds, int mode)
{
  typedef MultiMap<K, E> M;
  M* x = new M; Ref* r = new Ref; M* y = new M; Ref* s = new Ref;
  int seq = 0;
  for(int step = 0; step < rounds; ++step)
  {
    int op = rnd() % 20; int key = rnd() % g_keys, v = rnd() % 100000;
    if(mode == 1) key = (seq++ / 3) % g_keys;
    if(mode == 2) key = g_keys - 1 - ((seq++ / 3) % g_keys);
    if(mode == 3 && op >= 6 && op <= 9 && rnd() % 3) op = 0;
    if(r->n > 1500) op = 10;
    switch(op)
    {
    case 0: case 1: case 2: { K k(key); E e(v); M::Iterator ret = x->insert(k, e); r->ins(r->upper(key), key, v, &*ret); CHECK(ret.key().v == key); CHECK(ret->v == v); break; }
    case 3: case 4: { // any hint: the position among equal keys is the container's choice, the order must stay ascending
        int pos = rnd() % (r->n + 1); if(rnd() & 1) { pos = (rnd() & 1 ? r->lower(key) : r->upper(key)) + (int)(rnd() % 3) - 1; if(pos < 0) pos = 0; if(pos > r->n) pos = r->n; }
        K k(key); E e(v); M::Iterator ret = x->insert(nth(*x, pos), k, e); int at = indexOf(*x, ret); CHECK(at >= r->lower(key) && at <= r->upper(key)); r->ins(at, key, v, &*ret); CHECK(ret.key().v == key); CHECK(ret->v == v); break; }
    case 5: if(r->n) { int a = rnd() % r->n, b = rnd() % r->n; int kk = r->k[a], vv = r->v[b]; M::Iterator ret = x->insert(nth(*x, a).key(), *nth(*x, b)); r->ins(r->upper(kk), kk, vv, &*ret); } break;
    case 6: { K k(key); int c = r->count(key); g_cmp = 0; CHECK((int)x->count(k) == c); x->remove(k); if(c) { // removes one of them: find which
          int lo = r->lower(key), j = lo; M::Iterator it = nth(*x, lo); for(; j < lo + c - 1 && &*it == r->addr[j]; ++j, ++it) ; r->del(j); } break; }
    case 7: if(r->n) { int p = rnd() % r->n; int kk = r->k[p]; int c = r->count(kk); x->remove(nth(*x, p).key()); int lo = r->lower(kk), j = lo; M::Iterator it = nth(*x, lo); for(; j < lo + c - 1 && &*it == r->addr[j]; ++j, ++it) ; r->del(j); } break;
    case 8: if(r->n) { int p = rnd() % r->n; M::Iterator ret = x->remove(nth(*x, p)); r->del(p); if(p == r->n) CHECK(ret == x->end()); else CHECK(&*ret == r->addr[p]); } break;
    case 9: if(r->n) { if(rnd() & 1) { M::Iterator ret = x->removeFront(); r->del(0); CHECK(ret == x->begin()); } else { M::Iterator ret = x->removeBack(); r->del(r->n - 1); CHECK(ret == x->end()); } } break;
    case 10: if(rnd() % 16 == 0 || r->n > 1500) { x->clear(); r->n = 0; } break;
    case 11: if(rnd() % 4 == 0) { M c(*x); check(c, *r, true, false); if(r->n) { c.front() = E(-5); CHECK(x->front().v == r->v[0]); } } break;
    case 12: if(rnd() % 4 == 0) { *y = *x; rebuild(*y, *s); for(int j = 0; j < r->n; ++j) { CHECK(s->k[j] == r->k[j]); CHECK(s->v[j] == r->v[j]); } } break;
    case 13: { M& alias = *x; *x = alias; break; }
    case 16: if(rnd() % 16 == 0) { delete x; x = new M; r->n = 0; } break;
    case 17: if(rnd() % 8 == 0) { M* c = new M(*x); delete x; x = c; Ref old = *r; rebuild(*x, *r); for(int j = 0; j < r->n; ++j) { CHECK(old.k[j] == r->k[j]); CHECK(old.v[j] == r->v[j]); } } break;
    case 18: if(rnd() % 8 == 0) { M* t = x; x = y; y = t; Ref* tr = r; r = s; s = tr; } break;
    default: { K k(key); CHECK((int)x->count(k) == r->count(key)); break; }
    }
    check(*x, *r, true);
    if((step & 15) == 0) check(*y, *s, true);
  }
  delete x; delete y; delete r; delete s;
  CHECK(g_ctor == g_dtor);
}

int main(int argc, char** argv)
{
  int rounds = argc > 1 ? atoi(argv[1]) : 20000;
  int keyCounts[] = {64, 6, 300};
  for(int kc = 0; kc < 3; ++kc)
    for(int mode = 0; mode < 4; ++mode)
    {
      g_keys = keyCounts[kc];
      g_seed = 99 + mode * 31 + kc;
      fuzzMap(rounds, mode);
      fuzzMultiMap(rounds, mode);
    }
  printf("ok ctor=%ld dtor=%ld\n", g_ctor, g_dtor);
  return 0;
}
