// check the AVL invariants (stored heights right, |slope| <= 1, parent links) after every operation
#include <stdio.h>
#include <stdlib.h>
#define private public
#include <nstd/Map.hpp>
#include <nstd/MultiMap.hpp>
#undef private

static unsigned g_seed = 1;
static unsigned rnd() { g_seed = g_seed * 1103515245u + 12345u; return (g_seed >> 16) & 0x7fff; }
static long g_viol = 0; static long g_stale = 0;

template<class M> static usize checkNode(typename M::Item* item, typename M::Item* parent)
{
  if(!item) return 0;
  if(item->parent != parent) { printf("FAIL: parent link\n"); exit(1); }
  usize l = checkNode<M>(item->left, item), r = checkNode<M>(item->right, item);
  usize h = (l > r ? l : r) + 1;
  if(item->height != h || item->slope != (ssize)l - (ssize)r) ++g_stale;
  if((ssize)l - (ssize)r > 1 || (ssize)r - (ssize)l > 1) ++g_viol;
  return h;
}

template<class M> static void run(int rounds, int keys, int mode, const char* name)
{
  M m; int seq = 0;
  for(int step = 0; step < rounds; ++step)
  {
    int op = rnd() % 10; int key = rnd() % keys;
    if(mode == 1) key = seq++ % keys;
    if(mode == 2) { // grow, then delete in chunks
      if((step / keys) & 1) op = 7; else op = 0; }
    if(op < 4) m.insert(key, step);
    else if(op < 6) { if(m.size()) { typename M::Iterator it = m.begin(); for(int j = rnd() % m.size(); j > 0; --j) ++it; m.insert(it, key, step); } else m.insert(m.end(), key, step); }
    else if(op < 8) m.remove(key);
    else if(op == 8) { if(m.size()) { typename M::Iterator it = m.begin(); for(int j = rnd() % m.size(); j > 0; --j) ++it; m.remove(it); } }
    else if(m.size()) { if(rnd() & 1) m.removeFront(); else m.removeBack(); }
    long v = g_viol, s = g_stale;
    checkNode<M>(m.root, 0);
    if(g_viol != v || g_stale != s) { printf("FAIL: %s keys=%d mode=%d step=%d op=%d key=%d size=%d: %s\n", name, keys, mode, step, op, key, (int)m.size(), g_viol != v ? "unbalanced node" : "stale height/slope"); exit(1); }
  }
}

int main()
{
  int keyCounts[] = {8, 16, 40, 200, 1000};
  for(int kc = 0; kc < 5; ++kc) for(int mode = 0; mode < 3; ++mode)
  {
    g_seed = 17 + kc * 5 + mode;
    run<Map<int, int> >(200000 / (kc + 1), keyCounts[kc], mode, "Map");
    run<MultiMap<int, int> >(200000 / (kc + 1), keyCounts[kc], mode, "MultiMap");
  }
  printf("ok\n");
  return 0;
}
