// C12: randomized lock-step comparison of Callback against a reference model (nested operations from inside slots)
#define private public
#define protected public
#include <nstd/Callback.hpp>
#undef private
#undef protected
#include <stdio.h>
#include <stdlib.h>

enum {NE = 3, NL = 4, NSIG = 2, NSLOT = 2, MAXDEPTH = 5};

struct E; struct L;
static E* em[NE]; static L* li[NL];
static unsigned long long rngState = 1;
static unsigned rnd(unsigned n) { rngState = rngState * 6364136223846793005ULL + 1442695040888963407ULL; return (unsigned)(rngState >> 33) % n; }
static int seedNo; static long stepNo; static long statInv, statNested, statDelInSlot, statMaxDepth;
static void fail(const char* what) { printf("FAIL: seed %d step %ld: %s\n", seedNo, stepNo, what); fflush(stdout); exit(1); }

// ---- model
struct Conn { int e, sig, l, slot; bool alive; long seq; };
static Conn conns[100000]; static int nconns; static long clockNo;
struct Frame { int e, sig; long startSeq; int cursor; bool dead; };
static Frame frames[64]; static int nframes;

static void mConnect(int e, int sig, int l, int slot) { Conn& c = conns[nconns++]; c.e = e; c.sig = sig; c.l = l; c.slot = slot; c.alive = true; c.seq = ++clockNo; }
static void mDisconnect(int e, int sig, int l, int slot) { for(int i = 0; i < nconns; ++i) { Conn& c = conns[i]; if(c.alive && c.e == e && c.sig == sig && c.l == l && c.slot == slot) { c.alive = false; return; } } }
static void mKillL(int l) { for(int i = 0; i < nconns; ++i) if(conns[i].l == l) conns[i].alive = false; }
static void mKillE(int e) { for(int i = 0; i < nconns; ++i) if(conns[i].e == e) conns[i].alive = false; for(int i = 0; i < nframes; ++i) if(frames[i].e == e) frames[i].dead = true; }
static void mPush(int e, int sig)
{
  Frame& f = frames[nframes]; f.e = e; f.sig = sig; f.cursor = 0; f.dead = false; f.startSeq = ++clockNo;
  for(int i = 0; i < nframes; ++i) if(!frames[i].dead && frames[i].e == e && frames[i].sig == sig) { f.startSeq = frames[i].startSeq; break; }
  ++nframes;
}
static int mNext(Frame& f) // next connection to be invoked by frame f or -1
{
  if(f.dead) return -1;
  for(; f.cursor < nconns; ++f.cursor) { Conn& c = conns[f.cursor]; if(c.alive && c.e == f.e && c.sig == f.sig && c.seq < f.startSeq) return f.cursor; }
  return -1;
}

// ---- real
static void randomAction(int depth);
struct L : public Callback::Listener
{
  int id;
  void invoked(int slot, int v)
  {
    ++stepNo;
    if(nframes == 0) fail("slot invoked without emission");
    Frame& f = frames[nframes - 1];
    int c = mNext(f);
    if(c < 0) fail("slot invoked although the model expects no further slot in this emission");
    if(conns[c].l != id || conns[c].slot != slot || v != f.e * 10 + f.sig) { printf("expected listener %d slot %d, got listener %d slot %d (arg %d)\n", conns[c].l, conns[c].slot, id, slot, v); fail("wrong slot invoked"); }
    ++f.cursor; ++statInv;
    int depth = nframes; if(depth > 1) ++statNested; if(depth > statMaxDepth) statMaxDepth = depth;
    int n = rnd(3);
    for(int i = 0; i < n; ++i) randomAction(depth);
  }
  void s0(int v) { invoked(0, v); }
  void s1(int v) { invoked(1, v); }
};
typedef void (L::*SlotPtr)(int);
static SlotPtr slotPtr(int s) { return s == 0 ? &L::s0 : &L::s1; }

struct E : public Callback::Emitter
{
  int id;
  void sig0(int v) { emit(&E::sig0, v); }
  void sig1(int v) { emit(&E::sig1, v); }
};
typedef void (E::*SigPtr)(int);
static SigPtr sigPtr(int s) { return s == 0 ? &E::sig0 : &E::sig1; }

static void doEmit(int e, int sig)
{
  mPush(e, sig);
  int my = nframes;
  if(sig == 0) em[e]->sig0(e * 10 + sig); else em[e]->sig1(e * 10 + sig);
  if(nframes != my) fail("frame stack");
  if(mNext(frames[nframes - 1]) >= 0) fail("emission returned although a connected slot was not invoked");
  --nframes;
}

static void randomAction(int depth)
{
  unsigned a = rnd(100);
  int e = rnd(NE), l = rnd(NL), sig = rnd(NSIG), slot = rnd(NSLOT);
  if(a < 35) { if(em[e] && li[l]) { Callback::connect(em[e], sigPtr(sig), li[l], slotPtr(slot)); mConnect(e, sig, l, slot); } }
  else if(a < 60) { if(em[e] && li[l]) { Callback::disconnect(em[e], sigPtr(sig), li[l], slotPtr(slot)); mDisconnect(e, sig, l, slot); } }
  else if(a < 85) { if(em[e] && depth < MAXDEPTH) doEmit(e, sig); }
  else if(a < 89) { if(li[l]) { if(depth) ++statDelInSlot; delete li[l]; li[l] = 0; mKillL(l); } }
  else if(a < 92) { if(em[e]) { if(depth) ++statDelInSlot; delete em[e]; em[e] = 0; mKillE(e); } }
  else { { if(!em[e]) { em[e] = new E; em[e]->id = e; } if(!li[l]) { li[l] = new L; li[l]->id = l; } } }
}

static void checkBookkeeping()
{
  // emitter side
  for(int e = 0; e < NE; ++e) if(em[e])
    for(int sig = 0; sig < NSIG; ++sig)
    {
      Callback::MemberFuncPtr key(sigPtr(sig));
      Map<Callback::MemberFuncPtr, Callback::Emitter::SignalData>::Iterator it = em[e]->signalData.find(key);
      int ci = 0;
      if(it != em[e]->signalData.end())
      {
        if(it->activation) fail("activation left behind");
        for(List<Callback::Emitter::Slot>::Iterator s = it->slots.begin(); s != it->slots.end(); ++s)
        {
          for(; ci < nconns; ++ci) if(conns[ci].alive && conns[ci].e == e && conns[ci].sig == sig) break;
          if(ci == nconns) fail("emitter lists a slot that is not a live connection");
          Conn& c = conns[ci++];
          if(s->state != Callback::Emitter::Slot::connected) fail("slot state not connected outside of emissions");
          if(s->receiver != li[c.l] || !(s->slot == Callback::MemberFuncPtr(slotPtr(c.slot)))) fail("emitter slot list differs from live connections");
        }
      }
      for(; ci < nconns; ++ci) if(conns[ci].alive && conns[ci].e == e && conns[ci].sig == sig) fail("live connection missing in emitter");
    }
  // listener side
  for(int l = 0; l < NL; ++l) if(li[l])
  {
    long have = 0, want = 0;
    for(Map<Callback::Emitter*, List<Callback::Listener::Signal> >::Iterator i = li[l]->slotData.begin(); i != li[l]->slotData.end(); ++i)
      for(List<Callback::Listener::Signal>::Iterator s = i->begin(); s != i->end(); ++s)
      {
        ++have;
        int e = -1; for(int k = 0; k < NE; ++k) if(em[k] == i.key()) e = k;
        if(e < 0) fail("listener lists a connection to a destroyed emitter");
        bool found = false;
        for(int ci = 0; ci < nconns; ++ci) { Conn& c = conns[ci]; if(c.alive && c.e == e && c.l == l && s->signal == Callback::MemberFuncPtr(sigPtr(c.sig)) && s->slot == Callback::MemberFuncPtr(slotPtr(c.slot))) found = true; }
        if(!found) fail("listener lists a connection that is not live");
      }
    for(int ci = 0; ci < nconns; ++ci) if(conns[ci].alive && conns[ci].l == l) ++want;
    if(have != want) fail("listener connection count differs");
  }
}

int main(int argc, char** argv)
{
  int seeds = argc > 1 ? atoi(argv[1]) : 2000;
  int first = argc > 2 ? atoi(argv[2]) : 1;
  for(seedNo = first; seedNo < first + seeds; ++seedNo)
  {
    rngState = seedNo * 7919ULL + 13; nconns = 0; nframes = 0; clockNo = 0; stepNo = 0;
    for(int i = 0; i < NE; ++i) { em[i] = new E; em[i]->id = i; }
    for(int i = 0; i < NL; ++i) { li[i] = new L; li[i]->id = i; }
    for(int step = 0; step < 150; ++step)
    {
      randomAction(0);
      if(nframes) fail("frames left");
      checkBookkeeping();
    }
    for(int i = 0; i < NE; ++i) if(rnd(2)) { delete em[i]; em[i] = 0; mKillE(i); }
    checkBookkeeping();
    for(int i = 0; i < NL; ++i) { delete li[i]; li[i] = 0; mKillL(i); }
    checkBookkeeping();
    for(int i = 0; i < NE; ++i) { delete em[i]; em[i] = 0; }
  }
  printf("ok (%d seeds, %ld slot invocations, %ld nested, %ld destructions inside slots, max depth %ld)\n", seeds, statInv, statNested, statDelInSlot, statMaxDepth);
  return 0;
}
