// C11: timed waits with very large timeouts must not return false early
#include <nstd/Signal.hpp>
#include <nstd/Semaphore.hpp>
#include <nstd/Monitor.hpp>
#include <nstd/Time.hpp>
#include <nstd/Thread.hpp>
#include <stdio.h>
#include <stdlib.h>
#include <unistd.h>

static Signal sig; static Semaphore sem; static Monitor mon;
static int64 timeouts[] = {0x7fffffffffffffffLL, 0x7fffffffffffffffLL / 2, 1000LL * 0x7fffffff, 1000LL * 0x100000000LL, 4294967296LL, 9223372036854775LL * 1000};
static volatile int failed = 0;
static uint waiter(void* p)
{
  int64 t = *(int64*)p;
  int64 start = Time::ticks();
  bool r = sig.wait(t);
  if(!r) { printf("FAIL: Signal::wait(%lld) returned false after %lld ms\n", (long long)t, (long long)(Time::ticks() - start)); failed = 1; }
  start = Time::ticks();
  r = sem.wait(t);
  if(!r) { printf("FAIL: Semaphore::wait(%lld) returned false after %lld ms\n", (long long)t, (long long)(Time::ticks() - start)); failed = 1; }
  start = Time::ticks();
  mon.lock();
  r = mon.wait(t);
  mon.unlock();
  if(!r) { printf("FAIL: Monitor::wait(%lld) returned false after %lld ms\n", (long long)t, (long long)(Time::ticks() - start)); failed = 1; }
  return 0;
}
int main()
{
  for(unsigned i = 0; i < sizeof(timeouts) / sizeof(*timeouts); ++i)
  {
    Thread t; t.start(&waiter, &timeouts[i]);
    Thread::sleep(150); sig.set(); Thread::sleep(150); sig.reset(); sem.signal(); Thread::sleep(150); mon.set();
    t.join();
  }
  if(failed) return 1;
  printf("ok\n");
  return 0;
}
