// side note (not covered by the C11 statement): Semaphore::wait() returns false when a signal handler interrupts it
#include <nstd/Semaphore.hpp>
#include <nstd/Thread.hpp>
#include <signal.h>
#include <pthread.h>
#include <stdio.h>
static Semaphore sem;
static volatile int result = -1;
static void handler(int) {}
static uint waiter(void*) { result = sem.wait() ? 1 : 0; return 0; }
int main()
{
  struct sigaction sa; sa.sa_handler = handler; sigemptyset(&sa.sa_mask); sa.sa_flags = 0; sigaction(SIGUSR1, &sa, 0);
  pthread_t t; pthread_create(&t, 0, (void* (*)(void*))waiter, 0);
  Thread::sleep(100);
  pthread_kill(t, SIGUSR1);
  Thread::sleep(100);
  int r = result;
  sem.signal();
  pthread_join(t, 0);
  if(r == 0) { printf("FAIL: Semaphore::wait() returned false although nobody signalled and no timeout exists\n"); return 1; }
  printf("ok\n"); return 0;
}
