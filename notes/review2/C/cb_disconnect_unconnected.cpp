// C12: Callback::disconnect for a listener that has no connection to the emitter (while another listener is connected to the same signal)
#include <nstd/Callback.hpp>
#include <stdio.h>
#include <stdlib.h>
#include <signal.h>

struct E : public Callback::Emitter { void sig() { emit(&E::sig); } };
struct L : public Callback::Listener { int n; L() : n(0) {} void slot() { ++n; } };

static void onCrash(int) { printf("FAIL: disconnect of a never-connected listener crashed\n"); _exit(1); }

int main()
{
  signal(SIGSEGV, onCrash); signal(SIGBUS, onCrash); signal(SIGILL, onCrash); signal(SIGABRT, onCrash);
  E e; L l1; 
  Callback::connect(&e, &E::sig, &l1, &L::slot);
  {
    L l2; // never connected to e
    Callback::disconnect(&e, &E::sig, &l2, &L::slot); // no such connection: must be a no-op
  }
  e.sig();
  if(l1.n != 1) { printf("FAIL: l1.n=%d\n", l1.n); return 1; }
  printf("ok\n");
  return 0;
}
