// stress: many clients, short jobs, pauses to trigger shrinking; watchdog detects a hang
#include <nstd/Future.hpp>
#include <nstd/Thread.hpp>
#include <nstd/Atomic.hpp>
#include <nstd/Time.hpp>
#include <stdio.h>
#include <stdlib.h>
#include <unistd.h>

static volatile uint64 calls = 0;
static volatile int64 progress = 0;
static int work(int a, int b) { Atomic::increment(calls); return a * 1000 + b; }
static void slow(int ms) { Atomic::increment(calls); Thread::sleep(ms); }

struct Client
{
  int id; int rounds; volatile bool failed;
  uint run()
  {
    for(int r = 0; r < rounds; ++r)
    {
      Future<int> f[8];
      for(int i = 0; i < 8; ++i) f[i].start(&work, id, r * 8 + i);
      for(int i = 0; i < 8; ++i) { int v = f[i]; if(v != id * 1000 + r * 8 + i || !f[i].isFinished() || f[i].isAborted()) failed = true; }
      Atomic::increment(progress);
      if((r % 50) == 49 && id % 2 == 0) Thread::sleep(2200 + id * 37); // let the pool idle so that it shrinks
      else if(r % 7 == 0) Thread::sleep(1);
    }
    return 0;
  }
};

static uint watchdog(void*)
{
  int64 last = -1; 
  for(;;)
  {
    Thread::sleep(8000);
    int64 p = progress;
    if(p == last) { printf("FAIL: no progress for 8s (progress=%lld)\n", (long long)p); (fflush(stdout), _exit(1)); }
    if(p < 0) return 0;
    last = p;
  }
}

int main(int argc, char** argv)
{
  int nclients = argc > 1 ? atoi(argv[1]) : 4;
  int rounds = argc > 2 ? atoi(argv[2]) : 200;
  Thread wd; wd.start(&watchdog, 0);
  Client c[16]; Thread t[16];
  for(int i = 0; i < nclients; ++i) { c[i].id = i; c[i].rounds = rounds; c[i].failed = false; t[i].start(c[i], &Client::run); }
  for(int i = 0; i < nclients; ++i) t[i].join();
  bool failed = false;
  for(int i = 0; i < nclients; ++i) failed |= c[i].failed;
  if(calls != (uint64)nclients * rounds * 8) { printf("FAIL: calls=%llu\n", (unsigned long long)calls); failed = true; }
  // queue-full phase
  {
    calls = 0;
    Future<void>* f = new Future<void>[600];
    for(int i = 0; i < 600; ++i) { f[i].start(&slow, 2); Atomic::increment(progress); }
    for(int i = 0; i < 600; ++i) f[i].join();
    if(calls != 600) { printf("FAIL: calls=%llu\n", (unsigned long long)calls); failed = true; }
    delete[] f;
  }
  if(failed) { printf("FAIL\n"); (fflush(stdout), _exit(1)); }
  printf("ok\n");
  (fflush(stdout), _exit(0));
}
