// C11: two threads wait on a Monitor, then set() is called twice: both sets are issued after both waiters have taken
// the monitor, but only one waiter is released; the other one stays blocked although no set() is left pending.
#include <nstd/Monitor.hpp>
#include <nstd/Thread.hpp>
#include <nstd/Atomic.hpp>
#include <stdio.h>
#include <stdlib.h>

static Monitor monitor;
static volatile int32 waiting = 0;
static volatile int32 released = 0;

static uint waiter(void*)
{
  monitor.lock();
  Atomic::increment(waiting); // still holding the monitor: set() cannot run before this thread sleeps in wait()
  bool result = monitor.wait();
  monitor.unlock();
  if(result)
    Atomic::increment(released);
  return 0;
}

int main()
{
  int lost = 0, rounds = 200;
  for(int round = 0; round < rounds; ++round)
  {
    waiting = 0; released = 0;
    Thread* t1 = new Thread; Thread* t2 = new Thread;
    t1->start(&waiter, 0); t2->start(&waiter, 0);
    while(waiting != 2) Thread::yield();
    monitor.lock(); monitor.unlock(); // both waiters have released the monitor inside wait() now
    monitor.set();
    monitor.set();
    for(int i = 0; i < 300 && released != 2; ++i) Thread::sleep(1);
    if(released != 2)
    {
      ++lost;
      if(lost == 1) printf("round %d: 2 x set() after 2 waiters took the monitor, released waiters: %d\n", round, (int)released);
      while(released != 2) { monitor.set(); Thread::sleep(1); } // rescue the blocked waiter
    }
    delete t1; delete t2;
  }
  if(lost) { printf("FAIL: in %d of %d rounds the second set() released nobody and a waiter stayed blocked\n", lost, rounds); return 1; }
  printf("ok\n");
  return 0;
}
