// C11: Monitor::set() calls pthread_cond_signal AFTER it has released the mutex (src/Monitor.cpp:134-135). A waiter that
// wakes up spuriously in that window sees signaled == true, returns true from wait() and may destroy the Monitor at
// once - set() then signals a destroyed condition variable (the same defect that was repaired in Signal::set).
//
// The window cannot be hit on demand, so this program makes the two legal events happen deterministically by
// interposing the pthread functions: pthread_cond_wait returns spuriously (POSIX allows that at any time), and the
// setter is "preempted" (sleeps) on entry to pthread_cond_signal. pthread_cond_destroy records the destruction.
#ifndef _GNU_SOURCE
#define _GNU_SOURCE
#endif
#include <pthread.h>
#include <dlfcn.h>
#include <unistd.h>
#include <stdio.h>
#include <stdlib.h>
#include <nstd/Monitor.hpp>
#include <nstd/Thread.hpp>

static pthread_cond_t* volatile destroyedCond = 0;
static volatile bool interpose = false;

extern "C" int pthread_cond_wait(pthread_cond_t* c, pthread_mutex_t* m)
{
  if(interpose)
  { // a spurious wake-up: release the mutex, return a little later with the mutex re-acquired
    pthread_mutex_unlock(m);
    usleep(10 * 1000);
    pthread_mutex_lock(m);
    return 0;
  }
  static int (*real)(pthread_cond_t*, pthread_mutex_t*) = (int (*)(pthread_cond_t*, pthread_mutex_t*))dlsym(RTLD_NEXT, "pthread_cond_wait");
  return real(c, m);
}

extern "C" int pthread_cond_destroy(pthread_cond_t* c)
{
  static int (*real)(pthread_cond_t*) = (int (*)(pthread_cond_t*))dlsym(RTLD_NEXT, "pthread_cond_destroy");
  if(interpose)
    destroyedCond = c;
  return real(c);
}

extern "C" int pthread_cond_signal(pthread_cond_t* c)
{
  static int (*real)(pthread_cond_t*) = (int (*)(pthread_cond_t*))dlsym(RTLD_NEXT, "pthread_cond_signal");
  if(interpose)
  {
    usleep(200 * 1000); // the setter is preempted between pthread_mutex_unlock and pthread_cond_signal
    if(destroyedCond == c)
    {
      printf("FAIL: Monitor::set() signals the condition variable of a Monitor that the released waiter has already destroyed\n");
      fflush(stdout);
      _exit(1);
    }
  }
  return real(c);
}

static Monitor* monitor;
static volatile bool waiterHasMonitor = false;

static uint waiter(void*)
{
  monitor->lock();
  waiterHasMonitor = true;
  bool released = monitor->wait(); // returns true: set() was called
  monitor->unlock();
  if(released)
  {
    delete monitor; // the waiter was released by set(), it is done with the monitor
    monitor = 0;
  }
  return 0;
}

int main()
{
  monitor = new Monitor;
  interpose = true;
  Thread thread;
  thread.start(&waiter, 0);
  while(!waiterHasMonitor) Thread::yield();
  monitor->set(); // issued after the waiter has taken the monitor
  thread.join();
  printf("ok\n");
  return 0;
}
