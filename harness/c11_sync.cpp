// C11: Mutex, Semaphore, Signal, Monitor and Thread on top of a POSIX model of pthreads (engine), every interleaving
// within the preemption bound, spurious wake-ups and time-outs included; deadline arithmetic for all time-outs.
#include <nstd/Mutex.hpp>
#include <nstd/Semaphore.hpp>
#include <nstd/Signal.hpp>
#include <nstd/Monitor.hpp>
#include <nstd/Thread.hpp>
#include <nstd/Atomic.hpp>
#include "vf.h"

#ifndef VF_OPS
#define VF_OPS 2
#endif

// ------------------------------------------------------------------------------------------------ Mutex
static Mutex* g_mutex; static volatile int g_inCS; static int g_counter; static volatile int g_owner;
static uint mutexThread(void* arg)
{
  unsigned depth = (unsigned)(usize)arg;                 // 1 = plain, 2 = re-entrant
  for(unsigned k = 0; k < VF_OPS; ++k)
  {
    g_mutex->lock();
    if(depth == 2) g_mutex->lock();                      // re-entrant for its owner
    vf_assert(g_inCS == 0, "mutual exclusion: one thread at a time");
    g_inCS = 1; ++g_counter; g_inCS = 0;
    if(depth == 2) g_mutex->unlock();
    g_mutex->unlock();
  }
  return 7;
}
static uint tryThread(void*)
{
  bool got = g_mutex->tryLock();                         // never blocks
  if(got) { vf_assert(g_inCS == 0, "tryLock succeeded while another thread is inside"); g_inCS = 1; ++g_counter; g_inCS = 0; g_mutex->unlock(); }
  return got ? 1 : 0;
}
extern "C" int mutex()
{
  {
    Mutex m; g_mutex = &m; g_inCS = 0; g_counter = 0;
    vf_assert(m.tryLock(), "tryLock succeeds when the mutex is free"); m.unlock();
    Thread a, b, c;
    unsigned da = 1 + vf_pick(2);
    a.start(mutexThread, (void*)(usize)da); b.start(mutexThread, (void*)(usize)1); c.start(tryThread, 0);
    uint ra = a.join(), rb = b.join(), rc = c.join();
    vf_assert(ra == 7 && rb == 7, "Thread::join returns the thread function's result");
    vf_assert(g_counter == (int)(2 * VF_OPS + rc), "every critical section ran exactly once");
    vf_assert(m.tryLock(), "mutex free at the end"); m.unlock();
  }
  vf_reach("end");
  return 0;
}

// ------------------------------------------------------------------------------------------------ Semaphore
static Semaphore* g_sem; static volatile uint32 g_signals, g_successes; static uint32 g_initial;
static uint semWaiter(void* arg)
{
  unsigned mode = (unsigned)(usize)arg;                  // 0 wait, 1 tryWait, 2 timed wait
  bool ok;
  if(mode == 0) ok = g_sem->wait();
  else if(mode == 1) ok = g_sem->tryWait();
  else
  {
    uint64_t t0 = vf_clock_ns();
    ok = g_sem->wait(50);
    if(!ok) vf_assert(vf_clock_ns() >= t0 + 50ull * 1000000, "timed wait returns false only after its timeout has expired");
  }
  if(ok)
  {
    uint32 s = Atomic::increment(g_successes);
    vf_assert(s <= g_initial + g_signals, "successful waits never exceed the initial value plus signals");
  }
  return ok;
}
static uint semSignaler(void*) { Atomic::increment(g_signals); g_sem->signal(); return 0; }
extern "C" int semaphore()
{
  {
    g_initial = vf_pick(2); g_signals = 0; g_successes = 0;
    Semaphore s(g_initial); g_sem = &s;
    unsigned m1 = vf_pick(3), m2 = vf_pick(3);
    Thread w1, w2, sg;
    w1.start(semWaiter, (void*)(usize)m1); w2.start(semWaiter, (void*)(usize)m2);
    sg.start(semSignaler, 0);
    // tokens for both waiters (a tryWait / timed wait may take one too), so that no legitimate wait blocks forever
    for(unsigned i = g_initial + 1; i < 2; ++i) { Atomic::increment(g_signals); s.signal(); }
    uint r1 = w1.join(), r2 = w2.join(); sg.join();
    if(m1 == 0) vf_assert(r1 == 1, "an untimed wait succeeds (no waiter stays blocked while the count is positive)");
    if(m2 == 0) vf_assert(r2 == 1, "an untimed wait succeeds (no waiter stays blocked while the count is positive)");
    // conservation: remaining count == initial + signals - successes
    unsigned remaining = 0; while(s.tryWait()) ++remaining;
    vf_assert(remaining == g_initial + g_signals - g_successes, "the semaphore conserves its count");
  }
  vf_reach("end");
  return 0;
}

// ------------------------------------------------------------------------------------------------ Signal (manual-reset event)
static Signal* g_signal; static volatile uint32 g_setStarted;
static uint sigWaiter(void* arg)
{
  unsigned mode = (unsigned)(usize)arg;
  if(mode == 0)
  {
    bool ok = g_signal->wait();
    vf_assert(ok, "untimed wait returns true");
    vf_assert(g_setStarted > 0, "a wait returns true only if the signal was set");
    return 1;
  }
  uint64_t t0 = vf_clock_ns();
  bool ok = g_signal->wait(30);
  if(ok) vf_assert(g_setStarted > 0, "a wait returns true only if the signal was set");
  else vf_assert(vf_clock_ns() >= t0 + 30ull * 1000000, "timed wait returns false only after its timeout has expired");
  return ok;
}
static uint sigSetter(void*) { Atomic::increment(g_setStarted); g_signal->set(); return 0; }
extern "C" int signal_()
{
  {
    bool initial = vf_pick(2);
    g_setStarted = initial ? 1 : 0;
    Signal s(initial); g_signal = &s;
    unsigned m1 = vf_pick(2), m2 = vf_pick(2);
    Thread w1, w2, st;
    w1.start(sigWaiter, (void*)(usize)m1); w2.start(sigWaiter, (void*)(usize)m2); st.start(sigSetter, 0);
    w1.join(); w2.join(); st.join();                      // set releases all current waiters; nobody stays blocked while it remains set
    vf_assert(s.wait(0), "the signal stays set until reset (manual reset)");
    s.reset();
    uint64_t t0 = vf_clock_ns();
    vf_assert(!s.wait(5), "after reset a wait times out");
    vf_assert(vf_clock_ns() >= t0 + 5ull * 1000000, "timed wait returns false only after its timeout has expired");
  }
  vf_reach("end");
  return 0;
}

// set() releases all *current* waiters: threads blocked in wait() when set() is called return, even if reset() follows at once
static uint pulseWaiter(void*)
{
  bool ok = g_signal->wait();
  vf_assert(ok, "untimed wait returns true");
  vf_assert(g_setStarted > 0, "a wait returns true only if the signal was set");
  return 1;
}
static uint pulseSetter(void* arg)
{
  unsigned n = (unsigned)(usize)arg;
  while(vf_cond_waiters() < n) Thread::yield();          // until n threads are blocked inside wait()
  Atomic::increment(g_setStarted);
  g_signal->set();
  g_signal->reset();
  return 0;
}
extern "C" int signal_pulse()
{
  {
    Signal s; g_signal = &s; g_setStarted = 0;
    unsigned n = 1 + vf_pick(2);
    Thread w1, w2, st;
    w1.start(pulseWaiter, 0); if(n == 2) w2.start(pulseWaiter, 0);
    st.start(pulseSetter, (void*)(usize)n);
    w1.join(); if(n == 2) w2.join(); st.join();           // a waiter left blocked is reported by the scheduler (deadlock)
    vf_assert(!s.wait(0), "after set(); reset() the signal is not set");
  }
  vf_reach("end");
  return 0;
}

// ------------------------------------------------------------------------------------------------ Monitor
static Monitor* g_monitor; static volatile uint32 g_sets, g_waitsOk; static volatile uint32 g_holding;
static uint monWaiter(void* arg)
{
  unsigned timed = (unsigned)(usize)arg;
  g_monitor->lock();
  Atomic::increment(g_holding);                          // the waiter has taken the monitor
  bool ok;
  if(timed)
  {
    uint64_t t0 = vf_clock_ns();
    ok = g_monitor->wait(40);
    if(!ok) vf_assert(vf_clock_ns() >= t0 + 40ull * 1000000, "timed wait returns false only after its timeout has expired");
  }
  else ok = g_monitor->wait();
  if(ok) { uint32 w = Atomic::increment(g_waitsOk); vf_assert(w <= g_sets, "successful waits never outnumber set() calls"); }
  g_monitor->unlock();
  return ok;
}
static uint monSetter(void*)
{
  while(g_holding == 0) Thread::yield();                 // issue the set after a waiter has taken the monitor
  Atomic::increment(g_sets);
  g_monitor->set();
  return 0;
}
extern "C" int monitor()
{
  {
    Monitor m; g_monitor = &m; g_sets = 0; g_waitsOk = 0; g_holding = 0;
    unsigned timed = vf_pick(2);
    unsigned pre = vf_pick(3);                             // set() calls issued while nobody waits: they stay pending
    for(unsigned i = 0; i < pre; ++i) { Atomic::increment(g_sets); m.set(); }
    Thread w, s;
    w.start(monWaiter, (void*)(usize)timed); s.start(monSetter, 0);
    uint rw = w.join(); s.join();
    if(!timed) vf_assert(rw == 1, "a set() issued after a waiter has taken the monitor releases a waiter");
  }
  vf_reach("end");
  return 0;
}

// two waiters have taken the monitor and wait; two set() calls follow: each of them releases a waiter
static uint mon2Waiter(void*)
{
  g_monitor->lock();
  bool ok = g_monitor->wait();
  if(ok) { uint32 w = Atomic::increment(g_waitsOk); vf_assert(w <= g_sets, "successful waits never outnumber set() calls"); }
  g_monitor->unlock();
  return ok;
}
static uint mon2Setter(void*)
{
  while(vf_cond_waiters() < 2) Thread::yield();          // both waiters are blocked inside wait()
  Atomic::increment(g_sets); g_monitor->set();
  Atomic::increment(g_sets); g_monitor->set();
  return 0;
}
extern "C" int monitor2()
{
  {
    Monitor m; g_monitor = &m; g_sets = 0; g_waitsOk = 0;
    Thread w1, w2, s;
    w1.start(mon2Waiter, 0); w2.start(mon2Waiter, 0); s.start(mon2Setter, 0);
    uint r1 = w1.join(), r2 = w2.join(); s.join();          // a waiter left blocked is reported by the scheduler (deadlock)
    vf_assert(r1 == 1 && r2 == 1, "each set() issued after the waiters have taken the monitor releases a waiter");
  }
  vf_reach("end");
  return 0;
}

// ------------------------------------------------------------------------------------------------ Thread: join returns the started function's result
static volatile uint32 g_ranA, g_ranB;
struct RunA { uint run() { Atomic::increment(g_ranA); return 1; } };
struct RunB { uint run() { Atomic::increment(g_ranB); return 2; } };
extern "C" int thread_restart()
{
  {
    g_ranA = g_ranB = 0;
    Thread t; RunA a; RunB b;
    vf_assert(t.start(a, &RunA::run), "start");
    bool second = t.start(b, &RunB::run);                  // refused: the thread is already running (or finished, not yet joined)
    vf_assert(!second, "a started thread cannot be started again before join");
    uint r = t.join();
    vf_assert(g_ranA == 1 && g_ranB == 0, "the refused second start does not change what the thread runs");
    vf_assert(r == 1, "join returns the thread function's result");
    // after join the object can be reused
    vf_assert(t.start(b, &RunB::run), "restart after join");
    vf_assert(t.join() == 2 && g_ranB == 1, "join returns the second function's result");
  }
  vf_reach("end");
  return 0;
}

// ------------------------------------------------------------------------------------------------ deadline arithmetic, all time-outs
extern "C" int deadlines()
{
  uint32 ms = vf_u32(); vf_assume(ms < (1u << 30));
  unsigned which = vf_pick(3);
  uint64_t t0 = vf_clock_ns();
  bool r;
  if(which == 0) { Signal s; r = s.wait((int64)ms); }
  else if(which == 1) { Monitor m; m.lock(); r = m.wait((int64)ms); m.unlock(); }
  else { Semaphore s(0); r = s.wait((int64)ms); }
  vf_assert(!r, "nothing was signalled: the timed wait reports a time-out");
  uint64_t t1 = vf_clock_ns();
  vf_assert(t1 >= t0 + (uint64_t)ms * 1000000ull, "the absolute deadline passed to the OS is not earlier than now + timeout");
  vf_assert(t1 <= t0 + (uint64_t)ms * 1000000ull, "the absolute deadline passed to the OS is not later than now + timeout");
  vf_reach("end");
  return 0;
}
