// C16: Xml parser totality/cursor safety, escape/unescape inverse, toString/parse round trip, copy independence.
// The harness includes Xml.cpp itself so that Xml::Private (escapeString/unescapeString) is reachable.
#define private public
#include <../src/Document/Xml.cpp>
#include "vf.h"
#include "tracked.h"

#ifndef VF_LEN
#define VF_LEN 4
#endif
#ifndef VF_ELEN
#define VF_ELEN 3
#endif


// length of line number `line` (1-based) of buf[0..n): \n, \r, or \r\n end a line (the \r of a \r\n pair belongs to the line)
static unsigned vf_lineLength(const char* buf, unsigned n, unsigned line)
{
  unsigned cur = 1, len = 0;
  for(unsigned i = 0; i < n; ++i)
  {
    bool brk = (buf[i] == '\n') | ((buf[i] == '\r') & (buf[i + 1] != '\n'));
    if(brk) { if(cur == line) return len; ++cur; len = 0; }
    else ++len;
  }
  return len;
}

extern "C" int parse_safety()
{
  unsigned n = vf_pick(VF_LEN + 1);
  char* buf = (char*)vf_alloc(n + 1);
  for(unsigned i = 0; i < n; ++i) { byte b = vf_u8(); vf_assume(b != 0); buf[i] = (char)b; }
  buf[n] = 0;
  {
    Xml::Private parser; Xml::Element e;
    bool ok = parser.parse(buf, e);
    if(!ok)
    {
      unsigned lines = 1;
      for(unsigned i = 0; i < n; ++i) lines += (buf[i] == '\n') | ((buf[i] == '\r') & (buf[i + 1] != '\n'));
      vf_assert(parser.errorLine >= 1 && (unsigned)parser.errorLine <= lines, "error line lies inside the text");
      vf_assert(parser.errorColumn >= 1 && (unsigned)parser.errorColumn <= n + 1, "error column lies inside the text");
      vf_assert((unsigned)parser.errorColumn <= vf_lineLength(buf, n, (unsigned)parser.errorLine) + 1, "error column lies inside its line");
    }
  }
  vf_free(buf);
  vf_reach("end");
  return 0;
}

// longer texts over the bytes that drive line counting: tags, processing instructions, comments, line breaks, one letter
#ifndef VF_PLEN
#define VF_PLEN 6
#endif
extern "C" int error_position()
{
  unsigned n = vf_pick(VF_PLEN + 1);
  char* buf = (char*)vf_alloc(n + 1);
  for(unsigned i = 0; i < n; ++i) { byte b = vf_u8(); vf_assume((b == '<') | (b == '?') | (b == '>') | (b == '\n') | (b == '\r') | (b == 'a') | (b == '/')); buf[i] = (char)b; }
  buf[n] = 0;
  {
    Xml::Private parser; Xml::Element e;
    if(!parser.parse(buf, e))
    {
      unsigned lines = 1;
      for(unsigned i = 0; i < n; ++i) lines += (buf[i] == '\n') | ((buf[i] == '\r') & (buf[i + 1] != '\n'));
      vf_assert(parser.errorLine >= 1 && (unsigned)parser.errorLine <= lines, "error line lies inside the text");
      vf_assert(parser.errorColumn >= 1 && (unsigned)parser.errorColumn <= vf_lineLength(buf, n, (unsigned)parser.errorLine) + 1, "error column lies inside its line");
    }
  }
  vf_free(buf);
  vf_reach("end");
  return 0;
}

// comments are accepted wherever white space is allowed, processing instructions before the root
extern "C" int comments()
{
  static const char* docs[] = {
    "<?xml version=\"1.0\"?><!-- c --><a/>", "<a><!-- c --></a>", "<a ><!--x--><b/><!-- y --></a>", "<!--a-b--><a x=\"1\"/>",
    "<a><!-- c -->t</a>", "<?p?>\n<?q\n?><a/>",
    "<?cond if ie\n<!-- ?>\n<a/>", "<?p x\r\n <!-- ?><a></a>" };      // inside a processing instruction "<!--" is data, also after a line break
  unsigned k = vf_pick(sizeof(docs) / sizeof(*docs));
  {
    Xml::Private parser; Xml::Element e;
    vf_assert(parser.parse(docs[k], e), "document with comments / processing instructions parses");
    vf_assert(e.type == "a", "root element name");
  }
  vf_reach("end");
  return 0;
}

extern "C" int escape_roundtrip()
{
  unsigned n = vf_pick(VF_ELEN + 1); char d[8];
  for(unsigned i = 0; i < n; ++i) { byte b = vf_u8(); vf_assume(b != 0); d[i] = (char)b; }
  {
    String s(d, n);
    String esc = Xml::Private::escapeString(s);
    const char* pe = esc;
    for(usize i = 0; i < esc.length(); ++i) vf_assert((pe[i] != '<') & (pe[i] != '>') & (pe[i] != '"') & (pe[i] != '\''), "escaped text contains no markup characters");
    String back = Xml::Private::unescapeString(esc);
    vf_assert(back.length() == n, "unescape(escape(s)): length");
    const char* p = back;
    for(unsigned i = 0; i < n; ++i) vf_assert(p[i] == d[i], "unescape(escape(s)) == s");
  }
  vf_reach("end");
  return 0;
}

static String symStr(unsigned maxLen, bool nonBlank)
{
  unsigned n = nonBlank ? 1 + vf_pick(maxLen) : vf_pick(maxLen + 1); char d[4];
  for(unsigned i = 0; i < n; ++i) { byte b = vf_u8(); vf_assume(b != 0); d[i] = (char)b; }
  if(nonBlank) { bool blank = true; for(unsigned i = 0; i < n; ++i) blank = blank & String::isSpace(d[i]); vf_assume(!blank); }
  return String(d, n);
}

static void sameElement(const Xml::Element& a, const Xml::Element& b)
{
  vf_assert(a.type == b.type, "round trip: element name");
  vf_assert(a.attributes.size() == b.attributes.size(), "round trip: attribute count");
  HashMap<String, String>::Iterator i = a.attributes.begin(), j = b.attributes.begin();
  for(; i != a.attributes.end() && j != b.attributes.end(); ++i, ++j)
  {
    vf_assert(i.key() == j.key(), "round trip: attribute order / name");
    vf_assert(*i == *j, "round trip: attribute value");
  }
  vf_assert(a.content.size() == b.content.size(), "round trip: content count");
  List<Xml::Variant>::Iterator k = a.content.begin(), l = b.content.begin();
  for(; k != a.content.end() && l != b.content.end(); ++k, ++l)
  {
    vf_assert(k->getType() == l->getType(), "round trip: content kind");
    if(k->isText()) vf_assert(k->toString() == l->toString(), "round trip: text");
    else if(k->isElement()) sameElement(k->toElement(), l->toElement());
  }
}

extern "C" int roundtrip()
{
  {
    Xml::Element root; root.type = "r";
    unsigned shape = vf_pick(5);
    if(shape == 0) { String v = symStr(2, false); root.attributes.append("a", v); root.attributes.append("b", "x"); }
    else if(shape == 1) { String t = symStr(2, true); root.content.append(Xml::Variant(t)); }
    else if(shape == 2) { Xml::Element c; c.type = "c"; String v = symStr(1, false); c.attributes.append("k", v); root.content.append(Xml::Variant(c)); String t = symStr(1, true); root.content.append(Xml::Variant(t)); }
    else if(shape == 3) { Xml::Element c; c.type = "c"; root.content.append(Xml::Variant(c)); Xml::Element d; d.type = "d"; String t = symStr(1, true); d.content.append(Xml::Variant(t)); root.content.append(Xml::Variant(d)); }
    else { root.attributes.append("q", "\"'&<>\n"); String t("a & b <c>\r\nd"); root.content.append(Xml::Variant(t)); }
    String text = Xml::toString(root);
    Xml::Private parser; Xml::Element back;
    bool ok = parser.parse(text, back);
    vf_assert(ok, "parse(toString(e)) succeeds");
    sameElement(root, back);
    // the result element need not be fresh: parsing again into it, or into an element that held something else
    unsigned again = vf_pick(3);
    if(again == 1) { ok = parser.parse(text, back); vf_assert(ok, "second parse succeeds"); sameElement(root, back); }
    else if(again == 2)
    {
      Xml::Element used; used.type = "old"; used.attributes.append("o", "1"); used.content.append(Xml::Variant(String("old text")));
      ok = parser.parse(text, used); vf_assert(ok, "parse into a used element succeeds"); sameElement(root, used);
    }
  }
  vf_reach("end");
  return 0;
}

// copies of element values are independent of their source (mutable toElement() clones a shared payload)
extern "C" int copies()
{
  {
    Xml::Element e; e.type = "e"; e.attributes.append("k", "v");
    Xml::Variant a(e);
    unsigned op = vf_pick(8);
    if(op == 7)
    {
      // the text that is parsed is owned by the result element (an attribute value holding an embedded document)
      Xml::Element el; el.type = "msg"; el.attributes.append("payload", "<inner id='7'>hello</inner>");
      Xml::Private parser;
      bool ok = parser.parse(*el.attributes.find("payload"), el);
      vf_assert(ok, "parse of a text owned by the result element succeeds");
      vf_assert(el.type == "inner" && el.attributes.size() == 1 && *el.attributes.find("id") == "7", "parse of a text owned by the result element: element");
      vf_assert(el.content.size() == 1 && el.content.front().toString() == "hello", "parse of a text owned by the result element: content");
    }
    else if(op == 6)
    {
      // a text assigned from a string that lives inside the value's own element payload
      Xml::Element el; el.type = "element type name"; Xml::Variant xv(el);
      xv = xv.toElement().type;
      vf_assert(xv.isText() && xv.toString() == "element type name", "value = its own element's name");
    }
    else if(op == 5)
    {
      // descend one level: assign an element from one of its own children (the argument lives inside the target)
      Xml::Element root; root.type = "a";
      Xml::Element child; child.type = "b"; child.attributes.append("x", "1");
      Xml::Element grand; grand.type = "c"; child.content.append(Xml::Variant(grand)); child.content.append(Xml::Variant(String("text")));
      root.content.append(Xml::Variant(child));
      const Xml::Variant& first = root.content.front();
      root = first.toElement();
      vf_assert(root.type == "b", "element assigned from its own child: name");
      vf_assert(root.attributes.size() == 1 && *root.attributes.find("x") == "1", "element assigned from its own child: attributes");
      vf_assert(root.content.size() == 2, "element assigned from its own child: children kept");
      const Xml::Variant& g = root.content.front();
      vf_assert(g.isElement() && g.toElement().type == "c", "element assigned from its own child: first child");
      vf_assert(root.content.back().toString() == "text", "element assigned from its own child: text");
    }
    else if(op == 3)
    {
      // assignment from another handle shares the payload (counted), releasing what the target held before
      Xml::Variant b, c(String("old"));
      b = a; c = a;
      vf_assert(b.isElement() && c.isElement(), "assigned handles hold the element");
      Xml::Element& mb = b.toElement();        // shared by a, b, c: must clone
      mb.type = "changed";
      const Xml::Variant& ca = a; const Xml::Variant& cc = c;
      vf_assert(ca.toElement().type == "e" && cc.toElement().type == "e", "mutating an assigned handle leaves the others unchanged");
    }
    else if(op == 4)
    {
      Xml::Variant b(a);
      Xml::Variant& rb = b;
      b = rb;                                  // self-assignment keeps the payload
      a = b;                                   // same payload on both sides
      const Xml::Variant& ca = a;
      vf_assert(ca.isElement() && ca.toElement().type == "e", "self / same-payload assignment keeps the value");
      Xml::Variant n; a = n;                   // null source releases
      vf_assert(a.isNull(), "assigning a null value makes the target null");
      const Xml::Variant& cb = b;
      vf_assert(cb.toElement().type == "e", "the other handle keeps the payload");
    }
    else if(op == 0)
    {
      Xml::Variant b(a);                       // shared payload
      Xml::Element& mb = b.toElement();        // must clone
      mb.type = "changed"; mb.attributes.append("n", "1");
      const Xml::Variant& ca = a;
      vf_assert(ca.toElement().type == "e", "mutating a copy leaves the source unchanged (name)");
      vf_assert(ca.toElement().attributes.size() == 1, "mutating a copy leaves the source unchanged (attributes)");
      const Xml::Variant& cb = b;
      vf_assert(cb.toElement().type == "changed", "the copy sees its own change");
      vf_assert(cb.toElement().attributes.size() == 2, "the copy keeps the cloned attributes plus the new one");
    }
    else if(op == 1)
    {
      Xml::Variant b(a);
      b = String("text");
      const Xml::Variant& ca = a;
      vf_assert(ca.isElement() && ca.toElement().type == "e", "reassigning a copy leaves the source unchanged");
      vf_assert(b.isText() && b.toString() == "text", "copy holds the new text");
    }
    else
    {
      Xml::Variant t(String("t1")); Xml::Variant u(t);
      u = String("t2");
      vf_assert(t.toString() == "t1", "text copy independent");
      Xml::Element& me = a.toElement();      // unshared: in place
      me.type = "e2";
      const Xml::Variant& ca = a;
      vf_assert(ca.toElement().type == "e2", "unshared mutable access works in place");
    }
  }
  vf_reach("end");
  return 0;
}

// entity and numeric character references in arbitrary text: bounds-safe, terminates, known entities and &#N; decode
extern "C" int unescape_safety()
{
  unsigned n = vf_pick(VF_LEN + 2); char d[12];
  for(unsigned i = 0; i < n; ++i) { byte b = vf_u8(); vf_assume((b == '&') | (b == '#') | (b == ';') | (b == '6') | (b == '5') | (b == 'l') | (b == 't') | (b == 'x')); d[i] = (char)b; }
  {
    String s(d, n);
    String u = Xml::Private::unescapeString(s);
    vf_assert(u.length() <= n, "unescape never makes the text longer");
    const char* p = u;
    vf_assert(p[u.length()] == 0, "unescaped text is terminated");
    bool amp = false; for(unsigned i = 0; i < n; ++i) amp |= d[i] == '&';
    if(!amp) { vf_assert(u.length() == n, "text without '&' is unchanged (length)"); for(unsigned i = 0; i < n; ++i) vf_assert(p[i] == d[i], "text without '&' is unchanged"); }
    if(n == 4 && d[0] == '&' && d[1] == 'l' && d[2] == 't' && d[3] == ';') vf_assert(u == "<", "&lt; decodes to <");
    if(n == 5 && d[0] == '&' && d[1] == '#' && d[2] == '6' && d[3] == '5' && d[4] == ';') vf_assert(u == "A", "&#65; decodes to A");
  }
  vf_reach("end");
  return 0;
}
