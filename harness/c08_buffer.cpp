// C08: Buffer against a byte-queue model. Entries: history (K ops from constructor states), step (one/two ops from an
// arbitrary owned window built through the private fields). Engine memory checks decide "no stray access".
#define private public
#include <nstd/Buffer.hpp>
#include "vf.h"

#ifndef VF_K
#define VF_K 3
#endif
#ifndef VF_MAXN
#define VF_MAXN 2      // bytes per append/prepend/assign
#endif
#ifndef VF_CAPB
#define VF_CAPB 4      // max capacity of constructed pre-states
#endif
#define CAPM 40
#define EXTN 4

struct Model
{
  byte v[CAPM]; bool unspec[CAPM]; unsigned n; bool owns;
  Model() : n(0), owns(false) {}
  void append(const byte* d, unsigned k) { vf_assert(n + k <= CAPM, "model capacity"); for(unsigned i = 0; i < k; ++i) { v[n + i] = d[i]; unspec[n + i] = false; } n += k; }
  void prepend(const byte* d, unsigned k)
  {
    vf_assert(n + k <= CAPM, "model capacity");
    for(unsigned i = n; i > 0; --i) { v[i - 1 + k] = v[i - 1]; unspec[i - 1 + k] = unspec[i - 1]; }
    for(unsigned i = 0; i < k; ++i) { v[i] = d[i]; unspec[i] = false; }
    n += k;
  }
  void removeFront(unsigned k) { if(k >= n) { n = 0; return; } for(unsigned i = 0; i + k < n; ++i) { v[i] = v[i + k]; unspec[i] = unspec[i + k]; } n -= k; }
  void removeBack(unsigned k) { if(k >= n) n = 0; else n -= k; }
  void resize(unsigned k) { vf_assert(k <= CAPM, "model capacity"); for(unsigned i = n; i < k; ++i) unspec[i] = true; n = k; }
};

static byte* g_ext; static byte g_extCopy[EXTN];

static void check(Buffer& b, const Model& m, const char* who)
{
  vf_assert(b.size() == m.n, "size() == model");
  vf_trace(b.size());
  vf_assert(b.isEmpty() == (m.n == 0), "isEmpty() == model");
  const byte* p = b;
  for(unsigned i = 0; i < m.n; ++i)
    if(!m.unspec[i]) { vf_assert(p[i] == m.v[i], "byte == model"); vf_trace(p[i]); }
  if(b.buffer)
  {
    vf_assert(b.buffer <= b.bufferStart, "window starts inside the allocation");
    vf_assert(b.bufferEnd <= b.buffer + b._capacity, "window ends inside the allocation (room for the terminator)");
    vf_assert(vf_valid(b.bufferEnd, 1) != 0, "terminator position is readable");
    vf_assert(*b.bufferEnd == 0, "owned storage: zero byte after the last data byte");
  }
  // attached memory is never modified
  for(unsigned i = 0; i < EXTN; ++i) vf_assert(g_ext[i] == g_extCopy[i], "attached/external memory unchanged");
}

static void bytes(byte* d, unsigned n) { for(unsigned i = 0; i < n; ++i) d[i] = vf_u8(); }

static bool oneOp(Buffer& a, Model& ma, Buffer& b, Model& mb)
{
  byte d[4];
  unsigned op = vf_pick(19);
  switch(op)
  {
  case 0: return false;
  case 1: { unsigned n = vf_pick(VF_MAXN + 1); bytes(d, n); a.append(d, n); ma.append(d, n); break; }
  case 2: { unsigned n = vf_pick(VF_MAXN + 1); bytes(d, n); a.prepend(d, n); ma.prepend(d, n); break; }
  case 3: { unsigned n = vf_pick(VF_MAXN + 1); bytes(d, n); a.assign(d, n); ma.n = 0; ma.append(d, n); break; }
  case 4: { a = b; ma.n = 0; ma.append(mb.v, mb.n); for(unsigned i = 0; i < mb.n; ++i) ma.unspec[i] = mb.unspec[i]; break; }
  case 5: { unsigned n = vf_pick(ma.n + 3); a.resize(n); ma.resize(n); break; }
  case 6: { unsigned n = vf_pick(ma.n + 4); a.reserve(n); vf_assert(a.capacity() >= n, "reserve: capacity() >= request"); break; }
  case 7: { unsigned n = vf_pick(ma.n + 2); a.removeFront(n); ma.removeFront(n); break; }
  case 8: { unsigned n = vf_pick(ma.n + 2); a.removeBack(n); ma.removeBack(n); break; }
  case 9: a.clear(); ma.n = 0; break;
  case 10: a.free(); ma.n = 0; vf_assert(a.capacity() == 0, "free: capacity 0"); break;
  case 11: { a.swap(b); Model t = ma; ma = mb; mb = t; break; }
  case 12: { Buffer c(a); Model mc = ma; check(c, mc, "copy"); vf_assert(c.buffer != 0, "copy owns its storage");
             bool anyUnspec = false; for(unsigned i = 0; i < ma.n; ++i) anyUnspec = anyUnspec | ma.unspec[i];
             if(!anyUnspec) { vf_assert(c == a, "copy == source"); vf_assert(!(c != a), "!(copy != source)"); } break; }
  case 13: { unsigned off = vf_pick(EXTN + 1); unsigned len = vf_pick(EXTN - off + 1); a.attach(g_ext + off, len); ma.n = 0; ma.append(g_ext + off, len); break; }
  case 14: { a.append(b); ma.append(mb.v, mb.n); for(unsigned i = 0; i < mb.n; ++i) ma.unspec[ma.n - mb.n + i] = mb.unspec[i]; break; }
  case 15: { Model t = mb; a.prepend(b); ma.prepend(t.v, t.n); for(unsigned i = 0; i < t.n; ++i) ma.unspec[i] = t.unspec[i]; break; }
  case 17: { Model t = ma; if(2 * t.n > CAPM) break; a.append(a); ma.append(t.v, t.n); for(unsigned i = 0; i < t.n; ++i) ma.unspec[t.n + i] = t.unspec[i]; break; }      // the argument is the buffer itself
  case 18: { Model t = ma; if(2 * t.n > CAPM) break; a.prepend(a); ma.prepend(t.v, t.n); for(unsigned i = 0; i < t.n; ++i) ma.unspec[i] = t.unspec[i]; break; }
  case 16: { bool eq = a == b; bool meq = ma.n == mb.n; bool anyUnspec = false;
             if(meq) for(unsigned i = 0; i < ma.n; ++i) { meq = meq & (ma.v[i] == mb.v[i]); anyUnspec = anyUnspec | ma.unspec[i] | mb.unspec[i]; }
             if(!anyUnspec) { vf_assert(eq == meq, "operator== agrees with model"); vf_assert((a != b) == !eq, "operator!= is the negation"); } break; }
  }
  return true;
}

static void setupExt()
{
  g_ext = (byte*)vf_alloc(EXTN);
  for(unsigned i = 0; i < EXTN; ++i) g_extCopy[i] = g_ext[i] = vf_u8();
}

extern "C" int history()
{
  setupExt();
  {
    byte d[4];
    Buffer* pa; Model ma;
    unsigned init = vf_pick(3);
    if(init == 0) pa = new Buffer();
    else if(init == 1) { unsigned c = vf_pick(3); pa = new Buffer((usize)c); }
    else { unsigned n = vf_pick(3); bytes(d, n); pa = new Buffer(d, n); ma.append(d, n); }
    Buffer& a = *pa;
    Buffer b; Model mb;
    if(vf_pick(2)) { bytes(d, 2); b.append(d, 2); mb.append(d, 2); }
    check(a, ma, "a"); check(b, mb, "b");
    for(unsigned s = 0; s < VF_K; ++s)
    {
      if(!oneOp(a, ma, b, mb)) break;
      check(a, ma, "a"); check(b, mb, "b");
    }
    delete pa;
  }
  vf_free(g_ext);
  vf_reach("end");
  return 0;
}

// arbitrary owned window: allocation of capacity c, buffer <= start <= end <= buffer + c, terminator present
extern "C" int step()
{
  setupExt();
  {
    Buffer a; Model ma;
    unsigned c = vf_pick(VF_CAPB + 1);
    unsigned s = vf_pick(c + 1);
    unsigned e = s + vf_pick(c - s + 1);
    a.buffer = (byte*)new char[c + 1];
    a._capacity = c;
    a.bufferStart = a.buffer + s; a.bufferEnd = a.buffer + e;
    for(unsigned i = s; i < e; ++i) { byte x = vf_u8(); a.buffer[i] = x; ma.append(&x, 1); }
    *a.bufferEnd = 0;
    Buffer b; Model mb;
    if(vf_pick(2)) { byte d[2]; bytes(d, 2); b.append(d, 2); mb.append(d, 2); }
    check(a, ma, "a");
    for(unsigned k = 0; k < 2; ++k)
    {
      if(!oneOp(a, ma, b, mb)) break;
      check(a, ma, "a"); check(b, mb, "b");
    }
  }
  vf_free(g_ext);
  vf_reach("end");
  return 0;
}

// the buffer itself (or a range of its own bytes) as the argument of append / prepend / assign, from every owned window of a
// larger capacity (in-place shift, compaction and reallocation branches)
#ifndef VF_CAPS
#define VF_CAPS 6
#endif
extern "C" int self_args()
{
  setupExt();
  {
    Buffer a; Model ma;
    unsigned c = vf_pick(VF_CAPS + 1);
    unsigned s = vf_pick(c + 1);
    unsigned e = s + vf_pick(c - s + 1);
    a.buffer = (byte*)new char[c + 1];
    a._capacity = c;
    a.bufferStart = a.buffer + s; a.bufferEnd = a.buffer + e;
    for(unsigned i = s; i < e; ++i) { byte x = vf_u8(); a.buffer[i] = x; ma.append(&x, 1); }
    *a.bufferEnd = 0;
    Model t = ma;
    unsigned op = vf_pick(8);
    if(op >= 5)
    {
      // a Buffer attached to a range of a's own bytes (a non-owning view) as the argument
      unsigned from = vf_pick(t.n + 1), len = vf_pick(t.n - from + 1);
      Buffer view; view.attach((byte*)a + from, len);
      if(op == 5) { a.append(view); ma.append(t.v + from, len); }
      else if(op == 6) { a.prepend(view); ma.prepend(t.v + from, len); }
      else { a = view; ma.n = 0; ma.append(t.v + from, len); }
    }
    else if(op == 0) { a.append(a); ma.append(t.v, t.n); }
    else if(op == 1) { a.prepend(a); ma.prepend(t.v, t.n); }
    else if(op == 2) { a = a; }
    else
    {
      // a range of its own bytes
      unsigned from = vf_pick(t.n + 1), len = vf_pick(t.n - from + 1);
      const byte* p = (const byte*)a + from;
      if(op == 3) { a.append(p, len); ma.append(t.v + from, len); }
      else if(vf_pick(2)) { a.prepend(p, len); ma.prepend(t.v + from, len); }
      else { a.assign(p, len); ma.n = 0; ma.append(t.v + from, len); }
    }
    check(a, ma, "a");
  }
  vf_free(g_ext);
  vf_reach("end");
  return 0;
}
