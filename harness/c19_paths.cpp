// C19 (lexical part): simplifyPath, getDirectoryName/getBaseName, getStem/getExtension, getRelativePath.
#include <nstd/File.hpp>
#include "vf.h"

#ifndef VF_PL
#define VF_PL 4
#endif
#ifndef VF_RL
#define VF_RL 3
#endif

static const char g_alpha[] = {'/', '\\', '.', 'a', 'b'};
static unsigned symPath(char* d, unsigned maxLen)
{
  unsigned n = vf_pick(maxLen + 1);
  for(unsigned i = 0; i < n; ++i) { byte b = vf_u8(); vf_assume((b == '/') | (b == '\\') | (b == '.') | (b == 'a') | (b == 'b')); d[i] = (char)b; }
  d[n] = 0;
  return n;
}

// denotation of a path: absolute flag + component stack after removing "." and cancelling "name/.." (leading ".." kept)
struct Den { bool abs; unsigned n; const char* comp[12]; unsigned len[12]; };
static bool isSep(char c) { return c == '/' || c == '\\'; }
static void denote(const char* p, unsigned n, Den& d)
{
  d.abs = n > 0 && isSep(p[0]); d.n = 0;
  unsigned i = 0;
  while(i < n)
  {
    while(i < n && isSep(p[i])) ++i;
    unsigned s = i;
    while(i < n && !isSep(p[i])) ++i;
    unsigned l = i - s;
    if(l == 0) break;
    if(l == 1 && p[s] == '.') continue;
    if(l == 2 && p[s] == '.' && p[s + 1] == '.')
    {
      if(d.n > 0 && !(d.len[d.n - 1] == 2 && d.comp[d.n - 1][0] == '.' && d.comp[d.n - 1][1] == '.')) { --d.n; continue; }
      if(d.abs && d.n == 0) { /* "/.." : kept as a component, as simplifyPath does */ }
    }
    vf_assert(d.n < 12, "denotation capacity");
    d.comp[d.n] = p + s; d.len[d.n] = l; ++d.n;
  }
}
static void sameDen(const Den& a, const Den& b, const char* msg)
{
  bool eq = a.abs == b.abs && a.n == b.n;
  if(eq) for(unsigned i = 0; i < a.n; ++i) { if(a.len[i] != b.len[i]) { eq = false; break; } for(unsigned j = 0; j < a.len[i]; ++j) if(a.comp[i][j] != b.comp[i][j]) eq = false; }
  vf_assert(eq, msg);
}

extern "C" int simplify()
{
  char d[16]; unsigned n = symPath(d, VF_PL);
  {
    String p(d, n);
    String s = File::simplifyPath(p);
    Den dp, ds; denote(d, n, dp); denote(s, s.length(), ds);
    sameDen(dp, ds, "simplifyPath is lexically equivalent to its input");
    String s2 = File::simplifyPath(s);
    vf_assert(s2 == s, "simplifyPath is idempotent");
  }
  vf_reach("end");
  return 0;
}

extern "C" int decompose()
{
  char d[16]; unsigned n = symPath(d, VF_PL);
  {
    String p(d, n);
    String dir = File::getDirectoryName(p), base = File::getBaseName(p);
    int lastSep = -1; for(unsigned i = 0; i < n; ++i) if(isSep(d[i])) lastSep = i;
    if(lastSep < 0)
    {
      vf_assert(dir == ".", "directory name of a bare name is \".\"");
      vf_assert(base == p, "base name of a bare name is the name");
    }
    else
    {
      // dir + separator + base recompose the path
      vf_assert(dir.length() == (usize)lastSep, "directory name: everything before the last separator");
      vf_assert(dir.length() + 1 + base.length() == n, "dir + sep + base: length");
      const char* pd = dir; const char* pb = base;
      for(int i = 0; i < lastSep; ++i) vf_assert(pd[i] == d[i], "dir + sep + base recompose the path (dir)");
      for(unsigned i = lastSep + 1; i < n; ++i) vf_assert(pb[i - lastSep - 1] == d[i], "dir + sep + base recompose the path (base)");
    }
    // stem + "." + extension recompose the base name
    String ext = File::getExtension(p), stem = File::getStem(p);
    const char* pb = base; int firstDot = -1, lastDot = -1;
    for(unsigned i = 0; i < base.length(); ++i) if(pb[i] == '.') { if(firstDot < 0) firstDot = i; lastDot = i; }
    if(lastDot < 0) { vf_assert(ext.isEmpty(), "no dot: empty extension"); vf_assert(stem == base, "no dot: stem == base"); }
    else
    {
      vf_assert(ext.length() == base.length() - lastDot - 1, "extension: text after the last dot");
      String stemExt = File::getBaseName(p, ext);   // base name without the given extension
      if(!ext.isEmpty()) vf_assert(stemExt.length() + 1 + ext.length() == base.length(), "getBaseName(path, ext) + \".\" + ext == base name");
      // stem + "." + extension recompose the base name (also with several dots)
      vf_assert(stem.length() + 1 + ext.length() == base.length(), "stem + \".\" + extension: length of the base name");
      const char* ps = stem;
      for(int i = 0; i < lastDot && (usize)i < stem.length(); ++i) vf_assert(ps[i] == pb[i], "stem: the base name up to its last dot");
    }
  }
  vf_reach("end");
  return 0;
}

extern "C" int relative()
{
  char f[16], t[16]; unsigned nf = symPath(f, VF_RL), nt = symPath(t, VF_RL);
  {
    Den df, dt; denote(f, nf, df); denote(t, nt, dt);
    vf_assume(df.abs == dt.abs);      // both relative or both absolute
    // "from" must not climb above its start (no lexical answer exists otherwise)
    for(unsigned i = 0; i < df.n; ++i) vf_assume(!(df.len[i] == 2 && df.comp[i][0] == '.' && df.comp[i][1] == '.'));
    String from(f, nf), to(t, nt);
    String rel = File::getRelativePath(from, to);
    String joined = from; joined.append('/'); joined.append(rel);
    Den dj; denote(joined, joined.length(), dj);
    if(!df.abs && nf == 0) dj.abs = false;   // "" + "/" + rel : the added separator is not a root
    sameDen(dj, dt, "from + \"/\" + getRelativePath(from, to) denotes to");
  }
  vf_reach("end");
  return 0;
}
