// Native implementation of the vf_* intrinsics (replay of solver counterexamples / random validation runs).
#include "vf.h"
#include <stdio.h>
#include <stdlib.h>
#include <string.h>
#include <vector>
static std::vector<unsigned long long> g_vals; static size_t g_pos; static int g_mode = -1; // 0 replay, 1 random
static unsigned long long g_rng; static FILE* g_log; static FILE* g_tr;
static void init() {
  if (g_mode >= 0) return;
  const char* rp = getenv("VF_REPLAY");
  if (rp) { g_mode = 0; FILE* f = fopen(rp, "r"); if (!f) { perror(rp); exit(3);} unsigned long long v; while (fscanf(f, "%llu", &v) == 1) g_vals.push_back(v); fclose(f); }
  else { g_mode = 1; const char* s = getenv("VF_SEED"); g_rng = s ? strtoull(s, 0, 10) * 0x9E3779B97F4A7C15ull + 12345 : 88172645463325252ull; const char* l = getenv("VF_LOG"); if (l) g_log = fopen(l, "w"); }
  const char* t = getenv("VF_TRACE"); if (t) g_tr = fopen(t, "w");
}
static unsigned long long rnd() { g_rng ^= g_rng << 13; g_rng ^= g_rng >> 7; g_rng ^= g_rng << 17; return g_rng; }
static void finish(int code) { if (g_log) fclose(g_log); if (g_tr) fclose(g_tr); fflush(stdout); _Exit(code); }
static unsigned long long next(int bits, unsigned long long lo, unsigned long long hi, bool ranged) {
  init(); unsigned long long v;
  if (g_mode == 0) { if (g_pos >= g_vals.size()) { printf("VF: replay exhausted\n"); finish(4);} v = g_vals[g_pos++]; if (bits < 64) v &= (1ull << bits) - 1; if (ranged && (v < lo || v > hi)) { printf("VF: replay value out of range\n"); finish(4);} }
  else { unsigned long long r = rnd(); // bias to small values / boundaries so that equalities occur
    if (ranged) v = lo + (r >> 8) % (hi - lo + 1);
    else { switch (r & 7) { case 0: v = (r >> 8) & 3; break; case 1: v = (r >> 8) & 0xff; break; case 2: v = ~0ull - ((r >> 8) & 3); break; default: v = r >> 3; } if (bits < 64) v &= (1ull << bits) - 1; }
    if (g_log) fprintf(g_log, "%llu\n", v); }
  return v;
}
extern "C" {
uint8_t vf_u8(void) { return (uint8_t)next(8, 0, 0, false); }
uint16_t vf_u16(void) { return (uint16_t)next(16, 0, 0, false); }
uint32_t vf_u32(void) { return (uint32_t)next(32, 0, 0, false); }
uint64_t vf_u64(void) { return next(64, 0, 0, false); }
uint32_t vf_choose(uint32_t n) { return (uint32_t)next(32, 0, n - 1, true); }
uint32_t vf_pick(uint32_t n) { return (uint32_t)next(32, 0, n - 1, true); }
uint32_t vf_range(uint32_t lo, uint32_t hi) { return (uint32_t)next(32, lo, hi, true); }
void vf_assume(bool c) { init(); if (!c) { printf("VF: assumption false, run pruned\n"); finish(0);} }
void vf_assert(bool c, const char* msg) { init(); if (!c) { printf("VF-ASSERT-FAILED: %s\n", msg); finish(1);} }
void vf_fail(const char* msg) { init(); printf("VF-ASSERT-FAILED: %s\n", msg); finish(1); }
void vf_bytes(void* p, size_t n) { for (size_t i = 0; i < n; i++) ((uint8_t*)p)[i] = vf_u8(); }
void vf_reach(const char* tag) { (void)tag; }
void vf_trace(uint64_t v) { init(); if (g_tr) fprintf(g_tr, "%llu\n", (unsigned long long)v); }
void* vf_alloc(size_t n) { return malloc(n ? n : 1); }
void vf_free(void* p) { free(p); }
uint64_t vf_heap_live(void) { return 0; }
int vf_valid(const void*, size_t) { return 1; }
}
#include <pthread.h>
static pthread_t g_threads[16]; static unsigned g_nthreads;
extern "C" {
uint32_t vf_spawn(void* (*fn)(void*), void* arg) { pthread_create(&g_threads[g_nthreads], 0, fn, arg); return g_nthreads++; }
uint64_t vf_join(uint32_t t) { void* r = 0; pthread_join(g_threads[t], &r); return (uint64_t)r; }
void vf_yield(void) {}
unsigned vf_cond_waiters(void) { return 1000; }   // not observable natively (units using it are engine-only)
}
extern "C" int VF_ENTRY(void);
int main() { init(); VF_ENTRY(); if (g_log) fclose(g_log); if (g_tr) fclose(g_tr); return 0; }
