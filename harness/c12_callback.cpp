// C12: signals reach exactly the connected slots, safely under re-entrancy.
// Two emitters, three listeners with two slots each; every slot body performs one symbolically chosen action
// (connect, disconnect, recursive emit, destroy a listener, destroy an emitter, nothing), nested up to VF_DEPTH.
#define private public
#define protected public
#include <nstd/Callback.hpp>
#include "vf.h"

#ifndef VF_K
#define VF_K 3          // outer history length
#endif
#ifndef VF_DEPTH
#define VF_DEPTH 2      // nesting depth of actions performed by slots
#endif
#ifndef VF_BUDGET
#define VF_BUDGET 3     // total number of non-trivial actions performed by slots in one run
#endif
#define NE 2
#ifndef VF_NSIG
#define VF_NSIG 2     // signals per emitter in play
#endif
#define NL 3
#define NS 2
#define MAXC 12

struct Em : public Callback::Emitter
{
  int id;
  void sig0() {}      // signals are only used as identifiers
  void sig1() {}
  void fire(unsigned s) { if(s == 0) emit(&Em::sig0); else emit(&Em::sig1); }
};
struct Li : public Callback::Listener
{
  int id;
  void slot0();
  void slot1();
};
static Em* g_em[NE]; static Li* g_li[NL];

// ---- model: live connections in connection order
struct Conn { int e, sig, l, slot; unsigned stamp; bool live; };
static Conn g_conn[MAXC]; static unsigned g_nconn; static unsigned g_clock;
struct Frame { int e, sig; unsigned snap[MAXC]; unsigned n, pos; unsigned start; bool dead; };
static Frame g_frames[8]; static unsigned g_nframes;
static unsigned g_budget; static unsigned g_invocations;

static unsigned outermostStart(int e, int sig)
{
  for(unsigned i = 0; i < g_nframes; ++i) if(g_frames[i].e == e && g_frames[i].sig == sig && !g_frames[i].dead) return g_frames[i].start;
  return ~0u;
}

static void doConnect(int e, int sig, int l, int slot)
{
  vf_assert(g_nconn < MAXC, "model capacity");
  if(sig == 0) { if(slot == 0) Callback::connect(g_em[e], &Em::sig0, g_li[l], &Li::slot0); else Callback::connect(g_em[e], &Em::sig0, g_li[l], &Li::slot1); }
  else { if(slot == 0) Callback::connect(g_em[e], &Em::sig1, g_li[l], &Li::slot0); else Callback::connect(g_em[e], &Em::sig1, g_li[l], &Li::slot1); }
  Conn c = {e, sig, l, slot, ++g_clock, true}; g_conn[g_nconn++] = c;
}
static void doDisconnect(int e, int sig, int l, int slot)
{
  if(sig == 0) { if(slot == 0) Callback::disconnect(g_em[e], &Em::sig0, g_li[l], &Li::slot0); else Callback::disconnect(g_em[e], &Em::sig0, g_li[l], &Li::slot1); }
  else { if(slot == 0) Callback::disconnect(g_em[e], &Em::sig1, g_li[l], &Li::slot0); else Callback::disconnect(g_em[e], &Em::sig1, g_li[l], &Li::slot1); }
  for(unsigned i = 0; i < g_nconn; ++i) if(g_conn[i].live && g_conn[i].e == e && g_conn[i].sig == sig && g_conn[i].l == l && g_conn[i].slot == slot) { g_conn[i].live = false; break; }   // the oldest matching connection
}
static bool hasConn(int e, int sig, int l, int slot)
{
  for(unsigned i = 0; i < g_nconn; ++i) if(g_conn[i].live && g_conn[i].e == e && g_conn[i].sig == sig && g_conn[i].l == l && g_conn[i].slot == slot) return true;
  return false;
}
static void doDestroyListener(int l)
{
  delete g_li[l]; g_li[l] = 0;
  for(unsigned i = 0; i < g_nconn; ++i) if(g_conn[i].l == l) g_conn[i].live = false;
}
static void doDestroyEmitter(int e)
{
  delete g_em[e]; g_em[e] = 0;
  for(unsigned i = 0; i < g_nconn; ++i) if(g_conn[i].e == e) g_conn[i].live = false;
  for(unsigned i = 0; i < g_nframes; ++i) if(g_frames[i].e == e) g_frames[i].dead = true;      // emissions of a destroyed emitter stop
}
static void doEmit(int e, int sig)
{
  vf_assert(g_nframes < 8, "frame capacity");
  Frame& f = g_frames[g_nframes];
  f.e = e; f.sig = sig; f.n = 0; f.pos = 0; f.dead = false;
  unsigned outer = outermostStart(e, sig);
  f.start = outer != ~0u ? outer : ++g_clock;
  // eligible: connected before the outermost emission of this signal still in progress began
  for(unsigned i = 0; i < g_nconn; ++i) if(g_conn[i].live && g_conn[i].e == e && g_conn[i].sig == sig && g_conn[i].stamp < f.start) f.snap[f.n++] = i;
  ++g_nframes;
  g_em[e]->fire(sig);
  // (the emitter may have been destroyed by a slot: g_em[e] must not be touched here)
  Frame& g = g_frames[g_nframes - 1];
  if(!g.dead)
    for(; g.pos < g.n; ++g.pos) vf_assert(!g_conn[g.snap[g.pos]].live, "a slot that is still connected when its turn comes was not invoked");
  --g_nframes;
}

static void act(unsigned depth);
static void invoked(int l, int slot)
{
  ++g_invocations;
  vf_assert(g_nframes > 0, "slot invoked outside an emission");
  Frame& f = g_frames[g_nframes - 1];
  vf_assert(!f.dead, "slot invoked after its emitter was destroyed");
  // the next eligible, still connected entry of the frozen range must be this slot
  while(f.pos < f.n && !g_conn[f.snap[f.pos]].live) ++f.pos;
  vf_assert(f.pos < f.n, "slot invoked that was not connected before the outermost emission began / was disconnected");
  const Conn& c = g_conn[f.snap[f.pos]];
  vf_assert(c.l == l && c.slot == slot, "slots are invoked in connection order");
  vf_trace(l * 2 + slot);
  ++f.pos;
  act(g_nframes);
}
void Li::slot0() { int me = id; invoked(me, 0); }
void Li::slot1() { int me = id; invoked(me, 1); }

// one symbolically chosen action (used by slots and by the outer history)
static void act(unsigned depth)
{
  if(depth > 0 && (depth > VF_DEPTH || g_budget == 0)) return;
  unsigned a = vf_pick(6);
  if(a == 0) return;
  if(depth > 0) --g_budget;
  switch(a)
  {
  case 1: { unsigned e = vf_pick(NE), s = vf_pick(VF_NSIG), l = vf_pick(NL), sl = vf_pick(NS); if(g_em[e] && g_li[l]) doConnect(e, s, l, sl); break; }
  case 2: { unsigned e = vf_pick(NE), s = vf_pick(VF_NSIG), l = vf_pick(NL), sl = vf_pick(NS); if(g_em[e] && g_li[l] && hasConn(e, s, l, sl)) doDisconnect(e, s, l, sl); break; }
  case 3: { unsigned e = vf_pick(NE), s = vf_pick(VF_NSIG); if(g_em[e]) doEmit(e, s); break; }
  case 4: { unsigned l = vf_pick(NL); if(g_li[l]) doDestroyListener(l); break; }
  case 5: { unsigned e = vf_pick(NE); if(g_em[e]) doDestroyEmitter(e); break; }
  }
}

// ---- bookkeeping of both sides describes exactly the live connections (no emission in progress)
static void checkBookkeeping()
{
  for(unsigned e = 0; e < NE; ++e)
  {
    if(!g_em[e]) continue;
    for(unsigned s = 0; s < 2; ++s)
    {
      Callback::MemberFuncPtr sig = s == 0 ? Callback::MemberFuncPtr(&Em::sig0) : Callback::MemberFuncPtr(&Em::sig1);
      Map<Callback::MemberFuncPtr, Callback::Emitter::SignalData>::Iterator it = g_em[e]->signalData.find(sig);
      unsigned k = 0;
      if(it != g_em[e]->signalData.end())
      {
        vf_assert(it->activation == 0, "no activation left behind");
        for(List<Callback::Emitter::Slot>::Iterator j = it->slots.begin(); j != it->slots.end(); ++j)
        {
          // next live model connection of (e, s)
          while(k < g_nconn && !(g_conn[k].live && g_conn[k].e == (int)e && g_conn[k].sig == (int)s)) ++k;
          vf_assert(k < g_nconn, "emitter lists a slot that is not a live connection");
          vf_assert(j->state == Callback::Emitter::Slot::connected, "emitter slot state is 'connected' outside emissions");
          vf_assert(j->receiver == g_li[g_conn[k].l], "emitter slot order / receiver == model");
          Callback::MemberFuncPtr want = g_conn[k].slot == 0 ? Callback::MemberFuncPtr(&Li::slot0) : Callback::MemberFuncPtr(&Li::slot1);
          vf_assert(j->slot == want, "emitter slot function == model");
          ++k;
        }
      }
      for(; k < g_nconn; ++k) vf_assert(!(g_conn[k].live && g_conn[k].e == (int)e && g_conn[k].sig == (int)s), "emitter misses a live connection");
    }
  }
  for(unsigned l = 0; l < NL; ++l)
  {
    if(!g_li[l]) continue;
    unsigned known = 0;
    for(Map<Callback::Emitter*, List<Callback::Listener::Signal> >::Iterator it = g_li[l]->slotData.begin(); it != g_li[l]->slotData.end(); ++it) known += it->size();
    unsigned live = 0; for(unsigned k = 0; k < g_nconn; ++k) live += g_conn[k].live && g_conn[k].l == (int)l;
    vf_assert(known == live, "listener bookkeeping lists exactly its live connections");
  }
}

extern "C" int history()
{
  for(unsigned i = 0; i < NE; ++i) { g_em[i] = new Em; g_em[i]->id = i; }
  for(unsigned i = 0; i < NL; ++i) { g_li[i] = new Li; g_li[i]->id = i; }
  g_budget = VF_BUDGET;
  // a fixed start: two connections on (e0, sig0) so that emissions have something to do
  doConnect(0, 0, 0, 0); doConnect(0, 0, 1, 0);
  for(unsigned k = 0; k < VF_K; ++k)
  {
    act(0);
    vf_assert(g_nframes == 0, "model frames balanced");
    checkBookkeeping();
  }
  // final emission on every live signal: exactly the live connections are reached
  for(unsigned e = 0; e < NE; ++e) for(unsigned s = 0; s < 2; ++s) if(g_em[e]) { g_budget = 0; doEmit(e, s); }
  checkBookkeeping();
  for(unsigned i = 0; i < NL; ++i) if(g_li[i]) delete g_li[i];
  for(unsigned i = 0; i < NE; ++i) if(g_em[i]) delete g_em[i];
  vf_reach("end");
  return 0;
}
