// C20 (in-process part): Process::Arguments vs. a getopt_long-style reference; splitCommandLine vs. reference.
// The harness includes Process.cpp so that Process::Private::splitCommandLine is reachable.
#define private public
#include <../src/Process.cpp>
#include "vf.h"

#ifndef VF_ARGC
#define VF_ARGC 2
#endif
#ifndef VF_ARGL
#define VF_ARGL 3
#endif
#ifndef VF_ARGL2
#define VF_ARGL2 2     // length bound of the arguments after the first
#endif
#ifndef VF_CL
#define VF_CL 5
#endif

static const Process::Option g_opts[] = {
  // short long-names so that complete long options fit into the bounded argument length
  {'a', "aa", Process::optionFlag},
  {'b', "bb", Process::argumentFlag},
  {'g', "xx", Process::argumentFlag | Process::optionalFlag},   // optional argument: long form only ('g' is not in the alphabet)
};

struct Ev { int ch; char text[16]; unsigned len; };
static bool eq(const char* a, unsigned n, const char* lit) { unsigned i = 0; for(; i < n; ++i) if(!lit[i] || a[i] != lit[i]) return false; return lit[i] == 0; }

#ifndef VF_ARGCM
#define VF_ARGCM 4     // arguments_many: number of arguments
#endif
#ifndef VF_ARGLM
#define VF_ARGLM 2     // arguments_many: length bound of every argument
#endif
static int run(unsigned maxArgs, unsigned firstLen, unsigned otherLen)
{
  // argv[0] + up to maxArgs arguments, each an exactly sized NUL-terminated object over {-,=,a,b,x}
  char* argv[8]; unsigned lens[8];
  unsigned argc = 1 + vf_pick(maxArgs + 1);
  argv[0] = (char*)vf_alloc(2); argv[0][0] = 'p'; argv[0][1] = 0;
  for(unsigned i = 1; i < argc; ++i)
  {
    unsigned n = vf_pick((i == 1 ? firstLen : otherLen) + 1); lens[i] = n;
    argv[i] = (char*)vf_alloc(n + 1);
    for(unsigned j = 0; j < n; ++j) { byte b = vf_u8(); vf_assume((b == '-') | (b == '=') | (b == 'a') | (b == 'b') | (b == 'x')); argv[i][j] = (char)b; }
    argv[i][n] = 0;
  }
  argv[argc] = 0;
  // ---- reference (POSIX getopt_long conventions)
  Ev ref[16]; unsigned rn = 0; bool skip = false;
  for(unsigned i = 1; i < argc; ++i)
  {
    const char* s = argv[i]; unsigned n = lens[i];
    if(skip || n == 0 || s[0] != '-') { ref[rn].ch = 0; ref[rn].len = n; for(unsigned j = 0; j < n; ++j) ref[rn].text[j] = s[j]; ++rn; continue; }
    if(n == 1) { ref[rn].ch = 0; ref[rn].len = 1; ref[rn].text[0] = '-'; ++rn; continue; }
    if(s[1] == '-')
    {
      if(n == 2) { skip = true; continue; }
      unsigned e = 2; while(e < n && s[e] != '=') ++e;
      bool hasEq = e < n; unsigned nameLen = e - 2;
      int which = eq(s + 2, nameLen, "aa") ? 0 : eq(s + 2, nameLen, "bb") ? 1 : eq(s + 2, nameLen, "xx") ? 2 : -1;
      if(which < 0) { ref[rn].ch = '?'; ref[rn].len = n; for(unsigned j = 0; j < n; ++j) ref[rn].text[j] = s[j]; ++rn; continue; }
      vf_assume(!(which == 0 && hasEq));   // "--flag=value" is not specified
      ref[rn].ch = g_opts[which].character; ref[rn].len = 0;
      if(which != 0)
      {
        if(hasEq) { ref[rn].len = n - e - 1; for(unsigned j = e + 1; j < n; ++j) ref[rn].text[j - e - 1] = s[j]; }
        else if(which == 1)
        {
          if(i + 1 < argc) { ++i; ref[rn].len = lens[i]; for(unsigned j = 0; j < lens[i]; ++j) ref[rn].text[j] = argv[i][j]; }
          else { ref[rn].ch = ':'; ref[rn].len = n; for(unsigned j = 0; j < n; ++j) ref[rn].text[j] = s[j]; }
        }
      }
      ++rn; continue;
    }
    // cluster of short options
    for(unsigned k = 1; k < n; ++k)
    {
      char c = s[k];
      if(c == 'a') { ref[rn].ch = 'a'; ref[rn].len = 0; ++rn; continue; }
      if(c == 'b')
      {
        ref[rn].ch = 'b';
        if(k + 1 < n) { ref[rn].len = n - k - 1; for(unsigned j = k + 1; j < n; ++j) ref[rn].text[j - k - 1] = s[j]; ++rn; break; }
        if(i + 1 < argc) { ++i; ref[rn].len = lens[i]; for(unsigned j = 0; j < lens[i]; ++j) ref[rn].text[j] = argv[i][j]; ++rn; break; }
        ref[rn].ch = ':'; ref[rn].len = 2; ref[rn].text[0] = '-'; ref[rn].text[1] = 'b'; ++rn; break;
      }
      ref[rn].ch = '?'; ref[rn].len = 2; ref[rn].text[0] = '-'; ref[rn].text[1] = c; ++rn;
    }
  }
  // ---- implementation
  {
    Process::Arguments args((int)argc, argv, g_opts);
    int ch; String val; unsigned k = 0;
    while(args.read(ch, val))
    {
      vf_assert(k < rn, "more option/argument events than the reference");
      vf_assert(ch == ref[k].ch, "option character == reference");
      vf_trace((unsigned)ch);
      vf_assert(val.length() == ref[k].len, "argument length == reference");
      const char* p = val.data->str;
      for(unsigned j = 0; j < ref[k].len && j < val.length(); ++j) vf_assert(p[j] == ref[k].text[j], "argument text == reference");
      ++k;
      vf_assert(k <= 16, "read() keeps returning events (no progress)");
    }
    vf_assert(k == rn, "fewer option/argument events than the reference");
  }
  for(unsigned i = 0; i < argc; ++i) vf_free(argv[i]);
  vf_reach("end");
  return 0;
}

extern "C" int arguments() { return run(VF_ARGC, VF_ARGL, VF_ARGL2); }
// more, shorter arguments: what a "--" terminator, a consumed option argument or a cluster does to the arguments after the next one
extern "C" int arguments_many() { return run(VF_ARGCM, VF_ARGLM, VF_ARGLM); }

// words separated by single spaces, double-quoted segments, \" inside quotes
extern "C" int split()
{
  unsigned n = vf_pick(VF_CL + 1); char d[12];
  for(unsigned i = 0; i < n; ++i) { byte b = vf_u8(); vf_assume((b == ' ') | (b == '"') | (b == '\\') | (b == 'a')); d[i] = (char)b; }
  d[n] = 0;
  // reference
  char words[8][12]; unsigned wl[8]; unsigned wn = 0; char cur[12]; unsigned cl = 0;
  unsigned i = 0;
  while(i < n)
  {
    char c = d[i];
    if(c == '"')
    {
      ++i;
      while(i < n)
      {
        if(d[i] == '"') { ++i; break; }
        if(d[i] == '\\' && d[i + 1] == '"') { cur[cl++] = '"'; i += 2; continue; }
        cur[cl++] = d[i++];
      }
    }
    else if(c == ' ') { for(unsigned j = 0; j < cl; ++j) words[wn][j] = cur[j]; wl[wn++] = cl; cl = 0; ++i; }
    else cur[cl++] = d[i++];
  }
  if(cl) { for(unsigned j = 0; j < cl; ++j) words[wn][j] = cur[j]; wl[wn++] = cl; }
  {
    String cmd(d, n); List<String> out;
    Process::Private::splitCommandLine(cmd, out);
    vf_assert(out.size() == wn, "splitCommandLine: number of words == reference");
    unsigned k = 0;
    for(List<String>::Iterator it = out.begin(); it != out.end() && k < wn; ++it, ++k)
    {
      vf_assert(it->length() == wl[k], "splitCommandLine: word length == reference");
      const char* p = *it;
      for(unsigned j = 0; j < wl[k] && j < it->length(); ++j) vf_assert(p[j] == words[k][j], "splitCommandLine: word text == reference");
    }
  }
  vf_reach("end");
  return 0;
}

// ---- what reaches execvpe: executable, argument vector, environment - for the three forms of Process::open.
// vfork() is replaced by a stub returning 0 (the child side), execvpe() by a stub that compares its arguments with what the
// harness passed in and then ends the (child) process. No pipes (streams == 0).
static int g_wantExit;
extern "C" void vf_exit_check(int status)
{
  vf_assert(status == g_wantExit, "the process ends with the exit code it was given");
  vf_reach("end");
  exit(0);      // (model: ends the path)
}
static const char* g_wantExe; static const char* g_wantArgv[6]; static unsigned g_wantArgc; static bool g_wantEnv;
extern "C" char** environ;
extern "C" int vf_vfork() { return 0; }
extern "C" int vf_execvpe(const char* file, char* const argv[], char* const envp[])
{
  vf_assert(String::compare(file, g_wantExe) == 0, "exec: the executable is the one given");
  for(unsigned i = 0; i < g_wantArgc; ++i)
  {
    vf_assert(argv[i] != 0, "exec: argument vector shorter than given");
    vf_assert(String::compare(argv[i], g_wantArgv[i]) == 0, "exec: argument == the one given");
  }
  vf_assert(argv[g_wantArgc] == 0, "exec: argument vector ends after the given arguments");
  if(g_wantEnv)
  {
    vf_assert(envp != environ, "exec: the given environment is used, not the parent's");
    vf_assert(envp[0] != 0 && String::compare(envp[0], "K=V") == 0 && envp[1] != 0 && String::compare(envp[1], "L=W") == 0 && envp[2] == 0, "exec: the environment is exactly the one given");
  }
  else
    vf_assert(envp == environ, "exec: no environment given: the parent's is passed on");
  vf_reach("exec"); vf_reach("end");
  _exit(0);
  return -1;
}
extern "C" int exec_args()
{
  static char a0[] = "prog", a1[] = "a b", a2[] = "-x";
  static char* env0[] = {0}; environ = env0; g_wantExit = 0;
  unsigned form = vf_pick(4);
  g_wantEnv = vf_pick(2);
  Map<String, String> env; if(g_wantEnv) { env.insert(String("K"), String("V")); env.insert(String("L"), String("W")); }
  g_wantExe = "prog"; g_wantArgv[0] = "prog"; g_wantArgv[1] = "a b"; g_wantArgv[2] = "-x"; g_wantArgc = 3;
  Process p;
  if(form == 0) { char* argv[] = {a0, a1, a2}; p.open(String("prog"), 3, argv, 0, env); }                 // argv without a terminating null
  else if(form == 1) { char* argv[] = {a0, a1, a2, 0}; p.open(String("prog"), 4, argv, 0, env); }        // argv with it (as the other forms pass it)
  else if(form == 2) { List<String> args; args.append(String("prog")); args.append(String("a b")); args.append(String("-x")); p.open(String("prog"), args, 0, env); }
  else p.open(String("prog \"a b\" -x"), 0, env);
  vf_assert(false, "exec was not reached");
  return 0;
}

// Process::exit(code) ends the calling process with that code (what the parent's join() then returns)
extern "C" int exit_code()
{
  uint32 code = vf_u8();
  g_wantExit = (int)code;
  Process::exit(code);
  vf_assert(false, "Process::exit returned");
  return 0;
}
