// C04 for Map / MultiMap: keys and values own resources (ledger), copies are deep, self arguments behave as copied first.
#define private public
#include <nstd/Base.hpp>
#include <nstd/Debug.hpp>
#include "vf.h"
#include "freelist.h"
#include "tracked.h"
#include <nstd/Map.hpp>
#include <nstd/MultiMap.hpp>

#ifndef VF_K
#define VF_K 3
#endif
#define CAP 16
#if MULTI
typedef MultiMap<Tracked, Tracked> M;
#else
typedef Map<Tracked, Tracked> M;
#endif

struct Model { int k[CAP], v[CAP]; unsigned n; Model() : n(0) {}
  unsigned lower(int key) const { unsigned i = 0; while(i < n && k[i] < key) ++i; return i; }
  unsigned upper(int key) const { unsigned i = 0; while(i < n && k[i] <= key) ++i; return i; }
  void insertAt(unsigned p, int key, int val) { for(unsigned i = n; i > p; --i) { k[i] = k[i - 1]; v[i] = v[i - 1]; } k[p] = key; v[p] = val; ++n; }
  void removeAt(unsigned p) { for(unsigned i = p; i + 1 < n; ++i) { k[i] = k[i + 1]; v[i] = v[i + 1]; } --n; }
  void put(int key, int val) {
#if MULTI
    insertAt(upper(key), key, val);
#else
    unsigned lo = lower(key); if(lo < n && k[lo] == key) v[lo] = val; else insertAt(lo, key, val);
#endif
  }
};
static void check(M& m, const Model& md)
{
  vf_checkFreeList(m);
  vf_assert(m.size() == md.n, "size() == model");
  unsigned i = 0;
  for(M::Iterator it = m.begin(); it != m.end(); ++it, ++i)
  {
    vf_assert(i < md.n, "iteration longer than model");
    vf_assert(it.key().get() == md.k[i], "key == model");
    vf_assert((*it).get() == md.v[i], "value == model");
  }
  vf_assert(i == md.n, "iteration shorter than model");
}
static void put(M& m, Model& md) { int k = (int)vf_pick(3), v = (int)vf_u32(); m.insert(Tracked(k), Tracked(v)); md.put(k, v); }

extern "C" int history()
{
  {
    M a; Model ma;
    unsigned na = vf_pick(3); for(unsigned i = 0; i < na; ++i) put(a, ma);
    for(unsigned s = 0; s < VF_K; ++s)
    {
      unsigned op = vf_pick(ma.n ? 9 : 5);
      if(op == 0) break;
      switch(op)
      {
      case 1: put(a, ma); break;
      case 2: a.clear(); ma.n = 0; break;
      case 3: { M b(a); check(b, ma); put(b, ma); Model keep = ma; ma.n = 0; /* b is independent: rebuild a's model */
                // undo: ma must describe a again
                ma.n = 0; for(M::Iterator it = a.begin(); it != a.end(); ++it) ma.insertAt(ma.n, it.key().get(), (*it).get());
                check(b, keep); break; }
      case 4: { M b; Model mb; put(b, mb); b = a; check(b, ma); a.clear(); check(b, ma); a = b; check(a, ma); break; }
      case 5: { unsigned p = vf_pick(ma.n); M::Iterator it = a.begin(); for(unsigned i = 0; i < p; ++i) ++it; a.remove(it); ma.removeAt(p); break; }
      case 6: { int k = (int)vf_pick(3); a.remove(Tracked(k)); unsigned lo = ma.lower(k), hi = ma.upper(k);
                if(lo < hi)
                { // MultiMap removes one (unspecified) of the equal keys: find the one that went away
                  unsigned gone = hi - 1; unsigned i = 0;
                  for(M::Iterator it = a.begin(); it != a.end() && i < hi; ++it, ++i) if(i >= lo && (*it).get() != ma.v[i]) { gone = i; break; }
                  ma.removeAt(gone);
                }
                break; }
      case 8: { a.clear(); ma.n = 0; int k = (int)vf_pick(3), v = (int)vf_u32(); a.insert(a.end(), Tracked(k), Tracked(v)); ma.put(k, v); break; }   // clear, then load with the end() hint
      case 7: { if(vf_pick(2)) { a.removeFront(); ma.removeAt(0); } else { a.removeBack(); ma.removeAt(ma.n - 1); } break; }
      }
      check(a, ma);
    }
  }
  ledgerExpectEmpty();
  vf_reach("end");
  return 0;
}

extern "C" int self_args()
{
  {
    M a; Model ma;
    unsigned na = vf_pick(4); for(unsigned i = 0; i < na; ++i) put(a, ma);
    unsigned op = vf_pick(3);
    if(op == 0) { a = a; vf_reach("self-assign"); }                   // contents unchanged
#if !MULTI
    else if(op == 1) { a.insert(a); }                                  // bulk insert of itself: contents unchanged
#endif
    else if(ma.n) { // insert with key/value references into the container itself
      M::Iterator it = a.begin(); int k = it.key().get(), v = (*it).get();
      a.insert(it.key(), *it); ma.put(k, v);
    }
    check(a, ma);
  }
  ledgerExpectEmpty();
  vf_reach("end");
  return 0;
}
