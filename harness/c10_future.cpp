// C10: every Future call runs exactly once and join waits for its result - real Future.cpp (lock-free queue, FastSignal,
// worker loop, pool sizing) and real Signal/Thread/Mutex on the pthread model, every interleaving within the preemption bound.
#define private public
#define protected public
#include <../src/Future.cpp>
#include "vf.h"

typedef Future<void>::Private::LockFreeQueue<int> Queue;
typedef Future<void>::Private::ThreadPool Pool;

// ------------------------------------------------------------------------------------------------ 1. the lock-free queue
static Queue* g_q; static volatile uint32 g_popped[8]; static volatile uint32 g_pushOk[8];
static uint producer(void* arg)
{
  unsigned base = (unsigned)(usize)arg;
  for(unsigned i = 0; i < 2; ++i) { int v = base + i; if(g_q->push(v)) Atomic::increment(g_pushOk[v]); }
  return 0;
}
static uint consumer(void* arg)
{
  int last[2] = {-1, -1};
  for(unsigned i = 0; i < 2; ++i)
  {
    int v;
    if(g_q->pop(v))
    {
      vf_assert(v >= 0 && v < 8, "popped value was pushed");
      vf_assert(Atomic::increment(g_popped[v]) == 1, "no item is popped twice");
      int prod = v / 4;
      vf_assert(v > last[prod], "items of one producer come out in FIFO order");
      last[prod] = v;
    }
  }
  return 0;
}
extern "C" int queue()
{
  {
    Queue q(2); g_q = &q;
    for(unsigned i = 0; i < 8; ++i) { g_popped[i] = 0; g_pushOk[i] = 0; }
    Thread p1, p2, c1;
    p1.start(producer, (void*)(usize)0); p2.start(producer, (void*)(usize)4); c1.start(consumer, 0);
    p1.join(); p2.join(); c1.join();
    int v; while(q.pop(v)) { vf_assert(v >= 0 && v < 8, "popped value was pushed"); vf_assert(Atomic::increment(g_popped[v]) == 1, "no item is popped twice"); }
    for(unsigned i = 0; i < 8; ++i) vf_assert(g_popped[i] == g_pushOk[i], "every successfully pushed item is popped exactly once, nothing else");
    unsigned pushed = 0; for(unsigned i = 0; i < 8; ++i) pushed += g_pushOk[i];
    vf_assert(pushed >= 2, "push fails only when the ring is full (capacity 2: at least two pushes succeed)");
  }
  vf_reach("end");
  return 0;
}

// ------------------------------------------------------------------------------------------------ 2. futures on the real pool
static volatile uint32 g_ran[4]; static volatile uint32 g_done[4];
static int work(int a) { Atomic::increment(g_ran[a]); Atomic::increment(g_done[a]); return a * 2 + 1; }
// The shared pool lives until process exit (its workers stay asleep); the harness ends with them blocked, which the
// engine is told to accept for this unit (ignore_unfinished_threads). Pool destruction is exercised by `backpressure`.
static void destroyPool() {}

extern "C" int future_one()
{
  {
    for(unsigned i = 0; i < 4; ++i) g_ran[i] = g_done[i] = 0;
    Future<int> f;
    f.start(&work, 3);
    int r = f;                                  // result conversion waits for completion
    vf_assert(g_done[3] == 1, "the result conversion returns only after the call has completed");
    vf_assert(r == 7, "the converted result is the function's return value");
    vf_assert(g_ran[3] == 1, "the call was executed exactly once with its argument");
    vf_assert(f.isFinished() && !f.isAborted(), "after join without abort: finished");
    // restart the same future (join of the previous run is implied)
    f.start(&work, 1);
    f.join();
    vf_assert(g_done[1] == 1 && g_ran[3] == 1, "second run executed once, first not again");
    // an abort() that arrives while nothing is outstanding (late cancel) must not leak into the next start
    f.abort();
    f.start(&work, 2);
    f.join();
    vf_assert(g_done[2] == 1, "third run executed");
    vf_assert(f.isFinished() && !f.isAborted(), "isAborted() only if abort() was requested since the start");
  }
  destroyPool();
  vf_reach("end");
  return 0;
}

// a Future on the heap that is deleted as soon as its result has been taken: nothing may touch it afterwards
extern "C" int future_heap()
{
  {
    for(unsigned i = 0; i < 4; ++i) g_ran[i] = g_done[i] = 0;
    Future<int>* f = new Future<int>;
    f->start(&work, 3);
    int r = *f;                                  // result conversion waits for completion
    vf_assert(r == 7 && g_done[3] == 1, "the result conversion returns only after the call has completed");
    delete f;
    Future<int> g;                               // gives the worker time to finish whatever it was doing
    g.start(&work, 1);
    g.join();
    vf_assert(g_done[1] == 1, "second call executed");
  }
  destroyPool();
  vf_reach("end");
  return 0;
}

static uint client(void* arg)
{
  Future<int> f;
  f.start(&work, 2);
  f.join();
  vf_assert(g_done[2] == 1, "join returns only after the call has completed (second client thread)");
  int r = f; vf_assert(r == 5, "result (second client thread)");
  return 0;
}
extern "C" int future_two()
{
  {
    for(unsigned i = 0; i < 4; ++i) g_ran[i] = g_done[i] = 0;
    Future<int> f0;
    f0.start(&work, 0);                          // creates the pool from the main thread
    Thread c; c.start(client, 0);
    Future<int> f1;
    f1.start(&work, 1);
    bool abortRequested = vf_pick(2);
    if(abortRequested) f1.abort();
    f0.join(); f1.join();
    vf_assert(g_done[0] == 1 && g_done[1] == 1, "join returns only after the call has completed");
    vf_assert(f1.isAborted() ? abortRequested : f1.isFinished(), "isAborted only if abort() was requested, finished otherwise");
    vf_assert(f0.isFinished(), "no abort requested: finished");
    vf_assert((int)f0 == 1 && (int)f1 == 3, "results");
    c.join();
    for(unsigned i = 0; i < 3; ++i) vf_assert(g_ran[i] == 1, "every started call ran exactly once");
  }
  destroyPool();
  vf_reach("end");
  return 0;
}

// ------------------------------------------------------------------------------------------------ 3. pool with a tiny queue: back-pressure, sleep/wake handshake
static Pool* g_pool; static volatile uint32 g_jobs[6];
static void job(void* arg) { Atomic::increment(g_jobs[(usize)arg]); }
#ifndef VF_CJOBS
#define VF_CJOBS 1
#endif
static uint poolClient(void* arg) { unsigned base = (unsigned)(usize)arg; for(unsigned i = 0; i < VF_CJOBS; ++i) g_pool->run(job, (void*)(usize)(base + i)); return 0; }
extern "C" int backpressure()
{
  {
    for(unsigned i = 0; i < 6; ++i) g_jobs[i] = 0;
    {
      Pool pool(0, 3, 1 + vf_pick(2));            // queue capacity 1 or 2: producers block on a full queue
      g_pool = &pool;
      Thread c; c.start(poolClient, (void*)(usize)3);
      for(unsigned i = 0; i < 2; ++i) pool.run(job, (void*)(usize)i);
      c.join();
      vf_assert(pool._threadCount <= pool._maxThreads, "the pool never counts more workers than its maximum");
    }                                             // ~ThreadPool: stops and joins every worker
    vf_assert(g_jobs[0] == 1 && g_jobs[1] == 1 && g_jobs[3] == 1 && g_jobs[4] == (VF_CJOBS > 1 ? 1 : 0), "every job ran exactly once (no lost wake-up, no duplicate)");
  }
  vf_reach("end");
  return 0;
}

// ------------------------------------------------------------------------------------------------ 4. growing, idling and shrinking workers
// Three blocking jobs force the pool to its maximum of three workers; afterwards single jobs arrive after idle periods
// longer than the retirement threshold (the model clock is advanced explicitly), so run() retires workers. Every job must
// still be executed (observed through a completion signal; a job left in the queue is a deadlock of the harness).
#ifndef VF_ROUNDS
#define VF_ROUNDS 4
#endif
static Signal* g_gate; static Signal* g_jobDone; static volatile uint32 g_shrinkRan[3 + VF_ROUNDS];
static void gatedJob(void* arg) { g_gate->wait(); Atomic::increment(g_shrinkRan[(usize)arg]); }
static void signalJob(void* arg) { Atomic::increment(g_shrinkRan[(usize)arg]); g_jobDone->set(); }
extern "C" int shrink()
{
  {
    Signal gate, jobDone; g_gate = &gate; g_jobDone = &jobDone;
    for(unsigned i = 0; i < 3 + VF_ROUNDS; ++i) g_shrinkRan[i] = 0;
    Pool* pool = new Pool(0, 3, 8);               // lives "until process exit" like the shared pool (destruction: see backpressure)
    for(unsigned i = 0; i < 3; ++i) pool->run(gatedJob, (void*)(usize)i);
    vf_assert(pool->_threadCount == 3, "three outstanding calls: the pool grows to its maximum");
    gate.set();
    while(pool->_processedJobs < 3) Thread::yield();
    for(unsigned r = 0; r < VF_ROUNDS; ++r)
    {
      vf_clock_advance_ms(3000);                  // idle for longer than the retirement threshold
      pool->run(signalJob, (void*)(usize)(3 + r));
      jobDone.wait();                             // every started call is executed, however many workers were retired
      jobDone.reset();
      vf_assert(g_shrinkRan[3 + r] == 1, "the call was executed exactly once");
      while(pool->_processedJobs < 4 + r) Thread::yield();
      vf_assert(pool->_threadCount <= 3, "the pool never counts more workers than its maximum");
    }
    for(unsigned i = 0; i < 3 + VF_ROUNDS; ++i) vf_assert(g_shrinkRan[i] == 1, "every started call ran exactly once");
  }
  vf_reach("end");
  return 0;
}
