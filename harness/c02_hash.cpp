// C02 (with -DTRACKED=1 also C04; address checks serve C05): HashMap / HashSet / PoolMap against an insertion-ordered model.
//   -DKIND=1 HashMap<Key,V>, 2 HashSet<Key>, 3 PoolMap<Key,V>.  Every key gets an arbitrary hash residue (consistent per key value), so every
//   bucket layout including all-colliding ones is covered.  Bounds: VF_K history length, VF_CAPS max capacity.
#define private public
#define protected public
#include <nstd/Base.hpp>
#include <nstd/Debug.hpp>
#include "vf.h"
#include "freelist.h"
#include "tracked.h"

#ifndef KIND
#define KIND 1
#endif
#ifndef VF_K
#define VF_K 3
#endif
#ifndef VF_CAPS
#define VF_CAPS 3
#endif
#define CAP 16
#ifndef VF_HRANGE
#define VF_HRANGE 2
#endif

struct Key
{
  int v; usize h;
#if TRACKED
  Tracked t;
  Key() : v(0), h(0), t(0) {}
  Key(int v, usize h) : v(v), h(h), t(v) {}
  Key(const Key& o) : v(o.v), h(o.h), t(o.t) {}
#else
  Key() : v(0), h(0) {}
  Key(int v, usize h) : v(v), h(h) {}
#endif
  bool operator==(const Key& o) const { return v == o.v; }
  bool operator!=(const Key& o) const { return v != o.v; }
};
inline usize hash(const Key& k) { return k.h; }

#include <nstd/HashMap.hpp>
#include <nstd/HashSet.hpp>
#include <nstd/PoolMap.hpp>

#if TRACKED
typedef Tracked V;
static int val(const V& e) { return e.get(); }
#else
typedef int V;
static int val(const V& e) { return e; }
#endif

#if KIND == 1
typedef HashMap<Key, V> C;
#elif KIND == 2
typedef HashSet<Key> C;
#else
typedef PoolMap<Key, V> C;
#endif
typedef C::Item Item;

// ---- consistent symbolic hash: equal keys get equal hashes (no other constraint)
static int g_kv[CAP * 2]; static usize g_kh[CAP * 2]; static unsigned g_nk;
static Key freshKey()
{
  // the hash is split over the residues that matter (VF_HRANGE = lcm of the capacities in play): a 64-bit symbolic
  // hash through `% capacity` only makes the solver enumerate the same residues through a hard urem query
  int v = (int)vf_u32(); usize h = vf_pick(VF_HRANGE);
  for(unsigned i = 0; i < g_nk; ++i) vf_assume((g_kv[i] != v) | (g_kh[i] == h));
  vf_assert(g_nk < CAP * 2, "key table capacity");
  g_kv[g_nk] = v; g_kh[g_nk] = h; ++g_nk;
  return Key(v, h);
}

struct Model
{
  int k[CAP]; usize h[CAP]; int v[CAP]; const void* addr[CAP]; unsigned n;
  Model() : n(0) {}
  int find(int key) const { for(unsigned i = 0; i < n; ++i) if(k[i] == key) return (int)i; return -1; }
  void insertAt(unsigned pos, const Key& key, int val, const void* a)
  {
    vf_assert(n < CAP, "model capacity");
    for(unsigned i = n; i > pos; --i) { k[i] = k[i - 1]; h[i] = h[i - 1]; v[i] = v[i - 1]; addr[i] = addr[i - 1]; }
    k[pos] = key.v; h[pos] = key.h; v[pos] = val; addr[pos] = a; ++n;
  }
  void removeAt(unsigned pos)
  {
    for(unsigned i = pos; i + 1 < n; ++i) { k[i] = k[i + 1]; h[i] = h[i + 1]; v[i] = v[i + 1]; addr[i] = addr[i + 1]; }
    --n;
  }
};

static C::Iterator iterAt(C& c, unsigned pos) { C::Iterator j = c.begin(); for(unsigned i = 0; i < pos; ++i) ++j; return j; }
static unsigned indexOf(C& c, const C::Iterator& it)
{
  unsigned i = 0;
  for(C::Iterator j = c.begin(); j != c.end(); ++j, ++i) if(j == it) return i;
  vf_assert(it == c.end(), "returned iterator is neither an element nor end");
  return i;
}
#if KIND == 2
static const Key& keyOf(const C::Iterator& it) { return *it; }
static const void* addrOf(const C::Iterator& it) { return &*it; }
static int valueOf(const C::Iterator& it) { return 0; }
#else
static const Key& keyOf(const C::Iterator& it) { return it.key(); }
static const void* addrOf(const C::Iterator& it) { return &*it; }
static int valueOf(const C::Iterator& it) { return val(*it); }
#endif

// ---- representation invariant (HashMap.hpp:160-238): bucket chains, cell back-pointers, order list
static void checkInvariant(C& c)
{
  vf_assert(c.capacity >= 1, "inv: capacity normalised to >= 1");
  unsigned listed = 0; Item* prev = 0;
  for(Item* i = c._begin.item; i != &c.endItem; i = i->next)
  {
    vf_assert(i->prev == prev, "inv: order list prev link");
    vf_assert(c.data != 0, "inv: items but no bucket array");
    vf_assert(*i->cell == i, "inv: *item->cell == item");
    // the item is reachable from its bucket head, and cell points at the referring pointer
    usize b = hash(i->key) % c.capacity;
    Item** ref = &c.data[b]; bool found = false;
    for(Item* j = c.data[b]; j; ref = &j->nextCell, j = j->nextCell)
    {
      vf_assert(j->cell == ref, "inv: cell back-pointer of chain member");
      if(j == i) { found = true; break; }
    }
    vf_assert(found, "inv: item is in the chain of bucket hash % capacity");
    prev = i; ++listed;
    vf_assert(listed <= CAP, "inv: order list too long / cyclic");
  }
  vf_assert(c.endItem.prev == prev, "inv: end.prev is last");
  vf_assert(listed == c._size, "inv: size counter == order list length");
  vf_checkFreeList(c);
  if(c.data)
  {
    unsigned chained = 0;
    for(usize b = 0; b < c.capacity; ++b)
      for(Item* j = c.data[b]; j; j = j->nextCell) { ++chained; vf_assert(chained <= CAP, "inv: chain cyclic"); }
    vf_assert(chained == c._size, "inv: number of chained items == size");
  }
}

static void check(C& c, Model& m, bool addresses)
{
  checkInvariant(c);
  vf_assert(c.size() == m.n, "size() == model");
  vf_trace(c.size());
  vf_assert(c.isEmpty() == (m.n == 0), "isEmpty() == model");
  unsigned i = 0;
  for(C::Iterator it = c.begin(); it != c.end(); ++it, ++i)
  {
    vf_assert(i < m.n, "iteration longer than model");
    vf_assert(keyOf(it).v == m.k[i], "iteration order: key == model");
    vf_trace((unsigned)keyOf(it).v);
#if KIND != 2
    vf_assert(valueOf(it) == m.v[i], "value == model");
#endif
    if(addresses) vf_assert(addrOf(it) == m.addr[i], "element address unchanged (C05)");
    else m.addr[i] = addrOf(it);
  }
  vf_assert(i == m.n, "iteration shorter than model");
  i = m.n;
  for(C::Iterator it = c.end(); it != c.begin();) { --it; --i; vf_assert(keyOf(it).v == m.k[i], "backward iteration == model"); }
#if KIND != 2
  if(m.n) { vf_assert(val(c.front()) == m.v[0], "front() == model"); vf_assert(val(c.back()) == m.v[m.n - 1], "back() == model"); }
#else
  if(m.n) { vf_assert(c.front().v == m.k[0], "front() == model"); vf_assert(c.back().v == m.k[m.n - 1], "back() == model"); }
#endif
}

static void probe(C& c, Model& m)
{
  Key pk = freshKey();
  C::Iterator f = c.find(pk);
  int i = m.find(pk.v);
  vf_assert(indexOf(c, f) == (i < 0 ? m.n : (unsigned)i), "find(key) == model position (or end)");
  vf_assert(c.contains(pk) == (i >= 0), "contains(key) == model");
}

// insert at position p (0..n; n = append): existing key keeps its position
static void doInsert(C& c, Model& m, unsigned p, unsigned how)
{
  Key key = freshKey(); int x = (int)vf_u32();
  int i = m.find(key.v);
#if KIND == 1
  C::Iterator r;
  if(how == 0) { V& ref = c.append(key, V(x)); r = c.find(key); vf_assert((const void*)&ref == addrOf(r), "append returns the entry's value"); p = m.n; }
  else if(how == 1) { V& ref = c.prepend(key, V(x)); r = c.find(key); vf_assert((const void*)&ref == addrOf(r), "prepend returns the entry's value"); p = 0; }
  else r = c.insert(iterAt(c, p), key, V(x));
  if(i >= 0) { m.v[i] = x; vf_assert(indexOf(c, r) == (unsigned)i, "insert(existing key) keeps the position"); }
  else { m.insertAt(p, key, x, addrOf(r)); vf_assert(indexOf(c, r) == p, "insert returns the new entry at the requested position"); }
  vf_assert(valueOf(r) == x, "insert: value stored / updated");
#elif KIND == 2
  if(how == 0) { c.append(key); p = m.n; }
  else if(how == 1) { c.prepend(key); p = 0; }
  C::Iterator r = how >= 2 ? c.insert(iterAt(c, p), key) : c.find(key);
  if(i >= 0) vf_assert(indexOf(c, r) == (unsigned)i, "insert(existing key) keeps the position");
  else { m.insertAt(p, key, 0, addrOf(r)); vf_assert(indexOf(c, r) == p, "insert returns the new entry at the requested position"); }
#else
  C::Iterator r;
  if(how == 0) { V& ref = c.append(key); r = c.find(key); vf_assert((const void*)&ref == addrOf(r), "append returns the entry's value"); p = m.n; }
  else r = c.insert(iterAt(c, p), key);
  if(i >= 0) { vf_assert(indexOf(c, r) == (unsigned)i, "insert(existing key) keeps the position"); vf_assert(valueOf(r) == m.v[i], "insert(existing key) leaves the entry untouched"); }
  else
  {
    vf_assert(indexOf(c, r) == p, "insert returns the new entry at the requested position");
#if TRACKED
    vf_assert(valueOf(r) == 0, "PoolMap constructs the value in place with its default constructor");
    *(*r).res = x;
#else
    *r = x;
#endif
    m.insertAt(p, key, x, addrOf(r));
  }
#endif
}

static bool modelsEqual(const Model& a, const Model& b)
{
  bool eq = a.n == b.n;
  if(eq) for(unsigned i = 0; i < a.n; ++i) { eq = eq & (a.k[i] == b.k[i]);
#if KIND == 1
    eq = eq & (a.v[i] == b.v[i]);
#endif
  }
  return eq;
}

static bool oneOp(C& a, Model& ma, C& b, Model& mb)
{
  unsigned op = vf_pick(ma.n ? 15 : 10);
  if(op == (ma.n ? 14u : 9u)) { doInsert(b, mb, 0, 0); return true; }      // an entry for the other table (e.g. after a swap)
  switch(op)
  {
  case 0: return false;
  case 1: doInsert(a, ma, 0, 0); break;
#if KIND != 3
  case 2: doInsert(a, ma, 0, 1); break;
#endif
  case 3: doInsert(a, ma, vf_pick(ma.n + 1), 2); break;
  case 4: { a.swap(b); Model t = ma; ma = mb; mb = t; break; }
  case 5: a.clear(); ma.n = 0; break;
  case 6: { Key k = freshKey(); a.remove(k); int i = ma.find(k.v); if(i >= 0) ma.removeAt(i); break; }
#if KIND != 3
  case 7: { // assignment / copy: order and contents of the source; positions of the destination are new
    unsigned w = vf_pick(KIND == 2 ? 5 : 3);
    if(w == 0) { a = b; ma = mb; check(a, ma, false); }
    else if(w == 1) { C cpy(a); Model mc = ma; check(cpy, mc, false); vf_assert(cpy == a, "copy == source"); vf_assert(!(cpy != a), "!(copy != source)"); }
    else if(w == 2) { a = a; }                       // self-assignment: contents unchanged (C04)
#if KIND == 2
    else if(w == 3) { a.append(a); }                 // the set appended to itself: unchanged
    else { a.remove(a); ma.n = 0; }                  // the set removed from itself: as if the argument had been copied first -> empty
#endif
    break; }
  case 8: { bool eq = a == b; vf_assert(eq == modelsEqual(ma, mb), "operator== is order-sensitive equality of the model"); vf_assert((a != b) == !eq, "operator!= is the negation"); break; }
#endif
  case 9: { unsigned p = vf_pick(ma.n); C::Iterator r = a.remove(iterAt(a, p)); ma.removeAt(p); vf_assert(indexOf(a, r) == p, "remove(iterator) returns the successor"); break; }
  case 10: { C::Iterator r = a.removeFront(); ma.removeAt(0); vf_assert(r == a.begin(), "removeFront returns begin"); break; }
  case 11: { C::Iterator r = a.removeBack(); ma.removeAt(ma.n - 1); vf_assert(r == a.end(), "removeBack returns end"); break; }
#if KIND == 2
  case 12: { a.append(b); for(unsigned i = 0; i < mb.n; ++i) if(ma.find(mb.k[i]) < 0) { Key k(mb.k[i], mb.h[i]); ma.insertAt(ma.n, k, 0, 0); } check(a, ma, false); break; }
  case 13: { a.remove(b); for(unsigned i = 0; i < mb.n; ++i) { int j = ma.find(mb.k[i]); if(j >= 0) ma.removeAt(j); } break; }
#elif KIND == 3
  case 12: { unsigned p = vf_pick(ma.n); a.remove(*iterAt(a, p)); ma.removeAt(p); break; }   // remove by value reference
#endif
  default: break;
  }
  return true;
}

// pre-fill with pairwise distinct keys (a duplicate in the pre-fill only reproduces a smaller pre-state)
static void fill(C& c, Model& m, unsigned n) { for(unsigned i = 0; i < n; ++i) { unsigned before = m.n; doInsert(c, m, 0, 0); vf_assume(m.n == before + 1); } }

static void run(unsigned na, unsigned nb, unsigned k)
{
  {
    usize ca = 1 + vf_pick(VF_CAPS), cb = 1 + vf_pick(VF_CAPS);
    C a(ca), b(cb); Model ma, mb;
    fill(a, ma, na); fill(b, mb, nb);
    check(a, ma, true); check(b, mb, true);
    for(unsigned s = 0; s < k; ++s)
    {
      if(!oneOp(a, ma, b, mb)) break;
      check(a, ma, true); check(b, mb, true);
    }
    probe(a, ma);
  }
#if TRACKED
  ledgerExpectEmpty();
#endif
  vf_reach("end");
}

extern "C" int history() { unsigned nb = vf_pick(2); run(0, nb, VF_K); return 0; }
#ifndef VF_NA
#define VF_NA 2
#endif
#ifndef VF_NB
#define VF_NB 1
#endif
extern "C" int step() { unsigned na = vf_pick(VF_NA + 1); unsigned nb = vf_pick(VF_NB + 1); run(na, nb, 1); return 0; }   // sequenced: argument evaluation order differs between compilers

// capacity 0 is normalised by the constructor; the default capacity (500) and a large one behave the same
extern "C" int capacities()
{
  {
    unsigned w = vf_pick(3);
    C a(w == 0 ? 0 : (w == 1 ? 500 : 7)); Model ma;
    vf_assert(a.capacity >= 1, "capacity 0 normalised");
    fill(a, ma, 3);
    check(a, ma, true);
    Key k = freshKey(); a.remove(k); int i = ma.find(k.v); if(i >= 0) ma.removeAt(i);
    check(a, ma, true);
    probe(a, ma);
  }
#if TRACKED
  ledgerExpectEmpty();
#endif
  vf_reach("end");
  return 0;
}
