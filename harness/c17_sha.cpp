// C17: SHA-256 streaming layer (padding, buffering, chunking, reuse, HMAC) with the compression function abstracted to an
// uninterpreted function, and the compression function itself against a FIPS 180-4 reference.
#define private public
#include <../src/Crypto/Sha256.cpp>
#include "vf.h"

extern "C" void vf_uf256(uint32* state, const uint32* block);   // state <- F(state, block), F uninterpreted (engine) / FIPS (native)

#ifndef VF_MAXLEN
#define VF_MAXLEN 70
#endif
#ifndef VF_HMACKEY
#define VF_HMACKEY 70
#endif

// ---- FIPS 180-4 reference
static const uint32 refK[64] = {
  0x428a2f98,0x71374491,0xb5c0fbcf,0xe9b5dba5,0x3956c25b,0x59f111f1,0x923f82a4,0xab1c5ed5,0xd807aa98,0x12835b01,0x243185be,0x550c7dc3,0x72be5d74,0x80deb1fe,0x9bdc06a7,0xc19bf174,
  0xe49b69c1,0xefbe4786,0x0fc19dc6,0x240ca1cc,0x2de92c6f,0x4a7484aa,0x5cb0a9dc,0x76f988da,0x983e5152,0xa831c66d,0xb00327c8,0xbf597fc7,0xc6e00bf3,0xd5a79147,0x06ca6351,0x14292967,
  0x27b70a85,0x2e1b2138,0x4d2c6dfc,0x53380d13,0x650a7354,0x766a0abb,0x81c2c92e,0x92722c85,0xa2bfe8a1,0xa81a664b,0xc24b8b70,0xc76c51a3,0xd192e819,0xd6990624,0xf40e3585,0x106aa070,
  0x19a4c116,0x1e376c08,0x2748774c,0x34b0bcb5,0x391c0cb3,0x4ed8aa4a,0x5b9cca4f,0x682e6ff3,0x748f82ee,0x78a5636f,0x84c87814,0x8cc70208,0x90befffa,0xa4506ceb,0xbef9a3f7,0xc67178f2 };
// Ch and Maj are written in the algebraic form that makes the composed 64-round terms of reference and implementation
// structurally comparable; entry `lemmas` proves these forms equal to the FIPS 180-4 definitions for all 32-bit words.
#define CH(x, y, z) ((z) ^ ((x) & ((y) ^ (z))))
#define MAJ(x, y, z) (((x) & (y)) | ((z) & ((x) | (y))))
static inline uint32 rotr(uint32 x, unsigned n) { return (x >> n) | (x << (32 - n)); }
static void refCompress(uint32* H, const uint32* M)
{
  uint32 W[64];
  for(unsigned t = 0; t < 16; ++t) W[t] = M[t];
  for(unsigned t = 16; t < 64; ++t)
  {
    uint32 s1 = rotr(W[t - 2], 17) ^ rotr(W[t - 2], 19) ^ (W[t - 2] >> 10);
    uint32 s0 = rotr(W[t - 15], 7) ^ rotr(W[t - 15], 18) ^ (W[t - 15] >> 3);
    W[t] = s1 + W[t - 7] + s0 + W[t - 16];
  }
  uint32 a = H[0], b = H[1], c = H[2], d = H[3], e = H[4], f = H[5], g = H[6], h = H[7];
  for(unsigned t = 0; t < 64; ++t)
  {
    uint32 S1 = rotr(e, 6) ^ rotr(e, 11) ^ rotr(e, 25);
    uint32 ch = CH(e, f, g);
    uint32 T1 = h + S1 + ch + refK[t] + W[t];
    uint32 S0 = rotr(a, 2) ^ rotr(a, 13) ^ rotr(a, 22);
    uint32 maj = MAJ(a, b, c);
    uint32 T2 = S0 + maj;
    h = g; g = f; f = e; e = d + T1; d = c; c = b; b = a; a = T1 + T2;
  }
  H[0] += a; H[1] += b; H[2] += c; H[3] += d; H[4] += e; H[5] += f; H[6] += g; H[7] += h;
}
#if VF_NATIVE
extern "C" void vf_uf256(uint32* state, const uint32* block) { refCompress(state, block); }
#endif

// reference hash: pad per FIPS 180-4 5.1.1, fold the compression function (uninterpreted in the symbolic run)
static void refHash(const byte* msg, usize len, byte* digest)
{
  uint32 H[8] = {0x6a09e667, 0xbb67ae85, 0x3c6ef372, 0xa54ff53a, 0x510e527f, 0x9b05688c, 0x1f83d9ab, 0x5be0cd19};
  usize total = ((len + 8) / 64 + 1) * 64;
  for(usize off = 0; off < total; off += 64)
  {
    uint32 M[16];
    for(unsigned w = 0; w < 16; ++w)
    {
      byte bs[4];
      for(unsigned k = 0; k < 4; ++k)
      {
        usize i = off + w * 4 + k; byte b;
        if(i < len) b = msg[i];
        else if(i == len) b = 0x80;
        else if(i >= total - 8) b = (byte)(((uint64)len * 8) >> (8 * (total - 1 - i)));
        else b = 0;
        bs[k] = b;
      }
      uint32 v = ((uint32)bs[0] << 24) + ((uint32)bs[1] << 16) + ((uint32)bs[2] << 8) + (uint32)bs[3];   // big-endian word (FIPS 180-4 3.1)
      M[w] = v;
    }
    vf_uf256(H, M);
  }
  for(unsigned i = 0; i < 8; ++i) { digest[4 * i] = (byte)(H[i] >> 24); digest[4 * i + 1] = (byte)(H[i] >> 16); digest[4 * i + 2] = (byte)(H[i] >> 8); digest[4 * i + 3] = (byte)H[i]; }
}

static void sameDigest(const byte* a, const byte* b, const char* msg) { bool ok = true; for(unsigned i = 0; i < 32; ++i) ok = ok & (a[i] == b[i]); vf_assert(ok, msg); }

// every length across the padding boundaries, every 2- and 3-way chunking, reuse after finalize / reset
static const unsigned char g_lens[] = {0,1,2,3,31,32,33,54,55,56,57,62,63,64,65,66,118,119,120,121,127,128,129,130};
extern "C" int streaming()
{
  unsigned len = VF_ALLLENS ? vf_pick(VF_MAXLEN + 1) : g_lens[vf_pick(sizeof(g_lens))];
  byte* msg = (byte*)vf_alloc(len);
  for(unsigned i = 0; i < len; ++i) msg[i] = vf_u8();
  byte ref[32]; refHash(msg, len, ref);
  unsigned mode = vf_pick(5);
  byte out[32];
  Sha256 sha;
  if(mode == 0) { Sha256::hash(msg, len, out); }
  else if(mode == 1) { unsigned a = vf_pick(len + 1); sha.update(msg, a); sha.update(msg + a, len - a); sha.finalize(out); }
  else if(mode == 2) { unsigned a = vf_pick(len + 1); unsigned b = a + vf_pick(len - a + 1); sha.update(msg, a); sha.update(msg + a, b - a); sha.update(msg + b, len - b); sha.finalize(out); }
  else if(mode == 3) { byte junk[32]; sha.update(msg, len / 2); sha.finalize(junk); sha.update(msg, len); sha.finalize(out); }     // reuse after finalize
  else { sha.update(msg, (len + 1) / 2); sha.reset(); sha.update(msg, len); sha.finalize(out); }                                    // reuse after reset
  sameDigest(out, ref, "digest == FIPS padding + compression fold (every chunking)");
  vf_free(msg);
  vf_reach("end");
  return 0;
}

// RFC 2104: H((K' ^ opad) || H((K' ^ ipad) || m)), K' = H(K) if |K| > 64 else K zero-padded
static const unsigned char g_klens[] = {0,1,31,32,33,63,64,65,66,70,119,120,127,128,129,200};
extern "C" int hmac()
{
  unsigned klen = g_klens[vf_pick(sizeof(g_klens))]; unsigned mlen = vf_pick(VF_HMACMSG + 1);
  vf_assume(klen <= VF_HMACKEY);
  byte* key = (byte*)vf_alloc(klen); byte* msg = (byte*)vf_alloc(mlen);
  for(unsigned i = 0; i < klen; ++i) key[i] = vf_u8();
  for(unsigned i = 0; i < mlen; ++i) msg[i] = vf_u8();
  byte kp[64];
  if(klen > 64) { refHash(key, klen, kp); for(unsigned i = 32; i < 64; ++i) kp[i] = 0; }
  else { for(unsigned i = 0; i < 64; ++i) kp[i] = i < klen ? key[i] : 0; }
  byte inner[64 + 80]; for(unsigned i = 0; i < 64; ++i) inner[i] = kp[i] ^ 0x36; for(unsigned i = 0; i < mlen; ++i) inner[64 + i] = msg[i];
  byte ih[32]; refHash(inner, 64 + mlen, ih);
  byte outer[96]; for(unsigned i = 0; i < 64; ++i) outer[i] = kp[i] ^ 0x5c; for(unsigned i = 0; i < 32; ++i) outer[64 + i] = ih[i];
  byte ref[32]; refHash(outer, 96, ref);
  byte out[32];
  Sha256::hmac(key, klen, msg, mlen, out);
  sameDigest(out, ref, "hmac == RFC 2104 construction");
  vf_free(key); vf_free(msg);
  vf_reach("end");
  return 0;
}

// the compression function itself: all 768 input bits symbolic, against the FIPS reference
extern "C" int transform()
{
  uint32 s1[8], s2[8], blk[16];
  for(unsigned i = 0; i < 8; ++i) s1[i] = s2[i] = vf_u32();
  for(unsigned i = 0; i < 16; ++i) blk[i] = vf_u32();
  Sha256::Private::Transform(s1, blk);
  refCompress(s2, blk);
  for(unsigned i = 0; i < 8; ++i) vf_assert(s1[i] == s2[i], "Transform == FIPS 180-4 compression function");
  vf_reach("end");
  return 0;
}

extern "C" int lemmas()
{
  uint32 x = vf_u32(), y = vf_u32(), z = vf_u32();
  vf_assert(CH(x, y, z) == ((x & y) ^ (~x & z)), "Ch(x,y,z) form == FIPS 180-4 (4.2)");
  vf_assert(MAJ(x, y, z) == ((x & y) ^ (x & z) ^ (y & z)), "Maj(x,y,z) form == FIPS 180-4 (4.3)");
  vf_reach("end");
  return 0;
}

// known answers (translator validation of the encoding, and an end-to-end sanity check of the real Transform)
extern "C" int vectors()
{
  static const byte abc[] = {'a', 'b', 'c'};
  static const byte want[32] = {0xba,0x78,0x16,0xbf,0x8f,0x01,0xcf,0xea,0x41,0x41,0x40,0xde,0x5d,0xae,0x22,0x23,0xb0,0x03,0x61,0xa3,0x96,0x17,0x7a,0x9c,0xb4,0x10,0xff,0x61,0xf2,0x00,0x15,0xad};
  byte out[32]; Sha256::hash(abc, 3, out);
  sameDigest(out, want, "SHA-256(\"abc\") known answer");
  static const byte wantEmpty[32] = {0xe3,0xb0,0xc4,0x42,0x98,0xfc,0x1c,0x14,0x9a,0xfb,0xf4,0xc8,0x99,0x6f,0xb9,0x24,0x27,0xae,0x41,0xe4,0x64,0x9b,0x93,0x4c,0xa4,0x95,0x99,0x1b,0x78,0x52,0xb8,0x55};
  Sha256::hash(abc, 0, out);
  sameDigest(out, wantEmpty, "SHA-256(\"\") known answer");
  vf_reach("end");
  return 0;
}
