// C03 (and, with -DTRACKED=1, C04; address checks serve C05): List / Array / PoolList against a sequence model.
//   -DCONT=1 List, 2 Array, 3 PoolList.   Bounds: VF_K history length, VF_N max pre-state length.
#define private public
#define protected public
#include <nstd/Base.hpp>
#include <nstd/Debug.hpp>
#include <nstd/List.hpp>
#include <nstd/Array.hpp>
#include <nstd/PoolList.hpp>
#include "vf.h"
#include "freelist.h"
#include "tracked.h"

#ifndef CONT
#define CONT 1
#endif
#ifndef VF_K
#define VF_K 3
#endif
#ifndef VF_N
#define VF_N 4
#endif
#define CAP 32

#if TRACKED
typedef Tracked E;
static int val(const E& e) { return e.get(); }
#else
typedef int E;
static int val(const E& e) { return e; }
#endif

#if CONT == 1
typedef List<E> C;
#elif CONT == 2
typedef Array<E> C;
#else
typedef PoolList<E> C;
#endif

struct Model
{
  int v[CAP]; const void* addr[CAP]; unsigned n;
  Model() : n(0) {}
  void insertAt(unsigned pos, int x, const void* a)
  {
    vf_assert(n < CAP, "model capacity");
    for(unsigned i = n; i > pos; --i) { v[i] = v[i - 1]; addr[i] = addr[i - 1]; }
    v[pos] = x; addr[pos] = a; ++n;
  }
  void removeAt(unsigned pos)
  {
    for(unsigned i = pos; i + 1 < n; ++i) { v[i] = v[i + 1]; addr[i] = addr[i + 1]; }
    --n;
  }
  int find(int x) const { for(unsigned i = 0; i < n; ++i) if(v[i] == x) return (int)i; return -1; }
};

static C::Iterator iterAt(C& c, unsigned pos)
{
  C::Iterator j = c.begin();
  for(unsigned i = 0; i < pos; ++i) ++j;
  return j;
}
static unsigned indexOf(C& c, const C::Iterator& it)
{
  unsigned i = 0;
  for(C::Iterator j = c.begin(); j != c.end(); ++j, ++i)
    if(j == it) return i;
  vf_assert(it == c.end(), "returned iterator is neither an element nor end");
  return i;
}

static void check(C& c, Model& m, bool addresses)
{
#if CONT != 2
  vf_checkFreeList(c);
#endif
  vf_assert(c.size() == m.n, "size() == model");
  vf_trace(c.size());
  vf_assert(c.isEmpty() == (m.n == 0), "isEmpty() == model");
  unsigned i = 0;
  for(C::Iterator it = c.begin(); it != c.end(); ++it, ++i)
  {
    vf_assert(i < m.n, "iteration longer than model");
    vf_assert(val(*it) == m.v[i], "element == model");
    vf_trace((unsigned)val(*it));
#if CONT != 2
    if(addresses) vf_assert((const void*)&*it == m.addr[i], "element address unchanged (C05)");
    else m.addr[i] = &*it;
#endif
  }
  vf_assert(i == m.n, "iteration shorter than model");
#if CONT != 3
  i = m.n;
  for(C::Iterator it = c.end(); it != c.begin();)
  {
    --it; --i;
    vf_assert(val(*it) == m.v[i], "backward iteration == model");
  }
  if(m.n)
  {
    vf_assert(val(c.front()) == m.v[0], "front() == model");
    vf_assert(val(c.back()) == m.v[m.n - 1], "back() == model");
  }
#endif
#if CONT == 2
  vf_assert(c.capacity() >= c.size() || c._begin.item == 0, "capacity >= size");
  for(unsigned j = 0; j < m.n; ++j) vf_assert(val(((E*)c)[j]) == m.v[j], "operator T* indexing == model");
#endif
}

static void fill(C& c, Model& m, unsigned n)
{
  for(unsigned i = 0; i < n; ++i)
  {
    int x = (int)vf_u32();
#if CONT == 3
    E& r = c.append(x);
#else
    E& r = c.append(E(x));
#endif
    m.insertAt(m.n, x, &r);
  }
}

// one operation on container a (model ma); b is the "other" container. returns false for "stop"
static bool oneOp(C& a, Model& ma, C& b, Model& mb)
{
#if CONT == 1
  unsigned op = vf_pick(ma.n ? 16 : 10);
  if(op == (ma.n ? 15u : 9u)) { int x = (int)vf_u32(); E& r = b.append(E(x)); mb.insertAt(mb.n, x, &r); return true; }   // an element for the other container (e.g. after a swap)
  switch(op)
  {
  case 0: return false;
  case 1: { int x = (int)vf_u32(); E& r = a.append(E(x)); vf_assert(val(r) == x, "append returns the new element"); ma.insertAt(ma.n, x, &r); break; }
  case 2: { int x = (int)vf_u32(); E& r = a.prepend(E(x)); vf_assert(val(r) == x, "prepend returns the new element"); ma.insertAt(0, x, &r); break; }
  case 3: { int x = (int)vf_u32(); unsigned p = vf_pick(ma.n + 1); C::Iterator r = a.insert(iterAt(a, p), E(x)); vf_assert(indexOf(a, r) == p, "insert returns the inserted element"); ma.insertAt(p, x, &*r); break; }
  case 4: { // insert(pos, other list)
    unsigned p = vf_pick(ma.n + 1);
    C::Iterator r = a.insert(iterAt(a, p), b);
    vf_assert(indexOf(a, r) == p, "insert(list) returns the first inserted element (or position)");
    for(unsigned i = 0; i < mb.n; ++i) ma.insertAt(p + i, mb.v[i], &*iterAt(a, p + i));
    break; }
  case 5: { a.swap(b); Model t = ma; ma = mb; mb = t; break; }
  case 6: { a = b; ma = mb; check(a, ma, false); break; }
  case 7: { C cpy(a); Model mc = ma; check(cpy, mc, false); vf_assert(cpy == a, "copy == source"); vf_assert(!(cpy != a), "!(copy != source)"); break; }
  case 8: { bool eq = a == b; bool meq = ma.n == mb.n; if(meq) for(unsigned i = 0; i < ma.n; ++i) meq = meq & (ma.v[i] == mb.v[i]); vf_assert(eq == meq, "operator== agrees with model"); break; }
  case 9: { unsigned p = vf_pick(ma.n); C::Iterator r = a.remove(iterAt(a, p)); ma.removeAt(p); vf_assert(indexOf(a, r) == p, "remove(iterator) returns the successor"); break; }
  case 10: { int x = (int)vf_u32(); a.remove(E(x)); int i = ma.find(x); if(i >= 0) ma.removeAt(i); break; }
  case 11: { C::Iterator r = a.removeFront(); ma.removeAt(0); vf_assert(r == a.begin(), "removeFront returns begin"); break; }
  case 12: { C::Iterator r = a.removeBack(); ma.removeAt(ma.n - 1); vf_assert(r == a.end(), "removeBack returns end"); break; }
  case 13: a.clear(); ma.n = 0; break;
  case 14: { int x = (int)vf_u32(); C::Iterator r = a.find(E(x)); int i = ma.find(x); vf_assert(indexOf(a, r) == (i < 0 ? ma.n : (unsigned)i), "find returns first match or end"); break; }
  }
#elif CONT == 2
  unsigned op = vf_pick(ma.n ? 15 : 10);
  switch(op)
  {
  case 0: return false;
  case 1: { int x = (int)vf_u32(); E& r = a.append(E(x)); vf_assert(val(r) == x, "append returns the new element"); vf_assert(&r == &a.back(), "append returns back()"); ma.insertAt(ma.n, x, 0); break; }
  case 2: { a.append(b); for(unsigned i = 0; i < mb.n; ++i) ma.insertAt(ma.n, mb.v[i], 0); break; }
  case 3: { unsigned n = vf_pick(3); int tmp[2]; for(unsigned i = 0; i < n; ++i) tmp[i] = (int)vf_u32();
            E vals[2] = {E(n > 0 ? tmp[0] : 0), E(n > 1 ? tmp[1] : 0)}; a.append(vals, n); for(unsigned i = 0; i < n; ++i) ma.insertAt(ma.n, tmp[i], 0); break; }
  case 4: { unsigned n = vf_pick(ma.n + 4); int x = (int)vf_u32(); a.resize(n, E(x)); while(ma.n > n) ma.removeAt(ma.n - 1); while(ma.n < n) ma.insertAt(ma.n, x, 0); break; }
  case 5: { unsigned n = vf_pick(ma.n + 6); a.reserve(n); vf_assert(a.capacity() >= n, "reserve: capacity >= request"); break; }
  case 6: { a.swap(b); Model t = ma; ma = mb; mb = t; break; }
  case 7: { a = b; ma = mb; break; }
  case 8: { C cpy(a); Model mc = ma; check(cpy, mc, false); break; }
  case 9: { int x = (int)vf_u32(); C::Iterator r = a.find(E(x)); int i = ma.find(x); vf_assert(indexOf(a, r) == (i < 0 ? ma.n : (unsigned)i), "find returns first match or end"); break; }
  case 10: { unsigned p = vf_pick(ma.n); C::Iterator r = a.remove(iterAt(a, p)); ma.removeAt(p); vf_assert(indexOf(a, r) == p, "remove(iterator) returns the successor"); break; }
  case 11: { unsigned p = vf_pick(ma.n + 1); a.remove((usize)p); if(p < ma.n) ma.removeAt(p); break; }
  case 12: { C::Iterator r = a.removeFront(); ma.removeAt(0); vf_assert(r == a.begin(), "removeFront returns begin"); break; }
  case 13: { C::Iterator r = a.removeBack(); ma.removeAt(ma.n - 1); vf_assert(r == a.end(), "removeBack returns end"); break; }
  case 14: a.clear(); ma.n = 0; break;
  }
#else
  unsigned op = vf_pick(ma.n ? 9 : 5);
  if(op == (ma.n ? 8u : 4u)) { int x = (int)vf_u32(); E& r = b.append(x); mb.insertAt(mb.n, x, &r); return true; }   // an element for the other container (e.g. after a swap)
  switch(op)
  {
  case 0: return false;
  case 1: { int x = (int)vf_u32(); E& r = a.append(x); vf_assert(val(r) == x, "append returns the new element"); ma.insertAt(ma.n, x, &r); break; }
  case 2: { a.swap(b); Model t = ma; ma = mb; mb = t; break; }
  case 3: a.clear(); ma.n = 0; break;
  case 4: { unsigned p = vf_pick(ma.n); C::Iterator r = a.remove(iterAt(a, p)); ma.removeAt(p); vf_assert(indexOf(a, r) == p, "remove(iterator) returns the successor"); break; }
  case 5: { unsigned p = vf_pick(ma.n); a.remove(*iterAt(a, p)); ma.removeAt(p); break; }
  case 6: { C::Iterator r = a.removeFront(); ma.removeAt(0); vf_assert(r == a.begin(), "removeFront returns begin"); break; }
  case 7: { C::Iterator r = a.removeBack(); ma.removeAt(ma.n - 1); vf_assert(r == a.end(), "removeBack returns end"); break; }
  }
#endif
  return true;
}

static void run(unsigned na, unsigned nb, unsigned k)
{
  {
    C a, b; Model ma, mb;
    fill(a, ma, na); fill(b, mb, nb);
    for(unsigned s = 0; s < k; ++s)
    {
      if(!oneOp(a, ma, b, mb)) break;
      check(a, ma, CONT != 2); check(b, mb, CONT != 2);
    }
    check(a, ma, CONT != 2); check(b, mb, CONT != 2);
  }
#if TRACKED
  ledgerExpectEmpty();
#if CONT == 3
  // PoolList constructs each element in place and never copies or assigns it afterwards (C05)
  vf_assert(g_ledger.copies == 0, "PoolList never copy-constructs an element");
  vf_assert(g_ledger.assigns == 0, "PoolList never assigns an element");
#endif
#endif
  vf_reach("end");
}

// histories from (almost) empty containers
extern "C" int history() { unsigned nb = vf_pick(3); run(0, nb, VF_K); return 0; }
// one/two steps from every pre-state length (for Array this crosses every |3 growth boundary up to VF_N)
extern "C" int step() { unsigned na = vf_pick(VF_N + 1); unsigned nb = vf_pick(3); run(na, nb, 2); return 0; }   // sequenced: argument evaluation order differs between compilers

#if CONT == 1
// List::sort: ascending permutation of the previous contents
#ifndef VF_SORTN
#define VF_SORTN 5
#endif
extern "C" int sort()
{
  {
    C a; Model m;
    unsigned n = vf_pick(VF_SORTN + 1);
    fill(a, m, n);
    a.sort();
    vf_assert(a.size() == n, "sort keeps the size");
    int out[CAP]; unsigned i = 0;
    for(C::Iterator it = a.begin(); it != a.end(); ++it, ++i) { out[i] = val(*it); vf_assert((const void*)&*it == m.addr[i] , "sort keeps nodes in place (values move)"); }
    for(unsigned j = 0; j + 1 < n; ++j) vf_assert(out[j] <= out[j + 1], "sort: ascending");
    // permutation: every value has the same multiplicity before and after (counted without branching)
    for(unsigned j = 0; j < n; ++j)
    {
      unsigned before = 0, after = 0;
      for(unsigned l = 0; l < n; ++l) { before += (m.v[l] == m.v[j]); after += (out[l] == m.v[j]); }
      vf_assert(before == after, "sort: permutation (multiplicity preserved)");
    }
  }
#if TRACKED
  ledgerExpectEmpty();
#endif
  vf_reach("end");
  return 0;
}
#endif

#if CONT != 3
// C04 (with plain elements the engine's use-after-free / bounds checks decide): self assignment and arguments that alias the container or one of its elements
extern "C" int self_args()
{
  {
    C a; Model ma;
    fill(a, ma, vf_pick(VF_N + 1));
    unsigned op = vf_pick(CONT == 1 ? 5 : 5);
    switch(op)
    {
    case 0: a = a; vf_reach("self-assign"); break;     // behaves as if the argument had been copied first: contents unchanged
#if CONT == 1
    case 1: { Model t = ma; a.append(a); for(unsigned i = 0; i < t.n; ++i) ma.insertAt(ma.n, t.v[i], 0); break; }
    case 2: { Model t = ma; a.prepend(a); for(unsigned i = 0; i < t.n; ++i) ma.insertAt(i, t.v[i], 0); break; }
    case 3: { Model t = ma; unsigned p = vf_pick(ma.n + 1); a.insert(iterAt(a, p), a); for(unsigned i = 0; i < t.n; ++i) ma.insertAt(p + i, t.v[i], 0); break; }
    case 4: if(ma.n) { unsigned p = vf_pick(ma.n); int x = ma.v[p]; a.append(*iterAt(a, p)); ma.insertAt(ma.n, x, 0); } break;
#else
    case 1: { Model t = ma; a.append(a); for(unsigned i = 0; i < t.n; ++i) ma.insertAt(ma.n, t.v[i], 0); break; }
    case 2: if(ma.n) { unsigned p = vf_pick(ma.n); int x = ma.v[p]; a.append(((E*)a)[p]); ma.insertAt(ma.n, x, 0); } break;
    case 3: if(ma.n) { unsigned p = vf_pick(ma.n); int x = ma.v[p]; unsigned n = ma.n + 1 + vf_pick(4); a.resize(n, ((E*)a)[p]); while(ma.n < n) ma.insertAt(ma.n, x, 0); } break;
    case 4: if(ma.n) { unsigned p = vf_pick(ma.n); int x = ma.v[p]; a.append(&((E*)a)[p], 1); ma.insertAt(ma.n, x, 0); } break;
#endif
    }
    check(a, ma, false);
  }
#if TRACKED
  ledgerExpectEmpty();
#endif
  vf_reach("end");
  return 0;
}
#endif
