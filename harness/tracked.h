// Ledger element type for C04/C05/C09: every construction, copy, assignment and destruction is checked against a
// table of live objects; each live object owns one heap cell, so the engine's heap checks (double free, use after
// free, leak) back the ledger.
#pragma once
#include "vf.h"
#define LEDGER_CAP 64
struct Ledger
{
  const void* live[LEDGER_CAP]; unsigned n; unsigned constructed, destroyed, copies, assigns;
};
static Ledger g_ledger;
static int ledgerFind(const void* p)
{
  for(unsigned i = 0; i < g_ledger.n; ++i) if(g_ledger.live[i] == p) return (int)i;
  return -1;
}
static void ledgerConstruct(const void* p)
{
  vf_assert(ledgerFind(p) < 0, "ledger: element constructed over a live element (missing destructor call)");
  vf_assert(g_ledger.n < LEDGER_CAP, "ledger capacity");
  g_ledger.live[g_ledger.n++] = p; ++g_ledger.constructed;
}
static void ledgerDestroy(const void* p)
{
  int i = ledgerFind(p);
  vf_assert(i >= 0, "ledger: destructor called on an element that is not live (double destruction / never constructed)");
  g_ledger.live[i] = g_ledger.live[--g_ledger.n]; ++g_ledger.destroyed;
}
static void ledgerUse(const void* p)
{
  vf_assert(ledgerFind(p) >= 0, "ledger: element used (copied from / assigned / compared) after its destruction");
}

struct Tracked
{
  int* res;
  Tracked() : res(new int(0)) { ledgerConstruct(this); }
  Tracked(int v) : res(new int(v)) { ledgerConstruct(this); }
  Tracked(const Tracked& o) { ledgerUse(&o); res = new int(*o.res); ledgerConstruct(this); ++g_ledger.copies; }
  ~Tracked() { ledgerDestroy(this); delete res; res = 0; }
  Tracked& operator=(const Tracked& o) { ledgerUse(this); ledgerUse(&o); *res = *o.res; ++g_ledger.assigns; return *this; }
  int get() const { ledgerUse(this); return *res; }
  bool operator==(const Tracked& o) const { return get() == o.get(); }
  bool operator!=(const Tracked& o) const { return get() != o.get(); }
  bool operator<(const Tracked& o) const { return get() < o.get(); }
  bool operator>(const Tracked& o) const { return get() > o.get(); }
  bool operator<=(const Tracked& o) const { return get() <= o.get(); }
  bool operator>=(const Tracked& o) const { return get() >= o.get(); }
};
inline usize hash(const Tracked& t) { return (usize)t.get(); }
static void ledgerExpectEmpty()
{
  vf_assert(g_ledger.n == 0, "ledger: elements still live after the container was destroyed (missing destructor calls)");
  vf_assert(g_ledger.constructed == g_ledger.destroyed, "ledger: constructions != destructions");
}
