// C19 (directory part): Directory::create returns true exactly when the directory exists afterwards; recursive unlink
// removes exactly the given tree and never follows symbolic links out of it - on a POSIX directory-tree model.
#include <nstd/Directory.hpp>
#include <nstd/File.hpp>
#include "vf.h"

extern "C" int create()
{
  // what exists before: nothing / a / a and a/b / a is a file / a/b is a file / a is a link to a directory elsewhere
  unsigned pre = vf_pick(6);
  if(pre == 1) vf_fs_add("a", 1, 0);
  else if(pre == 2) { vf_fs_add("a", 1, 0); vf_fs_add("a/b", 1, 0); }
  else if(pre == 3) vf_fs_add("a", 2, 0);
  else if(pre == 4) { vf_fs_add("a", 1, 0); vf_fs_add("a/b", 2, 0); }
  else if(pre == 5) { vf_fs_add("elsewhere", 1, 0); vf_fs_add("a", 3, "elsewhere"); }
  // any one mkdir may be refused by the OS
  unsigned failAt = vf_pick(4);
  if(failAt) vf_fs_fail("mkdir", failAt, 13);
  unsigned which = vf_pick(3);
  const char* target = which == 0 ? "a/b/c" : which == 1 ? "a" : "a/b/";
  bool ok = Directory::create(String::fromCString(target));
  bool exists = vf_fs_kind(target) == 1 || (pre == 5 && which == 1);
  vf_assert(ok == exists, "Directory::create returns true exactly when the directory exists afterwards");
  if(ok && which == 0) vf_assert(vf_fs_kind("a") != 0 && vf_fs_kind("a/b") == 1, "Directory::create makes all missing parents");
  vf_reach("end");
  return 0;
}

extern "C" int unlink_tree()
{
  // the tree t: optional file, sub-directory with a file, symbolic link to an outside directory; plus outside entries
  vf_fs_add("t", 1, 0);
  vf_fs_add("out", 1, 0); vf_fs_add("out/keep", 2, 0); vf_fs_add("other", 1, 0); vf_fs_add("other/x", 2, 0);
  bool hasFile = vf_pick(2), hasDir = vf_pick(2), hasLink = vf_pick(2), hasFileLink = vf_pick(2);
  if(hasFile) vf_fs_add("t/f", 2, 0);
  if(hasDir) { vf_fs_add("t/d", 1, 0); vf_fs_add("t/d/g", 2, 0); if(vf_pick(2)) vf_fs_add("t/d/l2", 3, "other"); }
  if(hasLink) vf_fs_add("t/l", 3, "out");
  if(hasFileLink) vf_fs_add("t/k", 3, "out/keep");
  unsigned mode = vf_pick(3);
  if(mode == 1) { unsigned k = 1 + vf_pick(3); vf_fs_fail("unlink", k, 13); }        // some unlink is refused
  bool recursive = mode != 2;
  bool ok = Directory::unlink(String("t"), recursive);
  bool empty = !hasFile && !hasDir && !hasLink && !hasFileLink;
  if(mode == 0) { vf_assert(ok, "recursive unlink of a removable tree succeeds"); vf_assert(vf_fs_kind("t") == 0 && vf_fs_kind("t/d") == 0 && vf_fs_kind("t/d/g") == 0 && vf_fs_kind("t/f") == 0 && vf_fs_kind("t/l") == 0, "recursive unlink removes the whole tree"); }
  if(mode == 2) vf_assert(ok == empty, "non-recursive unlink succeeds only for an empty directory");
  if(!ok) vf_assert(vf_fs_kind("t") == 1, "a failed unlink reports failure and the directory is still there");
  vf_assert(vf_fs_kind("out") == 1 && vf_fs_kind("out/keep") == 2 && vf_fs_kind("other") == 1 && vf_fs_kind("other/x") == 2, "nothing outside the tree is removed (symbolic links are not followed)");
  vf_assert(vf_fs_touched_outside("t") == 0, "every unlink/rmdir issued is for a path inside the given tree");
  vf_reach("end");
  return 0;
}
