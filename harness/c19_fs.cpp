// C19 (directory part): Directory::create returns true exactly when the directory exists afterwards; recursive unlink
// removes exactly the given tree and never follows symbolic links out of it - on a POSIX directory-tree model.
#include <nstd/Directory.hpp>
#include <nstd/File.hpp>
#include "vf.h"

extern "C" int create()
{
  // what exists before: nothing / a / a and a/b / a is a file / a/b is a file / a is a link to a directory elsewhere
  unsigned pre = vf_pick(6);
  if(pre == 1) vf_fs_add("a", 1, 0);
  else if(pre == 2) { vf_fs_add("a", 1, 0); vf_fs_add("a/b", 1, 0); }
  else if(pre == 3) vf_fs_add("a", 2, 0);
  else if(pre == 4) { vf_fs_add("a", 1, 0); vf_fs_add("a/b", 2, 0); }
  else if(pre == 5) { vf_fs_add("elsewhere", 1, 0); vf_fs_add("a", 3, "elsewhere"); }
  // any one mkdir may be refused by the OS
  unsigned failAt = vf_pick(4);
  if(failAt) vf_fs_fail("mkdir", failAt, 13);
  unsigned which = vf_pick(6);
  // also directly below the root, and the root itself (the model's working directory is the root)
  const char* target = which == 0 ? "a/b/c" : which == 1 ? "a" : which == 2 ? "a/b/" : which == 3 ? "/a" : which == 4 ? "/a/b" : "/";
  bool ok = Directory::create(String::fromCString(target));
  bool exists = vf_fs_kind(target) == 1 || (pre == 5 && (which == 1 || which == 3));
  vf_assert(ok == exists, "Directory::create returns true exactly when the directory exists afterwards");
  if(ok && which == 0) vf_assert(vf_fs_kind("a") != 0 && vf_fs_kind("a/b") == 1, "Directory::create makes all missing parents");
  vf_reach("end");
  return 0;
}

extern "C" int unlink_tree()
{
  // the tree t: optional file, sub-directory with a file, symbolic link to an outside directory; plus outside entries
  vf_fs_add("t", 1, 0);
  vf_fs_add("out", 1, 0); vf_fs_add("out/keep", 2, 0); vf_fs_add("other", 1, 0); vf_fs_add("other/x", 2, 0);
  bool hasFile = vf_pick(2), hasDir = vf_pick(2), hasLink = vf_pick(2), hasFileLink = vf_pick(2);
  if(hasFile) vf_fs_add("t/f", 2, 0);
  if(hasDir) { vf_fs_add("t/d", 1, 0); vf_fs_add("t/d/g", 2, 0); if(vf_pick(2)) vf_fs_add("t/d/l2", 3, "other"); }
  if(hasLink) vf_fs_add("t/l", 3, "out");
  if(hasFileLink) vf_fs_add("t/k", 3, "out/keep");
  unsigned mode = vf_pick(3);
  if(mode == 1) { unsigned k = 1 + vf_pick(3); vf_fs_fail("unlink", k, 13); }        // some unlink is refused
  bool recursive = mode != 2;
  bool ok = Directory::unlink(String("t"), recursive);
  bool empty = !hasFile && !hasDir && !hasLink && !hasFileLink;
  if(mode == 0) { vf_assert(ok, "recursive unlink of a removable tree succeeds"); vf_assert(vf_fs_kind("t") == 0 && vf_fs_kind("t/d") == 0 && vf_fs_kind("t/d/g") == 0 && vf_fs_kind("t/f") == 0 && vf_fs_kind("t/l") == 0, "recursive unlink removes the whole tree"); }
  if(mode == 2) vf_assert(ok == empty, "non-recursive unlink succeeds only for an empty directory");
  if(!ok) vf_assert(vf_fs_kind("t") == 1, "a failed unlink reports failure and the directory is still there");
  vf_assert(vf_fs_kind("out") == 1 && vf_fs_kind("out/keep") == 2 && vf_fs_kind("other") == 1 && vf_fs_kind("other/x") == 2, "nothing outside the tree is removed (symbolic links are not followed)");
  vf_assert(vf_fs_touched_outside("t") == 0, "every unlink/rmdir issued is for a path inside the given tree");
  vf_reach("end");
  return 0;
}

// File::rename: a failed rename reports failure and leaves no new file behind; a successful one moves the entry
extern "C" int rename_()
{
  vf_fs_add("d", 1, 0);
  unsigned fromKind = vf_pick(3);                 // absent / file / directory
  unsigned toKind = vf_pick(3);                   // absent / file / (non-empty) directory
  if(fromKind == 1) vf_fs_add("d/from", 2, 0); else if(fromKind == 2) { vf_fs_add("d/from", 1, 0); vf_fs_add("d/from/x", 2, 0); }
  if(toKind == 1) vf_fs_add("d/to", 2, 0); else if(toKind == 2) { vf_fs_add("d/to", 1, 0); vf_fs_add("d/to/y", 2, 0); }
  int fromK = fromKind == 0 ? 0 : fromKind == 1 ? 2 : 1, toK = toKind == 0 ? 0 : toKind == 1 ? 2 : 1;   // vf_fs_kind codes: 1 directory, 2 file
  bool failIfExists = vf_pick(2);
  unsigned refuse = vf_pick(2);
  if(refuse) vf_fs_fail("rename", 1, 18);        // e.g. EXDEV: the OS refuses the rename itself
  bool ok = File::rename(String("d/from"), String("d/to"), failIfExists);
  vf_assert(vf_fs_open_fds() == 0, "no file descriptor is left open");
  if(failIfExists && toKind != 0) vf_assert(!ok, "rename with failIfExists fails when the target exists");
  if(fromKind == 0 || refuse) vf_assert(!ok, "renaming a missing file / a refused rename reports failure");
  if(!ok)
  {
    vf_assert(vf_fs_kind("d/to") == toK, "a failed rename leaves no new file behind (target as before)");
    vf_assert(vf_fs_kind("d/from") == fromK, "a failed rename leaves the source as it was");
    if(toKind == 2) vf_assert(vf_fs_kind("d/to/y") == 2, "a failed rename leaves the target directory's content");
  }
  else
  {
    vf_assert(vf_fs_kind("d/from") == 0 && vf_fs_kind("d/to") == fromK, "a successful rename moves the entry");
    if(fromKind == 2) vf_assert(vf_fs_kind("d/to/x") == 2, "a successful rename moves the directory's content");
  }
  vf_reach("end");
  return 0;
}

// File::copy: a failed copy reports failure, leaves no new file behind and no descriptor open
extern "C" int copy_()
{
  vf_fs_add("d", 1, 0);
  unsigned srcKind = vf_pick(3);                  // absent / file / directory
  unsigned dstKind = vf_pick(2);                  // absent / file
  if(srcKind == 1) vf_fs_add("d/src", 2, 0); else if(srcKind == 2) vf_fs_add("d/src", 1, 0);
  if(dstKind == 1) vf_fs_add("d/dst", 2, 0);
  bool failIfExists = vf_pick(2);
  unsigned refuse = vf_pick(3);
  if(refuse == 1) vf_fs_fail("sendfile", 1, 5);  // the OS fails the transfer itself (EIO)
  else if(refuse == 2) vf_fs_fail("lseek", 1, 5);
  bool ok = File::copy(String("d/src"), String("d/dst"), failIfExists);
  vf_assert(vf_fs_open_fds() == 0, "no file descriptor is left open");
  if(srcKind != 1 || refuse || (failIfExists && dstKind)) vf_assert(!ok, "a copy that cannot be done reports failure");
  if(!ok)
  {
    if(dstKind == 0) vf_assert(vf_fs_kind("d/dst") == 0, "a failed copy leaves no new file behind");
    vf_assert(vf_fs_kind("d/src") == (srcKind == 0 ? 0 : srcKind == 1 ? 2 : 1), "a failed copy leaves the source as it was");
  }
  else vf_assert(vf_fs_kind("d/dst") == 2 && vf_fs_kind("d/src") == 2, "a successful copy: both files exist");
  vf_reach("end");
  return 0;
}
