// C14: the event loop honours timers, removals, readiness and interrupts.
#define private public
#define protected public
#include <../src/Socket/Socket.cpp>
#include <../src/Socket/Server.cpp>
#include "vf.h"

#ifndef VF_NT
#define VF_NT 3          // timers
#endif
#ifndef VF_ACT
#define VF_ACT 5         // activations before the loop is interrupted
#endif

typedef Server::Private::ClientImpl ClientImpl;
static Server::Private* g_p;

// ------------------------------------------------------------------------------------------------ timers
struct TimerCB;
static TimerCB* g_tcb[VF_NT]; static Server::Timer* g_timer[VF_NT];
static unsigned g_activations; static int64 g_lastDue;
struct TimerCB : public Server::Timer::ICallback
{
  int id; int64 interval; int64 nextDue; bool removed; unsigned count; unsigned action;
  virtual void onActivated()
  {
    int64 now = Time::ticks();
    vf_assert(!removed, "a removed timer never receives another callback");
    vf_assert(now >= nextDue, "a timer is never activated before it is due");
    vf_assert(nextDue >= g_lastDue, "timers are activated in order of due time");
    vf_trace((uint64)id);
    g_lastDue = nextDue; nextDue += interval; ++count; ++g_activations;
    // action chosen per activation: nothing, remove itself, remove another timer
    unsigned a = vf_pick(1 + VF_NT);
    if(a > 0)
    {
      unsigned victim = a - 1;
      if(g_timer[victim] && !g_tcb[victim]->removed) { g_tcb[victim]->removed = true; g_p->remove(*(Server::Private::TimerImpl*)g_timer[victim]); }
    }
    bool anyLive = false; for(unsigned i = 0; i < VF_NT; ++i) anyLive |= g_timer[i] && !g_tcb[i]->removed;
    if(g_activations >= VF_ACT || !anyLive) g_p->interrupt();      // without live timers the loop would (correctly) run forever
  }
};

extern "C" int timers()
{
  {
    Server::Private p; g_p = &p;
    TimerCB cbs[VF_NT];
    unsigned nt = 1 + vf_pick(VF_NT);
    int64 start = Time::ticks();
    for(unsigned i = 0; i < VF_NT; ++i) { g_tcb[i] = &cbs[i]; g_timer[i] = 0; cbs[i].id = i; cbs[i].removed = false; cbs[i].count = 0; }
    for(unsigned i = 0; i < nt; ++i)
    {
      cbs[i].interval = 1 + vf_pick(3);          // coinciding due times included
      cbs[i].nextDue = start + cbs[i].interval;
      g_timer[i] = p.time(cbs[i].interval, cbs[i]);
    }
    // optionally remove one timer before the loop starts (equal due times: the search among equal keys)
    unsigned pre = vf_pick(nt + 1);
    if(pre < nt) { cbs[pre].removed = true; p.remove(*(Server::Private::TimerImpl*)g_timer[pre]); }
    bool anyLive = false; for(unsigned i = 0; i < nt; ++i) anyLive |= !cbs[i].removed;
    if(!anyLive) p.interrupt();
    g_activations = 0; g_lastDue = 0;
    p.run();
    // once per interval: no live timer is overdue by a full interval when the loop stops
    int64 now = Time::ticks();
    for(unsigned i = 0; i < nt; ++i) if(!cbs[i].removed) vf_assert(cbs[i].nextDue + cbs[i].interval > now || g_activations >= VF_ACT, "a live timer is activated once per interval");
    // the queue holds exactly the live timers (plus the default timeout entry)
    unsigned live = 0; for(unsigned i = 0; i < nt; ++i) live += !cbs[i].removed;
    vf_assert(p._queuedTimers.size() == live + 1, "timer queue == live timers + default entry");
    vf_assert(p._timers.size() == live, "timer pool == live timers");
  }
  vf_reach("end");
  return 0;
}

// ------------------------------------------------------------------------------------------------ clients, readiness, removal with pending events
struct ClientCB : public Server::Client::ICallback
{
  int id; unsigned reads, writes, closed; bool removed; bool suspended; unsigned action; Server::Client* self; ClientCB* other; bool failRead;
  virtual void onRead()
  {
    vf_assert(!removed, "a removed client never receives another callback");
    vf_assert(!suspended, "a socket is dispatched only with event kinds it is registered for (suspended: no read, even if the event was already pending)");
    ++reads;
    if(action == 3 && other && !other->removed) { other->suspended = true; other->self->suspend(); }           // narrow the other client's registration while its event may be pending
    if(action == 1 && other && !other->removed) { other->removed = true; g_p->remove(*(ClientImpl*)other->self); }       // remove the other client (its event may be pending)
    else if(action == 2) { removed = true; g_p->remove(*(ClientImpl*)self); return; }                                   // remove itself
    byte buf[4]; usize n = 0;
    bool ok = self->read(buf, 4, n);
    if(!ok) failRead = true;
    if(!ok && action == 4) { removed = true; g_p->remove(*(ClientImpl*)self); }                                          // remove itself after the failed read queued it for onClosed
  }
  virtual void onWrite() { vf_assert(!removed, "a removed client never receives another callback"); ++writes; }
  virtual void onClosed() { vf_assert(!removed, "a removed client never receives another callback"); ++closed; removed = true; g_p->remove(*(ClientImpl*)self); }
};

extern "C" int clients()
{
  {
    Server::Private p; g_p = &p;
    Socket peers[2]; ClientCB cb[2];
    for(unsigned i = 0; i < 2; ++i)
    {
      cb[i].id = i; cb[i].reads = cb[i].writes = cb[i].closed = 0; cb[i].removed = false; cb[i].suspended = false; cb[i].failRead = false; cb[i].other = &cb[1 - i];
      cb[i].action = vf_pick(5);
      cb[i].self = p.pair(cb[i], peers[i]);
      vf_assert(cb[i].self != 0, "pair");
    }
    // both clients become readable in the same poll round; one peer may have closed (read fails -> onClosed)
    unsigned scenario = vf_pick(3);
    byte d[1] = {1};
    vf_net_feed((int)((ClientImpl*)cb[0].self)->getFileDescriptor(), d, 1);
    if(scenario == 0) vf_net_feed((int)((ClientImpl*)cb[1].self)->getFileDescriptor(), d, 1); else if(scenario == 1) peers[1].close();
    for(unsigned round = 0; round < 4; ++round) { p.interrupt(); p.run(); }
    for(unsigned i = 0; i < 2; ++i)
    {
      if(cb[i].failRead && cb[i].action != 4) vf_assert(cb[i].closed == 1, "a failed read is followed by onClosed");
      if(cb[i].failRead && cb[i].action == 4) vf_assert(cb[i].closed == 0, "no onClosed for a client removed after its failed read");
      vf_assert(cb[i].writes == 0, "no write event without write interest");
    }
    if(cb[0].action == 0 && cb[1].action == 0 && scenario == 0) { vf_assert(cb[0].reads >= 1 && cb[1].reads >= 1, "every readable registered socket is dispatched"); }
    if(scenario == 1 && !cb[1].removed && !cb[1].suspended) vf_assert(false, "a closed peer is noticed (onRead -> read fails -> onClosed)");
    vf_assert(p._closingClients.isEmpty(), "no closing client left behind");
  }
  vf_reach("end");
  return 0;
}

// ------------------------------------------------------------------------------------------------ listeners and establishers
struct AcceptedCB : public Server::Client::ICallback
{
  unsigned reads, writes, closed; Server::Client* self; bool removed;
  AcceptedCB() : reads(0), writes(0), closed(0), self(0), removed(false) {}
  virtual void onRead() { vf_assert(!removed, "a removed client never receives another callback"); ++reads; byte b[4]; usize n = 0; self->read(b, 4, n); }
  virtual void onWrite() { vf_assert(!removed, "a removed client never receives another callback"); ++writes; }
  virtual void onClosed() { vf_assert(!removed, "a removed client never receives another callback"); ++closed; g_p->remove(*(ClientImpl*)self); }
};
struct ListenCB : public Server::Listener::ICallback
{
  AcceptedCB client; unsigned accepted; bool refuse; bool removeSelf; bool removeClient; Server::Listener* self; bool removed;
  ListenCB() : accepted(0), refuse(false), removeSelf(false), removeClient(false), self(0), removed(false) {}
  virtual Server::Client::ICallback* onAccepted(Server::Client& c, uint32 ip, uint16 port)
  {
    vf_assert(!removed, "a removed listener never receives another callback");
    ++accepted;
    if(removeSelf) { removed = true; g_p->remove(*(Server::Private::ListenerImpl*)self); }     // stop listening from inside the callback
    if(refuse) return 0; client.self = &c;
    if(removeClient) { client.removed = true; g_p->remove(*(ClientImpl*)&c); }     // gives up on the new client, but still returns its handler
    return &client;
  }
};
struct EstCB : public Server::Establisher::ICallback
{
  AcceptedCB client; unsigned connected, abolished;
  EstCB() : connected(0), abolished(0) {}
  virtual Server::Client::ICallback* onConnected(Server::Client& c) { ++connected; client.self = &c; return &client; }
  virtual void onAbolished() { ++abolished; }
};
extern "C" int accept_connect()
{
  {
    Server::Private p; g_p = &p;
    ListenCB lcb; EstCB ecb;
    lcb.refuse = vf_pick(2); lcb.removeSelf = vf_pick(2); lcb.removeClient = !lcb.refuse && vf_pick(2);
    Server::Listener* l = p.listen(Socket::loopbackAddress, 7000, lcb);
    vf_assert(l != 0, "listen"); lcb.self = l;
    Server::Establisher* e = p.connect(Socket::loopbackAddress, 7001, ecb);
    vf_assert(e != 0, "connect");
    int lfd = (int)((Server::Private::ListenerImpl*)l)->getFileDescriptor();
    int efd = (int)((Server::Private::EstablisherImpl*)e)->getFileDescriptor();
    unsigned what = vf_pick(4);
    if(what & 1) { vf_net_pending_accept(lfd); if(lcb.removeSelf) vf_net_pending_accept(lfd); }   // one (or two) connections wait on the listening socket
    if(what & 2) vf_net_writable(efd);               // the non-blocking connect has completed
    for(unsigned round = 0; round < 3; ++round) { p.interrupt(); p.run(); }
    vf_assert(lcb.accepted == ((what & 1) ? 1u : 0u), "an acceptable listener is dispatched exactly once per pending connection, an idle one never");
    vf_assert(ecb.connected + ecb.abolished == ((what & 2) ? 1u : 0u), "a connected establisher is dispatched exactly once, a pending one never");
    vf_assert(lcb.client.reads == 0 && lcb.client.writes == 0 && ecb.client.reads == 0 && ecb.client.writes == 0, "new clients get no read/write event while nothing is readable and no backlog exists");
    if((what & 1) && lcb.removeClient) vf_assert(p._clients.size() == ((what & 2) && ecb.connected ? 1u : 0u), "a client removed inside onAccepted is gone");
    if((what & 1) && !lcb.refuse && !lcb.removeClient)
    {
      // data for the accepted client: exactly a read notification
      int cfd = (int)((ClientImpl*)lcb.client.self)->getFileDescriptor();
      byte d[1] = {9}; vf_net_feed(cfd, d, 1);
      p.interrupt(); p.run(); p.interrupt(); p.run();
      vf_assert(lcb.client.reads == 1 && lcb.client.writes == 0, "a readable client registered for reading gets exactly a read event");
    }
    if((what & 1) && lcb.refuse) vf_assert(p._clients.size() == ((what & 2) && ecb.connected ? 1u : 0u), "a refused connection leaves no client behind");
    if(lcb.removed) vf_assert(p._listeners.size() == 0, "the removed listener is gone");
    // clear(): everything is dropped, the loop still works afterwards (default timer restored, interrupt consumed)
    if(vf_pick(2))
    {
      p.clear();
      vf_assert(p._clients.size() == 0 && p._listeners.size() == 0 && p._establishers.size() == 0 && p._timers.size() == 0, "clear() drops every registration");
      vf_assert(p._queuedTimers.size() == 1, "clear() keeps exactly the default timeout entry");
      unsigned acc = lcb.accepted;
      p.interrupt(); p.run();
      vf_assert(lcb.accepted == acc, "nothing is dispatched after clear()");
    }
  }
  vf_reach("end");
  return 0;
}

// ------------------------------------------------------------------------------------------------ interrupts
static void* interrupter(void* arg) { ((Server::Private*)arg)->interrupt(); return 0; }
extern "C" int interrupts()
{
  {
    Server::Private p; g_p = &p;
    unsigned mode = vf_pick(3);
    if(mode == 0) { p.interrupt(); p.run(); vf_reach("before"); }                                   // before run: the next run returns
    else if(mode == 1) { p.interrupt(); p.interrupt(); p.run(); p.interrupt(); p.run(); }          // repeated interrupts are not lost or doubled
    else { uint32_t t = vf_spawn(interrupter, &p); p.run(); vf_join(t); vf_reach("during"); }      // from another thread, before or during run
    vf_assert(!p._interrupted, "the interrupt request is consumed by the run that returns");
  }
  vf_reach("end");
  return 0;
}

// ------------------------------------------------------------------------------------------------ timers created from onClosed
// The reconnect idiom: the peer goes away, the read fails, onClosed removes the client and starts a timer. That timer is a
// timer like any other: activated once per interval, i.e. not a whole interval late.
struct LateTimerCB : public Server::Timer::ICallback
{
  int64 due, interval; unsigned count;
  virtual void onActivated()
  {
    int64 now = Time::ticks();
    vf_assert(now >= due, "a timer is never activated before it is due");
    vf_assert(now - due < interval, "a timer is activated once per interval (a timer created inside onClosed is not late)");
    due += interval; ++count;
    g_p->interrupt();
  }
};
static LateTimerCB g_late;
struct ReconnectCB : public Server::Client::ICallback
{
  Server::Client* self; unsigned closed; unsigned viaTimer;
  virtual void onRead() { byte b[4]; usize n = 0; self->read(b, 4, n); }
  virtual void onWrite() {}
  virtual void onClosed()
  {
    ++closed;
    g_p->remove(*(ClientImpl*)self);
    g_late.interval = 1 + vf_pick(3); g_late.due = Time::ticks() + g_late.interval; g_late.count = 0;
    vf_assert(g_p->time(g_late.interval, g_late) != 0, "time()");
  }
};
extern "C" int closed_timer()
{
  {
    Server::Private p; g_p = &p;
    Socket peer; ReconnectCB cb; cb.closed = 0;
    cb.self = p.pair(cb, peer);
    vf_assert(cb.self != 0, "pair");
    peer.close();
    p.run();                                       // returns through the timer's interrupt()
    vf_assert(cb.closed == 1, "a failed read is followed by onClosed");
    vf_assert(g_late.count == 1, "the timer created from onClosed was activated");
  }
  vf_reach("end");
  return 0;
}

// a timer with interval 0 (or a negative one): run() stays interruptible and the other timer still gets its turn
struct ZeroCB : public Server::Timer::ICallback
{
  unsigned count;
  virtual void onActivated() { ++count; if(count >= 3) g_p->interrupt(); vf_assert(count < 64, "run() does not return although interrupt() was called (timer with interval <= 0)"); }
};
extern "C" int zero_interval()
{
  {
    Server::Private p; g_p = &p;
    ZeroCB z; z.count = 0;
    int64 interval = vf_pick(2) ? 0 : -5;
    vf_assert(p.time(interval, z) != 0, "time()");
    p.run();
    vf_assert(z.count >= 3, "the timer was activated");
  }
  vf_reach("end");
  return 0;
}
