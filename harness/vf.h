// Harness intrinsics. One harness source, three executions (DESIGN.md 2.1):
//  (a) symbolic: engine/symex.py interprets the IR, vf_* are engine built-ins
//  (b) native replay: harness/vf_native.cpp reads the values of a counterexample from $VF_REPLAY
//  (c) native random: values come from a PRNG seeded by $VF_SEED and are logged to $VF_LOG
#pragma once
#include <stddef.h>
#include <stdint.h>
extern "C" {
uint8_t  vf_u8(void);
uint16_t vf_u16(void);
uint32_t vf_u32(void);
uint64_t vf_u64(void);
uint32_t vf_choose(uint32_t n);          // symbolic value in [0,n)
uint32_t vf_pick(uint32_t n);            // value in [0,n), path split per value at once
uint32_t vf_range(uint32_t lo, uint32_t hi); // symbolic value in [lo,hi]
void vf_assume(bool c);
void vf_assert(bool c, const char* msg);
void vf_fail(const char* msg);
void vf_bytes(void* p, size_t n);        // n fresh symbolic bytes
void vf_reach(const char* tag);          // vacuity witness
void vf_trace(uint64_t v);               // translator-validation observable
void* vf_alloc(size_t n);                // exactly sized heap object
void vf_free(void* p);
uint64_t vf_heap_live(void);             // number of live heap objects (engine) / 0 natively
int vf_valid(const void* p, size_t n);   // [p,p+n) inside one live object (engine) / 1 natively
}
#define VF_ASSERT(c) vf_assert((c), #c)
// threads (engine only: modelled threads over the same memory, preemption at atomic/volatile accesses and sync calls)
extern "C" {
uint32_t vf_spawn(void* (*fn)(void*), void* arg);
uint64_t vf_join(uint32_t tid);
void vf_yield(void);
}
// kernel model controls (engine only)
extern "C" {
void vf_net_writable(int fd);                       // the next epoll_wait reports fd writable
void vf_net_feed(int fd, const void* data, size_t n);   // bytes arrive at fd
void vf_net_pending_accept(int fd);                 // a connection waits on listening fd
void vf_net_script_send(int fd, int kind, size_t n);    // next send(): 0 would-block, 1 error, 2 returns 0, 3 accepts n bytes
void vf_clock_advance_ms(uint64_t ms);
uint64_t vf_clock_ns(void);
unsigned vf_cond_waiters(void);      // model environment only: threads currently blocked on a condition variable
}
// directory-tree model controls (engine only)
extern "C" {
void vf_fs_add(const char* path, int kind, const char* target);   // kind 1 directory, 2 file, 3 symbolic link to target
int vf_fs_kind(const char* path);                                 // 0 absent, 1 directory, 2 file, 3 symbolic link
void vf_fs_fail(const char* call, unsigned nth, int err);         // the nth call of mkdir/rmdir/unlink fails with err
unsigned vf_fs_open_fds(void);                                        // file descriptors of the model that are still open
unsigned vf_fs_touched_outside(const char* root);                 // unlink/rmdir calls issued for paths outside root
}
