// C18: Unicode (UTF-8) codec, fromHex, fromBase64, integer <-> decimal text conversions.
#include <nstd/String.hpp>
#include <nstd/Unicode.hpp>
#include "vf.h"

#ifndef VF_B64N
#define VF_B64N 3      // bytes encoded in the base64 round trip
#endif
#ifndef VF_B64ARB
#define VF_B64ARB 4    // length of arbitrary base64 input
#endif
#ifndef VF_UTFN
#define VF_UTFN 5
#endif

// ---- RFC 3629 reference encoder (branch on the range only)
static unsigned refEncode(uint32 cp, byte* out)
{
  if(cp < 0x80) { out[0] = (byte)cp; return 1; }
  if(cp < 0x800) { out[0] = 0xC0 | (cp >> 6); out[1] = 0x80 | (cp & 0x3F); return 2; }
  if(cp < 0x10000) { out[0] = 0xE0 | (cp >> 12); out[1] = 0x80 | ((cp >> 6) & 0x3F); out[2] = 0x80 | (cp & 0x3F); return 3; }
  out[0] = 0xF0 | (cp >> 18); out[1] = 0x80 | ((cp >> 12) & 0x3F); out[2] = 0x80 | ((cp >> 6) & 0x3F); out[3] = 0x80 | (cp & 0x3F); return 4;
}

extern "C" int utf8_roundtrip()
{
  uint32 cp = vf_u32();
  vf_assume(cp <= 0x10FFFF);
  {
    String s = Unicode::toString(cp);
    byte ref[4]; unsigned n = refEncode(cp, ref);
    vf_assert(s.length() == n, "toString: length == UTF-8 length");
    const char* p = s;
    for(unsigned i = 0; i < n; ++i) vf_assert((byte)p[i] == ref[i], "toString: bytes == RFC 3629 layout");
    vf_assert(p[n] == 0, "toString: terminated");
    vf_assert(Unicode::fromString(s) == cp, "fromString(toString(cp)) == cp");
    vf_assert(Unicode::fromString(p, n) == cp, "fromString(ptr,len) == cp");
    vf_assert(Unicode::length(p[0]) == n, "length(lead byte) == encoded length");
    vf_assert(Unicode::isValid(s), "isValid(toString(cp))");
    String t;
    vf_assert(Unicode::append(cp, t) && t == s, "append(cp) == toString(cp)");
  }
  // code points beyond U+10FFFF are refused
  uint32 big = vf_u32(); vf_assume(big > 0x10FFFF);
  { String t; vf_assert(!Unicode::append(big, t) && t.isEmpty(), "append refuses code points > U+10FFFF"); }
  vf_reach("end");
  return 0;
}

// arbitrary bytes in an exactly sized object: no access outside [ch, ch+len) (engine bounds), sane results
extern "C" int utf8_bounds()
{
  unsigned n = vf_pick(VF_UTFN + 1);
  char* buf = (char*)vf_alloc(n);
  for(unsigned i = 0; i < n; ++i) buf[i] = (char)vf_u8();
  unsigned len = vf_pick(n + 1);
  unsigned which = vf_pick(3);
  if(which == 0) { if(len) { usize l = Unicode::length(buf[0]); vf_assert(l <= 4, "length() in 0..4"); } }
  else if(which == 1)
  {
    bool v = Unicode::isValid(buf, len);
    // reference validator (structure only, as the implementation documents): lead byte class + continuation bytes
    bool ref = true; unsigned i = 0;
    while(i < len && ref)
    {
      byte b = (byte)buf[i]; unsigned k = (b & 0x80) == 0 ? 1 : (b & 0xe0) == 0xc0 ? 2 : (b & 0xf0) == 0xe0 ? 3 : (b & 0xf8) == 0xf0 ? 4 : 0;
      if(k == 0 || i + k > len) { ref = false; break; }
      for(unsigned j = 1; j < k; ++j) if(((byte)buf[i + j] & 0xc0) != 0x80) ref = false;
      i += k;
    }
    vf_assert(v == ref, "isValid == reference validator");
  }
  else
  {
    uint32 r = Unicode::fromString(buf, len);
    if(len == 0) vf_assert(r == 0, "fromString(len 0) == 0");
    else
    {
      byte b = (byte)buf[0]; unsigned k = (b & 0x80) == 0 ? 1 : (b & 0xe0) == 0xc0 ? 2 : (b & 0xf0) == 0xe0 ? 3 : (b & 0xf8) == 0xf0 ? 4 : 0;
      if(k >= 1 && k <= len)
      {
        bool cont = true; for(unsigned j = 1; j < k; ++j) cont = cont & (((byte)buf[j] & 0xc0) == 0x80);
        if(cont)
        {
          uint32 ref = k == 1 ? b : k == 2 ? ((b & 0x1f) << 6) | (buf[1] & 0x3f) : k == 3 ? ((b & 0x0f) << 12) | ((buf[1] & 0x3f) << 6) | (buf[2] & 0x3f)
                       : ((b & 0x07) << 18) | ((buf[1] & 0x3f) << 12) | ((buf[2] & 0x3f) << 6) | (buf[3] & 0x3f);
          vf_assert(r == ref, "fromString decodes well-formed UTF-8");
        }
      }
      else if(k > len) vf_assert(r == 0, "fromString(truncated sequence) == 0");
    }
  }
  vf_free(buf);
  vf_reach("end");
  return 0;
}

extern "C" int hex()
{
  unsigned n = vf_pick(4);
  byte* d = (byte*)vf_alloc(n);
  for(unsigned i = 0; i < n; ++i) d[i] = vf_u8();
  {
    String h = String::fromHex(d, n);
    vf_assert(h.length() == 2 * n, "fromHex: two digits per byte");
    const char* p = h;
    static const char digits[] = "0123456789ABCDEF";
    for(unsigned i = 0; i < n; ++i)
    {
      byte hi = d[i] >> 4, lo = d[i] & 15;
      byte eh = hi < 10 ? '0' + hi : 'A' + hi - 10, el = lo < 10 ? '0' + lo : 'A' + lo - 10;
      vf_assert((byte)p[2 * i] == eh, "fromHex: high digit upper-case hex");
      vf_assert((byte)p[2 * i + 1] == el, "fromHex: low digit upper-case hex");
    }
    vf_assert(p[2 * n] == 0, "fromHex: terminated");
  }
  vf_free(d);
  vf_reach("end");
  return 0;
}

static byte b64char(byte v) // RFC 4648 alphabet, branch-free
{
  return (byte)((v < 26) * ('A' + v) + ((v >= 26) & (v < 52)) * ('a' + v - 26) + ((v >= 52) & (v < 62)) * ('0' + v - 52) + (v == 62) * '+' + (v == 63) * '/');
}

extern "C" int base64_roundtrip()
{
  unsigned n = vf_pick(VF_B64N + 1);
  byte d[VF_B64N + 3]; for(unsigned i = 0; i < n; ++i) d[i] = vf_u8();
  char enc[(VF_B64N + 3) / 3 * 4 + 4]; unsigned e = 0;
  for(unsigned i = 0; i < n; i += 3)
  {
    unsigned rem = n - i;
    uint32 v = (uint32)d[i] << 16 | (rem > 1 ? (uint32)d[i + 1] << 8 : 0) | (rem > 2 ? (uint32)d[i + 2] : 0);
    enc[e++] = b64char((v >> 18) & 63); enc[e++] = b64char((v >> 12) & 63);
    enc[e++] = rem > 1 ? b64char((v >> 6) & 63) : '='; enc[e++] = rem > 2 ? b64char(v & 63) : '=';
  }
  {
    String in(enc, e);
    String out = String::fromBase64(in);
    vf_assert(out.length() == n, "fromBase64(encode(b)): length");
    const char* p = out;
    for(unsigned i = 0; i < n; ++i) vf_assert((byte)p[i] == d[i], "fromBase64(encode(b)) == b");
  }
  vf_reach("end");
  return 0;
}

// every other byte string: no out-of-bounds table or buffer access (engine), result never longer than 3/4 of the input
extern "C" int base64_arbitrary()
{
  unsigned n = vf_pick(VF_B64ARB + 1);
  char* buf = (char*)vf_alloc(n + 1);
  for(unsigned i = 0; i < n; ++i) buf[i] = (char)vf_u8();
  buf[n] = 0;
  {
    String in(buf, n);
    String out = String::fromBase64(in);
    vf_assert(out.length() * 4 <= n * 3, "fromBase64: output at most 3/4 of the input");
    if(n & 3) vf_assert(out.isEmpty(), "fromBase64: length not a multiple of 4 is rejected");
  }
  vf_free(buf);
  vf_reach("end");
  return 0;
}

// integer <-> text (vsnprintf / ato* / strto* replaced by reference models: decides format, width, signedness glue)
extern "C" int ints()
{
  unsigned which = vf_pick(4);
  if(which == 0) { int v = (int)vf_u32(); String s = String::fromInt(v); vf_assert(s.toInt() == v, "toInt(fromInt(v)) == v"); vf_assert(String::toInt((const char*)s) == v, "static toInt"); }
  else if(which == 1) { uint v = vf_u32(); String s = String::fromUInt(v); vf_assert(s.toUInt() == v, "toUInt(fromUInt(v)) == v"); }
  else if(which == 2) { int64 v = (int64)vf_u64(); String s = String::fromInt64(v); vf_assert(s.toInt64() == v, "toInt64(fromInt64(v)) == v"); }
  else { uint64 v = vf_u64(); String s = String::fromUInt64(v); vf_assert(s.toUInt64() == v, "toUInt64(fromUInt64(v)) == v"); }
  vf_reach("end");
  return 0;
}

// decimal text layout of the formatter glue: sign, digits, no padding
extern "C" int int_text()
{
  int v = (int)vf_u32();
  String s = String::fromInt(v);
  const char* p = s; usize n = s.length();
  vf_assert(n >= 1 && n <= 11, "fromInt: 1..11 characters");
  vf_assert((p[0] == '-') == (v < 0), "fromInt: minus sign iff negative");
  unsigned start = v < 0 ? 1 : 0;
  for(usize i = start; i < n; ++i) vf_assert((p[i] >= '0') & (p[i] <= '9'), "fromInt: decimal digits");
  if(n - start > 1) vf_assert(p[start] != '0', "fromInt: no leading zero");
  vf_reach("end");
  return 0;
}
