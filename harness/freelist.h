// Slot discipline shared by the node and pool containers (List, Map, MultiMap, HashMap, HashSet, PoolList, PoolMap):
// released slots are chained through Item::prev from `freeItem`; a slot is either live (on the begin..end list) or free,
// never both, and the free list is a simple chain. A violation means a later insert constructs on top of a live element.
#pragma once
template <typename C> static void vf_checkFreeList(C& c)
{
  unsigned nfree = 0;
  for(typename C::Item* f = c.freeItem; f; f = f->prev)
  {
    ++nfree;
    vf_assert(nfree <= 32, "inv: free list is a simple chain (no cycle)");
    for(typename C::Item* i = c._begin.item; i != &c.endItem; i = i->next)
      vf_assert(i != f, "inv: a free slot is not a live element");
  }
}
