// C02 (string hash part): HashSet<String> / HashMap<String,int> with the real hash(const String&) on symbolic short strings.
#define private public
#include <nstd/String.hpp>
#include <nstd/HashSet.hpp>
#include <nstd/HashMap.hpp>
#include "vf.h"

#ifndef VF_SL
#define VF_SL 2
#endif
static String symStr(byte* out, unsigned& n)
{
  n = vf_pick(VF_SL + 1);
  for(unsigned i = 0; i < n; ++i) { byte b = vf_u8(); vf_assume(b != 0); out[i] = b; }
  return String((const char*)out, n);
}
static bool same(const byte* a, unsigned na, const byte* b, unsigned nb) { bool eq = na == nb; if(eq) for(unsigned i = 0; i < na; ++i) eq = eq & (a[i] == b[i]); return eq; }

extern "C" int strhash()
{
  {
    byte k1[4], k2[4], k3[4]; unsigned n1, n2, n3;
    String s1 = symStr(k1, n1), s2 = symStr(k2, n2), s3 = symStr(k3, n3);
    // equal strings hash equally (the hash reads s[0], s[len/2], s[len-1] through the C-string view)
    bool e12 = same(k1, n1, k2, n2);
    if(e12) vf_assert(hash(s1) == hash(s2), "equal strings have equal hashes");
    HashMap<String, int> m(4);          // four buckets (a power of two keeps "hash % capacity" a bit extraction the solver can decide): collisions and spread both occur
    m.append(s1, 1); m.append(s2, 2);
    vf_assert(m.size() == (e12 ? 1u : 2u), "insert of an equal key keeps one entry");
    vf_assert(m.contains(s1) && m.contains(s2), "inserted keys are found");
    vf_assert(*m.find(s1) == (e12 ? 2 : 1), "value of the first key (updated if the second key is equal)");
    bool e3 = same(k3, n3, k1, n1) | same(k3, n3, k2, n2);
    vf_assert(m.contains(s3) == e3, "contains(probe) == model");
    m.remove(s3);
    vf_assert(m.size() == (e12 ? 1u : 2u) - (e3 ? 1u : 0u), "remove(probe) removes exactly a present key");
    HashSet<String> set(2);
    set.append(s1); set.append(s2); set.append(s1);
    vf_assert(set.size() == (e12 ? 1u : 2u), "HashSet<String> keeps unique keys");
    vf_assert(set.front() == s1, "HashSet keeps insertion order");
  }
  vf_reach("end");
  return 0;
}
