// C09: shared payloads (String, Variant, RefCount::Ptr) are released exactly once, after the last handle, and never
// modified in place while another handle refers to them - sequential handle histories and two/three threads that each
// own distinct handles to one payload (every interleaving within the preemption bound).
#define private public
#define protected public
#include <nstd/String.hpp>
#include <nstd/Variant.hpp>
#include <nstd/RefCount.hpp>
#include "vf.h"

#ifndef VF_K
#define VF_K 4
#endif
#ifndef VF_TOPS
#define VF_TOPS 2
#endif

// ---------------------------------------------------------------- RefCount::Ptr, sequential
static int g_objLive[4]; static int g_objDtor[4];
struct Obj : public RefCount::Object
{
  int id;
  RefCount::Ptr<Obj> next;       // objects may refer to each other (list idiom: p = p->next)
  Obj(int id) : id(id) { g_objLive[id] = 1; }
  ~Obj() { vf_assert(g_objLive[id] == 1, "pointee destroyed twice"); g_objLive[id] = 0; ++g_objDtor[id]; }
};

extern "C" int ptr_seq()
{
  {
    RefCount::Ptr<Obj> h[3]; int model[3] = {-1, -1, -1};     // which object each handle refers to
    Obj* objs[2] = {new Obj(0), new Obj(1)};
    bool adopted[2] = {false, false}; bool linked = false;     // linked: objs[0]->next refers to objs[1]
    for(unsigned k = 0; k < VF_K; ++k)
    {
      unsigned op = vf_pick(8);
      if(op == 0) break;
      unsigned t = vf_pick(3);
      switch(op)
      {
      case 1: { unsigned o = vf_pick(2); if(g_objDtor[o]) break; h[t] = objs[o]; model[t] = o; adopted[o] = true; break; }      // assign raw
      case 2: { unsigned u = vf_pick(3); h[t] = h[u]; model[t] = model[u]; break; }                                              // assign handle
      case 3: { unsigned u = vf_pick(3); if(u == t) break; h[t].swap(h[u]); int m = model[t]; model[t] = model[u]; model[u] = m; break; }
      case 4: { h[t] = (Obj*)0; model[t] = -1; break; }                                                                          // release
      case 5: { RefCount::Ptr<Obj> c(h[t]); vf_assert((c ? c->id : -1) == model[t], "copy refers to the same object"); break; }
      case 6: { if(g_objDtor[0] || g_objDtor[1] || linked || !adopted[0]) break; objs[0]->next = objs[1]; adopted[1] = true; linked = true; break; }   // 0 -> 1
      case 7: { if(model[t] != 0 || !linked) break; h[t] = h[t]->next; model[t] = 1; break; }      // p = p->next: the argument lives inside the object the handle may be the last owner of
      }
      if(linked && g_objDtor[0]) linked = false;
      // after every operation: an object is alive iff some handle refers to it (or it was never adopted), and handles see their object
      for(unsigned o = 0; o < 2; ++o)
      {
        bool referenced = false; for(unsigned i = 0; i < 3; ++i) referenced |= model[i] == (int)o;
        if(o == 1 && linked) referenced = true;      // kept alive by objs[0]->next
        if(adopted[o]) vf_assert((g_objLive[o] == 1) == referenced, "object lives exactly as long as a handle refers to it");
      }
      for(unsigned i = 0; i < 3; ++i)
      {
        vf_assert((bool)h[i] == (model[i] >= 0), "handle null-ness == model");
        if(model[i] >= 0) { vf_assert(g_objLive[model[i]] == 1, "handle refers to a live object"); vf_assert(h[i]->id == model[i], "handle designates its object"); }
      }
    }
    for(unsigned o = 0; o < 2; ++o) if(!adopted[o]) { RefCount::Ptr<Obj> tmp(objs[o]); }   // release never-adopted objects
  }
  for(unsigned o = 0; o < 2; ++o) { vf_assert(g_objLive[o] == 0, "every object released at the end"); vf_assert(g_objDtor[o] == 1, "released exactly once"); }
  vf_reach("end");
  return 0;
}

// ---------------------------------------------------------------- threads
struct StrJob { String h; unsigned ops[VF_TOPS]; bool alive; char expect[8]; unsigned elen; };
static void strOps(StrJob& j)
{
  for(unsigned i = 0; i < VF_TOPS; ++i)
    switch(j.ops[i])
    {
    case 0: break;
    case 1: { String local(j.h); vf_assert(local.length() == j.elen, "thread-local copy sees this thread's value"); break; }      // copy own handle, drop the copy
    case 2: { j.h.append('x'); j.expect[j.elen++] = 'x'; break; }                                                                 // modify through own handle
    case 3: { j.h = String(); j.elen = 0; break; }                                                                                // drop the handle's payload
    }
}
static void* strThread(void* p) { strOps(*(StrJob*)p); return 0; }
static void checkStr(const StrJob& j)
{
  vf_assert(j.h.length() == j.elen, "String: length after concurrent use");
  const char* p = j.h.data->str;
  for(unsigned i = 0; i < j.elen; ++i) vf_assert(p[i] == j.expect[i], "String: bytes after concurrent use (no in-place modification of a shared payload)");
}
extern "C" int string_threads()
{
  {
    StrJob a, b;
    a.h = String((usize)8); a.h.append("abc", 3);  // owned payload "abc" with spare capacity (an in-place append is possible)
    b.h = a.h;                                    // second handle to the same payload
    String mainHandle(a.h);                       // third handle kept by the main thread
    a.elen = b.elen = 3; for(unsigned i = 0; i < 3; ++i) a.expect[i] = b.expect[i] = "abc"[i];
    for(unsigned i = 0; i < VF_TOPS; ++i) { a.ops[i] = vf_pick(4); b.ops[i] = vf_pick(4); }
    uint32_t t1 = vf_spawn(strThread, &a);
    uint32_t t2 = vf_spawn(strThread, &b);
    if(vf_pick(2)) mainHandle = String();          // the main thread may drop its handle concurrently
    vf_join(t1); vf_join(t2);
    checkStr(a); checkStr(b);
    if(mainHandle.length()) { vf_assert(mainHandle.length() == 3, "main handle unchanged"); vf_assert(mainHandle == "abc", "main handle content unchanged"); }
  }
  vf_reach("end");       // the engine checks at exit: no leak, no double free, no use after free
  return 0;
}

struct VarJob { Variant h; unsigned ops[VF_TOPS]; unsigned expectSize; };
static void* varThread(void* p)
{
  VarJob& j = *(VarJob*)p;
  for(unsigned i = 0; i < VF_TOPS; ++i)
    switch(j.ops[i])
    {
    case 0: break;
    case 1: { Variant local(j.h); vf_assert(local.toList().size() == j.expectSize, "thread-local copy sees this thread's value"); break; }
    case 2: { j.h.toList().append(Variant(1)); ++j.expectSize; break; }
    case 3: { j.h.clear(); j.expectSize = 0; break; }
    }
  return 0;
}
extern "C" int variant_threads()
{
  {
    VarJob a, b;
    a.h.toList().append(Variant(5)); b.h = a.h; a.expectSize = b.expectSize = 1;
    for(unsigned i = 0; i < VF_TOPS; ++i) { a.ops[i] = vf_pick(4); b.ops[i] = vf_pick(4); }
    uint32_t t1 = vf_spawn(varThread, &a);
    uint32_t t2 = vf_spawn(varThread, &b);
    vf_join(t1); vf_join(t2);
    const Variant& ca = a.h; const Variant& cb = b.h;
    vf_assert(ca.toList().size() == a.expectSize, "Variant a: list size after concurrent use");
    vf_assert(cb.toList().size() == b.expectSize, "Variant b: list size after concurrent use");
  }
  vf_reach("end");
  return 0;
}

struct PtrJob { RefCount::Ptr<Obj> h; unsigned ops[VF_TOPS]; };
static void* ptrThread(void* p)
{
  PtrJob& j = *(PtrJob*)p;
  for(unsigned i = 0; i < VF_TOPS; ++i)
    switch(j.ops[i])
    {
    case 0: break;
    case 1: { RefCount::Ptr<Obj> local(j.h); if(local) vf_assert(g_objLive[local->id] == 1, "object alive while a handle exists"); break; }
    case 2: { j.h = (Obj*)0; break; }
    }
  return 0;
}
extern "C" int ptr_threads()
{
  {
    PtrJob a, b;
    a.h = new Obj(0); b.h = a.h;
    for(unsigned i = 0; i < VF_TOPS; ++i) { a.ops[i] = vf_pick(3); b.ops[i] = vf_pick(3); }
    uint32_t t1 = vf_spawn(ptrThread, &a);
    uint32_t t2 = vf_spawn(ptrThread, &b);
    vf_join(t1); vf_join(t2);
    bool anyHandle = (bool)a.h | (bool)b.h;
    vf_assert((g_objLive[0] == 1) == anyHandle, "object lives exactly as long as a handle refers to it");
  }
  vf_assert(g_objLive[0] == 0 && g_objDtor[0] == 1, "released exactly once, after the last handle");
  vf_reach("end");
  return 0;
}
