// C06 (also C09 sequential part for String): String against a byte-string model; three variables that may share a buffer.
// Entries: history (K mutating ops over 3 variables, every variable compared after every op), queries (read-only API on
// two short symbolic strings), cstr (C-string view of every representation class), tokens (token/split/join).
#define private public
#include <nstd/String.hpp>
#include <nstd/List.hpp>
#include <nstd/HashSet.hpp>
#include "vf.h"

#ifndef VF_K
#define VF_K 3
#endif
#ifndef VF_L
#define VF_L 2        // max length of symbolic argument strings
#endif
#define CAPM 48
#define NV 3
#define EXTN 4

struct MStr
{
  byte v[CAPM]; bool unspec[CAPM]; unsigned n;
  MStr() : n(0) {}
  void set(const byte* d, unsigned k) { vf_assert(k <= CAPM, "model capacity"); for(unsigned i = 0; i < k; ++i) { v[i] = d[i]; unspec[i] = false; } n = k; }
  void append(const MStr& o) { vf_assert(n + o.n <= CAPM, "model capacity"); for(unsigned i = 0; i < o.n; ++i) { v[n + i] = o.v[i]; unspec[n + i] = o.unspec[i]; } n += o.n; }
};
static MStr concat(const MStr& a, const MStr& b) { MStr r = a; r.append(b); return r; }

static char* g_ext; static char g_extCopy[EXTN + 1];
static const char g_lit[] = "aB c";
static char g_litCopy[sizeof(g_lit)];

static byte nz() { byte b = vf_u8(); vf_assume(b != 0); return b; }
static void symStr(MStr& m, unsigned maxLen) { unsigned n = vf_pick(maxLen + 1); byte d[8]; for(unsigned i = 0; i < n; ++i) d[i] = nz(); m.set(d, n); }

static void checkOne(const String& s, const MStr& m)
{
  vf_assert(s.length() == m.n, "length() == model");
  vf_trace(s.length());
  vf_assert(s.isEmpty() == (m.n == 0), "isEmpty() == model");
  const char* p = s.data->str;      // raw view: no detach side effect
  for(unsigned i = 0; i < m.n; ++i)
    if(!m.unspec[i]) { vf_assert((byte)p[i] == m.v[i], "byte == model"); vf_trace((byte)p[i]); }
  if(s.data->ref)   // owned data is always terminated
    vf_assert(p[m.n] == 0, "owned data: NUL at length()");
}
static void checkAll(String* s, MStr* m)
{
  for(unsigned i = 0; i < NV; ++i) checkOne(s[i], m[i]);
  for(unsigned i = 0; i <= EXTN; ++i) vf_assert(g_ext[i] == g_extCopy[i], "attached memory unchanged");
  for(unsigned i = 0; i < sizeof(g_lit); ++i) vf_assert(g_lit[i] == g_litCopy[i], "literal unchanged");
}

static void setup()
{
  g_ext = (char*)vf_alloc(EXTN + 1);    // attached ranges lie inside [0,EXTN); one readable byte follows (operator const char* peeks str[len])
  for(unsigned i = 0; i <= EXTN; ++i) g_extCopy[i] = g_ext[i] = (char)nz();
  for(unsigned i = 0; i < sizeof(g_lit); ++i) g_litCopy[i] = g_lit[i];
}

// branch-free reference helpers (a branch on a symbolic byte would fork the path)
static bool isTrimChar(byte c) { return (c == ' ') | (c == '\t') | (c == '\r') | (c == '\n') | (c == '\v'); }
static byte lower(byte c) { return c + 32 * ((c >= 'A') & (c <= 'Z')); }
static byte upper(byte c) { return c - 32 * ((c >= 'a') & (c <= 'z')); }

static const unsigned char g_sharingOps[] = {0, 1, 2, 4, 5, 7, 8, 9, 15, 17, 18};
static bool oneOp(String* s, MStr* m, bool sharingOnly)
{
  unsigned op = sharingOnly ? g_sharingOps[vf_pick(sizeof(g_sharingOps))] : vf_pick(21);
  if(op == 0) return false;
  unsigned t = vf_pick(NV);
  switch(op)
  {
  case 1: { unsigned u = vf_pick(NV); s[t] = s[u]; m[t] = m[u]; break; }
  case 2: { unsigned u = vf_pick(NV); MStr a = m[u]; s[t].append(s[u]); m[t].append(a); break; }
  case 3: { MStr a; symStr(a, VF_L); s[t].append((const char*)a.v, a.n); m[t].append(a); break; }
  case 4: { byte c = nz(); s[t].append((char)c); MStr a; a.set(&c, 1); m[t].append(a); break; }
  case 5: { unsigned u = vf_pick(NV); MStr a = m[u]; s[t].prepend(s[u]); m[t] = concat(a, m[t]); break; }
  case 6: { MStr a; symStr(a, VF_L); s[t].prepend((const char*)a.v, a.n); m[t] = concat(a, m[t]); break; }
  case 7: { unsigned off = vf_pick(EXTN + 1); unsigned len = vf_pick(EXTN - off + 1); s[t].attach(g_ext + off, len); m[t].set((const byte*)g_extCopy + off, len); break; }
  case 8: s[t].clear(); m[t].n = 0; break;
  case 9: { unsigned n = vf_pick(m[t].n + 3); s[t].resize(n); for(unsigned i = m[t].n; i < n; ++i) m[t].unspec[i] = true; m[t].n = n; break; }
  case 10: { unsigned n = vf_pick(m[t].n + 6); s[t].reserve(n); vf_assert(s[t].capacity() >= n, "reserve: capacity() >= request"); break; }
  case 11: { byte a = nz(), b = nz(); bool anyUnspec = false; for(unsigned i = 0; i < m[t].n; ++i) anyUnspec |= m[t].unspec[i];
             if(anyUnspec) break; s[t].replace((char)a, (char)b); for(unsigned i = 0; i < m[t].n; ++i) if(m[t].v[i] == a) m[t].v[i] = b; break; }
  case 12: { bool anyUnspec = false; for(unsigned i = 0; i < m[t].n; ++i) anyUnspec |= m[t].unspec[i]; if(anyUnspec) break;
             if(vf_pick(2)) { s[t].toLowerCase(); for(unsigned i = 0; i < m[t].n; ++i) m[t].v[i] = lower(m[t].v[i]); }
             else { s[t].toUpperCase(); for(unsigned i = 0; i < m[t].n; ++i) m[t].v[i] = upper(m[t].v[i]); } break; }
  case 13: { bool anyUnspec = false; for(unsigned i = 0; i < m[t].n; ++i) anyUnspec |= m[t].unspec[i]; if(anyUnspec) break;
             s[t].trim(); unsigned b = 0, e = m[t].n; while(b < e && isTrimChar(m[t].v[b])) ++b; while(e > b && isTrimChar(m[t].v[e - 1])) --e;
             MStr r; r.set(m[t].v + b, e - b); m[t] = r; break; }
  case 14: { unsigned u = vf_pick(NV); int start = (int)vf_pick(m[u].n + 3) - 1; int len = (int)vf_pick(m[u].n + 2) - 1;   // start in [-1, n+1], len in [-1, n]
             String r = s[u].substr(start, len);
             int st = start < 0 ? (int)m[u].n + start : start; if(st < 0) st = 0; if(st > (int)m[u].n) st = m[u].n;
             int en = len >= 0 ? st + len : (int)m[u].n; if(en > (int)m[u].n) en = m[u].n;
             MStr mr; mr.n = en - st; for(int i = st; i < en; ++i) { mr.v[i - st] = m[u].v[i]; mr.unspec[i - st] = m[u].unspec[i]; }
             s[t] = r; m[t] = mr; break; }
  case 15: { String c(s[t]); checkOne(c, m[t]); c.append('x'); MStr mc = m[t]; byte x = 'x'; MStr xs; xs.set(&x, 1); mc.append(xs); checkOne(c, mc); break; }   // copy, then modify the copy
  case 16: { // replace(needle, replacement), needle non-empty; subject must be a NUL-terminated C string (owned) for the C-string search
             MStr nd, rp; symStr(nd, 2); symStr(rp, 2);
             bool anyUnspec = false; for(unsigned i = 0; i < m[t].n; ++i) anyUnspec |= m[t].unspec[i]; if(anyUnspec) break;
             String needle((const char*)nd.v, nd.n), repl((const char*)rp.v, rp.n);
             s[t].replace(needle, repl);
             if(nd.n == 0) break;      // an empty needle: the call terminates and leaves the string as it is (compared with the unchanged model below)
             MStr r; unsigned i = 0;
             while(i < m[t].n)
             {
               bool match = i + nd.n <= m[t].n;
               if(match) for(unsigned j = 0; j < nd.n; ++j) if(m[t].v[i + j] != nd.v[j]) { match = false; break; }
               if(match) { r.append(rp); i += nd.n; } else { MStr one; one.set(&m[t].v[i], 1); r.append(one); ++i; }
             }
             m[t] = r; break; }
  case 17: { const char* c = s[t]; bool anyUnspec = false; for(unsigned i = 0; i < m[t].n; ++i) anyUnspec |= m[t].unspec[i];
             vf_assert(c[m[t].n] == 0, "C-string view is NUL-terminated at length()");
             if(!anyUnspec) for(unsigned i = 0; i < m[t].n; ++i) vf_assert((byte)c[i] == m[t].v[i], "C-string view == model"); break; }
  case 18: { s[t] = String(g_lit); m[t].set((const byte*)g_lit, sizeof(g_lit) - 1); break; }        // literal-attached (no copy until written)
  case 19: { MStr a; symStr(a, VF_L); s[t] = String((const char*)a.v, a.n); m[t] = a; break; }      // owned from buffer
  case 20: { unsigned n = vf_pick(3); byte c = nz(); s[t] = String((usize)n, (char)c); byte d[2] = {c, c}; m[t].set(d, n); break; }
  }
  return true;
}

extern "C" int history()
{
  setup();
  {
    String s[NV]; MStr m[NV];
    // start states: s0 empty, s1 literal-attached, s2 owned and (optionally) shared with s0
    s[1] = String(g_lit); m[1].set((const byte*)g_lit, sizeof(g_lit) - 1);
    symStr(m[2], VF_L); s[2] = String((const char*)m[2].v, m[2].n);
    if(vf_pick(2)) { s[0] = s[2]; m[0] = m[2]; }
    checkAll(s, m);
    for(unsigned k = 0; k < VF_K; ++k)
    {
      if(!oneOp(s, m, false)) break;
      checkAll(s, m);
    }
  }
  vf_free(g_ext);
  vf_reach("end");
  return 0;
}

// longer histories over the operations that create, share and break sharing of buffers (independence of copies)
#ifndef VF_KS
#define VF_KS 3
#endif
extern "C" int sharing()
{
  setup();
  {
    String s[NV]; MStr m[NV];
    byte d[2] = {nz(), nz()};
    m[2].set(d, 2); s[2] = String((const char*)d, 2);
    checkAll(s, m);
    for(unsigned k = 0; k < VF_KS; ++k)
    {
      if(!oneOp(s, m, true)) break;
      checkAll(s, m);
    }
  }
  vf_free(g_ext);
  vf_reach("end");
  return 0;
}

// ---- read-only API on two symbolic strings (NUL-free)
static int sign(int x) { return (x > 0) - (x < 0); }
extern "C" int queries()
{
  MStr ma, mb; symStr(ma, VF_L + 1); symStr(mb, VF_L);
  String a((const char*)ma.v, ma.n), b((const char*)mb.v, mb.n);
  // reference comparison
  unsigned i = 0; while(i < ma.n && i < mb.n && ma.v[i] == mb.v[i]) ++i;
  int ref = (i < ma.n ? ma.v[i] : 0) - (i < mb.n ? mb.v[i] : 0);
  unsigned q = vf_pick(6);
  switch(q)
  {
  case 0:
    vf_assert(sign(a.compare(b)) == sign(ref), "compare() sign == model");
    vf_assert((a == b) == (ref == 0), "operator== == model");
    vf_assert((a != b) == (ref != 0), "operator!= == model");
    vf_assert((a < b) == (ref < 0), "operator< == model");
    vf_assert((a > b) == (ref > 0), "operator> == model");
    vf_assert((a <= b) == (ref <= 0), "operator<= == model");
    vf_assert((a >= b) == (ref >= 0), "operator>= == model");
    break;
  case 1: {
    bool sw = ma.n >= mb.n; if(sw) for(unsigned j = 0; j < mb.n; ++j) sw = sw & (ma.v[j] == mb.v[j]);
    bool ew = ma.n >= mb.n; if(ew) for(unsigned j = 0; j < mb.n; ++j) ew = ew & (ma.v[ma.n - mb.n + j] == mb.v[j]);
    vf_assert(a.startsWith(b) == sw, "startsWith == model");
    vf_assert(a.endsWith(b) == ew, "endsWith == model");
    break; }
  case 2: {
    byte c = nz(); int first = -1, last = -1;
    for(unsigned j = 0; j < ma.n; ++j) if(ma.v[j] == c) { if(first < 0) first = j; last = j; }
    const char* base = a.data->str;
    const char* f = a.find((char)c); const char* l = a.findLast((char)c);
    vf_assert(first < 0 ? f == 0 : f == base + first, "find(char) == model");
    vf_assert(last < 0 ? l == 0 : l == base + last, "findLast(char) == model");
    unsigned st = vf_pick(ma.n + 2); int from = -1;
    for(unsigned j = st; j < ma.n; ++j) if(ma.v[j] == c) { from = j; break; }
    const char* f2 = a.find((char)c, st);
    const char* base2 = a.data->str;
    vf_assert(from < 0 ? f2 == 0 : f2 == base2 + from, "find(char, start) == model");
    break; }
  case 3: {
    if(mb.n == 0)
    { // the empty needle occurs at every position: first at the start, last at the end (and nothing outside the string is read)
      const char* f = a.find((const char*)b); const char* l = a.findLast((const char*)b); const char* base = a.data->str;
      vf_assert(f == base, "find(\"\") == start");
      vf_assert(l == base + ma.n, "findLast(\"\") == end");
      break;
    }
    int first = -1, last = -1;
    for(unsigned j = 0; j + mb.n <= ma.n; ++j) { bool mt = true; for(unsigned l = 0; l < mb.n; ++l) mt = mt & (ma.v[j + l] == mb.v[l]); if(mt) { if(first < 0) first = j; last = j; } }
    const char* f = a.find((const char*)b); const char* l = a.findLast((const char*)b);
    const char* base = a.data->str;
    vf_assert(first < 0 ? f == 0 : f == base + first, "find(str) == model");
    vf_assert(last < 0 ? l == 0 : l == base + last, "findLast(str) == model");
    break; }
  case 4: {
    int first = -1, last = -1;
    for(unsigned j = 0; j < ma.n; ++j) { bool in = false; for(unsigned l = 0; l < mb.n; ++l) in = in | (ma.v[j] == mb.v[l]); if(in) { if(first < 0) first = j; last = j; } }
    const char* f = a.findOneOf((const char*)b); const char* l = a.findLastOf((const char*)b);
    const char* base = a.data->str;
    vf_assert(first < 0 ? f == 0 : f == base + first, "findOneOf == model");
    vf_assert(last < 0 ? l == 0 : l == base + last, "findLastOf == model");
    break; }
  case 5: {
    unsigned j = 0; while(j < ma.n && j < mb.n && lower(ma.v[j]) == lower(mb.v[j])) ++j;
    int r2 = (j < ma.n ? lower(ma.v[j]) : 0) - (j < mb.n ? lower(mb.v[j]) : 0);
    vf_assert(sign(a.compareIgnoreCase(b)) == sign(r2), "compareIgnoreCase sign == model");
    vf_assert(a.equalsIgnoreCase(b) == (ma.n == mb.n && r2 == 0), "equalsIgnoreCase == model");
    unsigned len = vf_pick(VF_L + 2);
    unsigned k2 = 0; int r3 = 0;
    for(; k2 < len; ++k2) { byte x = k2 < ma.n ? ma.v[k2] : 0, y = k2 < mb.n ? mb.v[k2] : 0; if(x == 0 || x != y) { r3 = (int)x - (int)y; break; } }
    vf_assert(sign(a.compare(b, len)) == sign(r3), "compare(other, len) sign == model");
    break; }
  }
  vf_reach("end");
  return 0;
}

// ---- token / split / join on a NUL-free string over {sep, other}
extern "C" int tokens()
{
  MStr ma; symStr(ma, VF_L + 2);
  String a((const char*)ma.v, ma.n);
  {
    List<String> parts;
    bool skipEmpty = vf_pick(2);
    usize n = a.split(parts, ",", skipEmpty);
    // reference split
    MStr ref[8]; unsigned rn = 0; unsigned startI = 0;
    for(unsigned i = 0; i <= ma.n; ++i)
      if(i == ma.n || ma.v[i] == ',')
      {
        if(i > startI || !skipEmpty) { vf_assert(rn < 8, "ref capacity"); ref[rn].set(ma.v + startI, i - startI); ++rn; }
        startI = i + 1;
      }
    vf_assert(n == rn, "split: number of tokens == model");
    vf_assert(parts.size() == rn, "split: list size == model");
    unsigned k = 0;
    for(List<String>::Iterator it = parts.begin(); it != parts.end(); ++it, ++k) checkOne(*it, ref[k]);
    if(!skipEmpty)
    {
      String j; j.join(parts, ',');
      checkOne(j, ma);       // join is the inverse of split without skipping
    }
    // token(): successive tokens equal the non-skipping split
    if(!skipEmpty && ma.n)
    {
      usize pos = 0; unsigned t = 0;
      while(pos < a.length() && t < rn) { String tk = a.token(',', pos); checkOne(tk, ref[t]); ++t; }
    }
  }
  vf_reach("end");
  return 0;
}

// ---- printf formatting (libc formatting itself is a reference model, see C18): buffer handling of String::printf
extern "C" int format()
{
  MStr ma; symStr(ma, VF_L);
  char arg[8]; for(unsigned i = 0; i < ma.n; ++i) arg[i] = (char)ma.v[i]; arg[ma.n] = 0;
  int num = (int)vf_u32();
  unsigned which = vf_pick(4);
  if(which == 3)
  {
    // output lengths around the capacity of the first formatting attempt (200 | 3 = 203) and of a reserved buffer
    unsigned L = 199 + vf_pick(7); bool reserved = vf_pick(2);
    char big[320]; unsigned LL = reserved ? L + 48 : L; for(unsigned i = 0; i < LL; ++i) big[i] = 'A' + (char)(i % 23); big[LL] = 0;
    String s; if(reserved) s.reserve(250);
    int r = s.printf("%s", big);
    vf_assert(r == (int)LL && s.length() == LL, "printf (capacity boundary): length");
    const char* p = s;
    vf_assert(p[LL] == 0, "printf (capacity boundary): terminated at length()");
    vf_assert(p[LL - 1] == big[LL - 1] && p[0] == 'A', "printf (capacity boundary): last formatted character present");
  }
  else if(which == 0)
  {
    String s("old");
    int r = s.printf("%s-%d", arg, num);
    // reference: text, '-', decimal number (the digits are checked by parsing them back: two independent formattings
    // of one symbolic number would make the solver prove uniqueness of decimal representations)
    vf_assert(r == (int)s.length(), "printf returns the formatted length");
    vf_assert(s.length() > ma.n + 1, "printf: text, dash and at least one digit");
    const char* p = s;
    for(unsigned i = 0; i < ma.n; ++i) vf_assert((byte)p[i] == ma.v[i], "printf: %s part");
    vf_assert(p[ma.n] == '-', "printf: literal part");
    vf_assert(String::toInt(p + ma.n + 1) == num, "printf: %d part parses back to the number");
    vf_assert(p[s.length()] == 0, "printf: terminated at length()");
  }
  else if(which == 1)
  {
    // longer than the first 200-byte attempt: the retry path must size the buffer from the real length
    char big[260]; for(unsigned i = 0; i < 259; ++i) big[i] = 'a' + (char)(i % 26); big[259] = 0;
    String s;
    int r = s.printf("%s%s", big, arg);
    vf_assert(r == (int)(259 + ma.n), "printf (retry path) returns the formatted length");
    vf_assert(s.length() == 259 + ma.n, "printf (retry path): length()");
    const char* p = s;
    vf_assert(p[0] == 'a' && p[258] == big[258] && p[259 + ma.n] == 0, "printf (retry path): contents and terminator");
    for(unsigned i = 0; i < ma.n; ++i) vf_assert((byte)p[259 + i] == ma.v[i], "printf (retry path): tail bytes");
  }
  else
  {
    String t = String::fromPrintf("%u|%c", (unsigned)num, (int)'z');
    const char* p = t; usize n = t.length();
    vf_assert(n >= 3 && p[n - 2] == '|' && p[n - 1] == 'z' && p[n] == 0, "fromPrintf layout");
    vf_assert(String::toUInt(p) == (uint)num, "fromPrintf: %u part parses back to the number");
  }
  vf_reach("end");
  return 0;
}

// ---- remaining query/convenience API on symbolic NUL-free strings
extern "C" int misc()
{
  MStr ma, mb; symStr(ma, VF_L + 1); symStr(mb, VF_L);
  String a((const char*)ma.v, ma.n), b((const char*)mb.v, mb.n);
  unsigned q = vf_pick(9);
  switch(q)
  {
  case 6: { // the String's own C-string view as a printf argument (the only way to name the String itself there)
    unsigned owned = vf_pick(3);
    String s = owned == 2 ? String(300) : String();                 // 2: unshared with capacity >= 200: printf formats in place
    if(owned == 0) s = a; else s.append(a);                         // 0: shares a's buffer
    s.printf("%s-%s", (const char*)s, "x");
    MStr want = ma; byte tail[2] = {'-', 'x'}; MStr mt; mt.set(tail, 2); want.append(mt);
    checkOne(s, want); checkOne(a, ma);
    break; }
  case 7: { // append(ptr, len) / prepend(ptr, len) with a range of the String's own bytes
    if(ma.n == 0) break;
    unsigned from = vf_pick(ma.n), len = vf_pick(ma.n - from + 1);
    unsigned owned = vf_pick(2);
    String s; if(owned == 0) s = a; else s.append(a);
    MStr part; part.set(ma.v + from, len);
    if(vf_pick(2)) { s.append((const char*)s + from, len); MStr want = ma; want.append(part); checkOne(s, want); }
    else { s.prepend((const char*)s + from, len); MStr want = part; want.append(ma); checkOne(s, want); }
    checkOne(a, ma);
    break; }
  case 8: { // a String attached to a range of the target's own bytes (a non-owning view) as the argument
    if(ma.n == 0) break;
    unsigned from = vf_pick(ma.n), len = vf_pick(ma.n - from + 1);
    String s; s.append(a);                                           // owned, unshared
    String view; view.attach((const char*)s + from, len);
    MStr part; part.set(ma.v + from, len);
    unsigned what = vf_pick(3);
    if(what == 0) { s = view; checkOne(s, part); }
    else if(what == 1) { s.append(view); MStr want = ma; want.append(part); checkOne(s, want); }
    else { s.prepend(view); MStr want = part; want.append(ma); checkOne(s, want); }
    checkOne(a, ma);
    break; }
  case 0: { // concatenation operators build new values and leave the operands alone
    String c = a + b; MStr mc = concat(ma, mb); checkOne(c, mc); checkOne(a, ma); checkOne(b, mb);
    String d2 = a; d2 += b; checkOne(d2, mc); checkOne(a, ma);
    d2 += 'z'; byte z = 'z'; MStr mz; mz.set(&z, 1); mc.append(mz); checkOne(d2, mc);
    break; }
  case 1: { // static comparisons agree with the member ones
    const char* pa = a; const char* pb = b;
    vf_assert(sign(String::compare(pa, pb)) == sign(a.compare(b)), "static compare == member compare");
    vf_assert(sign(String::compareIgnoreCase(pa, pb)) == sign(a.compareIgnoreCase(b)), "static compareIgnoreCase == member");
    unsigned len = vf_pick(VF_L + 2);
    vf_assert(sign(String::compare(pa, pb, len)) == sign(a.compare(b, len)), "static compare(len) == member");
    vf_assert(sign(String::compareIgnoreCase(pa, pb, len)) == sign(a.compareIgnoreCase(b, len)), "static compareIgnoreCase(len) == member");
    vf_assert(a.equalsIgnoreCase(b, len) == (a.compareIgnoreCase(b, len) == 0), "equalsIgnoreCase(len)");
    vf_assert(String::length(pa) == ma.n, "static length");
    bool sw = true; for(unsigned j = 0; j < mb.n; ++j) sw = sw & (j < ma.n) & (ma.v[j < ma.n ? j : 0] == mb.v[j]);
    vf_assert(String::startsWith(pa, b) == sw, "static startsWith == model");
    break; }
  case 2: { // searches with a start offset
    unsigned st = vf_pick(ma.n + 2);
    if(mb.n)
    {
      int first = -1; for(unsigned j = st; j + mb.n <= ma.n; ++j) { bool mt = true; for(unsigned l = 0; l < mb.n; ++l) mt = mt & (ma.v[j + l] == mb.v[l]); if(mt) { first = j; break; } }
      const char* f = a.find((const char*)b, (usize)st); const char* base = a.data->str;
      vf_assert(first < 0 ? f == 0 : f == base + first, "find(str, start) == model");
    }
    else
    { // the empty needle occurs at every position up to and including the end
      const char* f = a.find((const char*)b, (usize)st); const char* base = a.data->str;
      vf_assert(st <= ma.n ? f == base + st : f == 0, "find(\"\", start) == start position while start <= length()");
    }
    int firstOf = -1; for(unsigned j = st; j < ma.n; ++j) { bool in = false; for(unsigned l = 0; l < mb.n; ++l) in = in | (ma.v[j] == mb.v[l]); if(in) { firstOf = j; break; } }
    const char* g = a.findOneOf((const char*)b, (usize)st); const char* base2 = a.data->str;
    vf_assert(firstOf < 0 ? g == 0 : g == base2 + firstOf, "findOneOf(chars, start) == model");
    break; }
  case 3: { // token(separators, start): successive tokens over two separator characters
    usize pos = 0; unsigned startI = 0; unsigned guard = 0;
    while(pos < a.length() && guard++ < 8)
    {
      String tk = a.token(",;", pos);
      unsigned e = startI; while(e < ma.n && ma.v[e] != ',' && ma.v[e] != ';') ++e;
      MStr want; want.set(ma.v + startI, e - startI); checkOne(tk, want);
      startI = e + 1;
      vf_assert(pos == (e < ma.n ? e + 1 : ma.n), "token advances the position behind the separator");
    }
    break; }
  case 4: { // split into a set: unique tokens in first-occurrence order (concrete text: a symbolic token would make the real string hash pick one of 500 buckets per byte value)
    String t("a,b,a,,c,b"); HashSet<String> parts; usize n = t.split(parts, ",");
    vf_assert(n == 3 && parts.size() == 3, "split(HashSet) keeps each distinct token once");
    HashSet<String>::Iterator it = parts.begin();
    vf_assert(*it == "a", "first-occurrence order (1)"); ++it; vf_assert(*it == "b", "first-occurrence order (2)"); ++it; vf_assert(*it == "c", "first-occurrence order (3)");
    break; }
  case 5: { // toBool on the text forms it documents
    static const char* texts[] = {"", "0", "false", "FALSE", "0.0", "0.", ".0", "00.000", "1", "true", "0.1", "x", "00", "000", "010", "."};
    static const bool want[] = {false, false, false, false, false, false, false, false, true, true, true, true, false, false, true, true};   // every decimal spelling of zero is false
    unsigned k = vf_pick(sizeof(texts) / sizeof(*texts));
    String t = String::fromCString(texts[k]);
    vf_assert(t.toBool() == want[k], "toBool on a documented text form");
    vf_assert(String::isSpace(' ') && String::isSpace('\t') && !String::isSpace('a') && String::isDigit('7') && !String::isDigit('x') && String::isAlpha('q') && String::isHexDigit('F') && String::toLowerCase('Q') == 'q' && String::toUpperCase('q') == 'Q', "character classification helpers");
    break; }
  }
  vf_reach("end");
  return 0;
}

// byte strings with embedded NUL bytes (construction from a buffer is length-delimited): the operations that are not
// C-string searches - case mapping, replace(char, char), comparison, trim - still work on all length() bytes
static void anyStr(MStr& m, unsigned maxLen)
{
  m.n = vf_pick(maxLen + 1);
  for(unsigned i = 0; i < m.n; ++i) { m.v[i] = vf_u8(); m.unspec[i] = false; }
}
extern "C" int embedded_nul()
{
  MStr ma, mb; anyStr(ma, VF_L + 1); anyStr(mb, VF_L);
  {
    String a((const char*)ma.v, ma.n), b((const char*)mb.v, mb.n);
    unsigned q = vf_pick(5);
    if(q == 0) { a.toUpperCase(); MStr w = ma; for(unsigned i = 0; i < w.n; ++i) w.v[i] = upper(w.v[i]); checkOne(a, w); }
    else if(q == 1) { a.toLowerCase(); MStr w = ma; for(unsigned i = 0; i < w.n; ++i) w.v[i] = lower(w.v[i]); checkOne(a, w); }
    else if(q == 2) { byte x = vf_u8(), y = vf_u8(); vf_assume(y != 0); a.replace((char)x, (char)y); MStr w = ma; for(unsigned i = 0; i < w.n; ++i) if(w.v[i] == x) w.v[i] = y; checkOne(a, w); }
    else if(q == 3)
    {
      unsigned j = 0; while(j < ma.n && j < mb.n && ma.v[j] == mb.v[j]) ++j;
      int want = j < ma.n && j < mb.n ? (ma.v[j] < mb.v[j] ? -1 : 1) : (ma.n < mb.n ? -1 : ma.n > mb.n ? 1 : 0);
      vf_assert(sign(a.compare(b)) == want, "compare == lexicographic order of the byte strings");
      vf_assert((a < b) == (want < 0) && (a > b) == (want > 0), "operator< / operator> agree");
      vf_assert((a == b) == (want == 0), "operator== agrees with compare");
      // the case-insensitive and the length-limited forms: the same order on (lower-cased) prefixes
      unsigned len = vf_pick(VF_L + 3);
      unsigned la = ma.n < len ? ma.n : len, lb = mb.n < len ? mb.n : len;
      unsigned k = 0; while(k < la && k < lb && ma.v[k] == mb.v[k]) ++k;
      int wantN = k < la && k < lb ? (ma.v[k] < mb.v[k] ? -1 : 1) : (la < lb ? -1 : la > lb ? 1 : 0);
      vf_assert(sign(a.compare(b, len)) == wantN, "compare(other, len) == order of the first len bytes");
      k = 0; while(k < ma.n && k < mb.n && lower(ma.v[k]) == lower(mb.v[k])) ++k;
      int wantI = k < ma.n && k < mb.n ? (lower(ma.v[k]) < lower(mb.v[k]) ? -1 : 1) : (ma.n < mb.n ? -1 : ma.n > mb.n ? 1 : 0);
      vf_assert(sign(a.compareIgnoreCase(b)) == wantI, "compareIgnoreCase == order of the lower-cased byte strings");
      vf_assert(a.equalsIgnoreCase(b) == (wantI == 0), "equalsIgnoreCase agrees");
      k = 0; while(k < la && k < lb && lower(ma.v[k]) == lower(mb.v[k])) ++k;
      int wantIN = k < la && k < lb ? (lower(ma.v[k]) < lower(mb.v[k]) ? -1 : 1) : (la < lb ? -1 : la > lb ? 1 : 0);
      vf_assert(sign(a.compareIgnoreCase(b, len)) == wantIN, "compareIgnoreCase(other, len) == order of the first len lower-cased bytes");
      vf_assert(a.equalsIgnoreCase(b, len) == (wantIN == 0), "equalsIgnoreCase(other, len) agrees");
    }
    else
    {
      a.trim(" ");
      unsigned st = 0, en = ma.n; while(st < en && ma.v[st] == ' ') ++st; while(en > st && ma.v[en - 1] == ' ') --en;
      MStr w; w.set(ma.v + st, en - st); checkOne(a, w);
    }
  }
  vf_reach("end");
  return 0;
}
