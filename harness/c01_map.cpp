// C01 (also serves C04/C05 pieces): Map / MultiMap against a sorted-array model.
//   -DMULTI=1 selects MultiMap.  Bounds: VF_K (history length), VF_H (max pre-state height), VF_N (max pre-state nodes)
#define private public
#define protected public
#include <nstd/Map.hpp>
#include <nstd/MultiMap.hpp>
#include "vf.h"
#include "freelist.h"

#ifndef VF_K
#define VF_K 3
#endif
#ifndef VF_H
#define VF_H 3
#endif
#ifndef VF_N
#define VF_N 7
#endif
#define CAP 24

static unsigned g_cmp;
struct Key
{
  int v;
  Key() : v(0) {}
  Key(int v) : v(v) {}
  bool operator<(const Key& o) const { ++g_cmp; return v < o.v; }
  bool operator>(const Key& o) const { ++g_cmp; return v > o.v; }
  bool operator<=(const Key& o) const { ++g_cmp; return v <= o.v; }
  bool operator>=(const Key& o) const { ++g_cmp; return v >= o.v; }
  bool operator==(const Key& o) const { ++g_cmp; return v == o.v; }
};

#if MULTI
typedef MultiMap<Key, int> M;
#else
typedef Map<Key, int> M;
#endif
typedef M::Item Item;

struct Model
{
  int k[CAP]; int v[CAP]; const void* addr[CAP]; unsigned n;
  Model() : n(0) {}
  void insertAt(unsigned pos, int key, int val, const void* a)
  {
    for(unsigned i = n; i > pos; --i) { k[i] = k[i - 1]; v[i] = v[i - 1]; addr[i] = addr[i - 1]; }
    k[pos] = key; v[pos] = val; addr[pos] = a; ++n;
  }
  void removeAt(unsigned pos)
  {
    for(unsigned i = pos; i + 1 < n; ++i) { k[i] = k[i + 1]; v[i] = v[i + 1]; addr[i] = addr[i + 1]; }
    --n;
  }
  unsigned lower(int key) const { unsigned i = 0; while(i < n && k[i] < key) ++i; return i; }   // first >= key
  unsigned upper(int key) const { unsigned i = 0; while(i < n && k[i] <= key) ++i; return i; }  // first > key
};

// ---- representation invariant: AVL shape, parent links, stored height/slope, in-order == threaded list
static unsigned g_walkIdx;
static Item* g_prev;
static usize checkTree(M& m, Item* item, Item* parent)
{
  if(!item) return 0;
  vf_assert(item->parent == parent, "inv: parent link");
  usize hl = checkTree(m, item->left, item);
  // in-order position: this node must be the next element of the threaded list
  vf_assert(item->prev == g_prev, "inv: in-order predecessor == prev");
  if(g_prev) vf_assert(g_prev->next == item, "inv: prev->next");
  else vf_assert(m._begin.item == item, "inv: begin is leftmost");
#if MULTI
  if(g_prev) vf_assert(g_prev->key.v <= item->key.v, "inv: keys ascending");
#else
  if(g_prev) vf_assert(g_prev->key.v < item->key.v, "inv: keys strictly ascending");
#endif
  g_prev = item; ++g_walkIdx;
  usize hr = checkTree(m, item->right, item);
  vf_assert(item->height == (hl > hr ? hl : hr) + 1, "inv: stored height");
  vf_assert(item->slope == (ssize)hl - (ssize)hr, "inv: stored slope");
  vf_assert(item->slope >= -1 && item->slope <= 1, "inv: AVL balance");
  return item->height;
}
static void checkInvariant(M& m)
{
  g_walkIdx = 0; g_prev = 0;
  checkTree(m, m.root, 0);
  vf_assert(g_walkIdx == m._size, "inv: size counter == nodes in tree");
  vf_assert(m._end.item == &m.endItem, "inv: end sentinel");
  vf_assert(m.endItem.prev == g_prev, "inv: end.prev is last");
  if(g_prev) vf_assert(g_prev->next == &m.endItem, "inv: last->next is end");
  else vf_assert(m._begin.item == &m.endItem, "inv: empty begin==end");
  vf_assert((m.root == 0) == (m._size == 0), "inv: root null iff empty");
  vf_checkFreeList(m);
}

static void checkAgainstModel(M& m, const Model& md, bool addresses)
{
  vf_assert(m.size() == md.n, "size() == model");
  vf_trace(m.size());
  vf_assert(m.isEmpty() == (md.n == 0), "isEmpty() == model");
  unsigned i = 0;
  for(M::Iterator it = m.begin(); it != m.end(); ++it, ++i)
  {
    vf_assert(i < md.n, "iteration longer than model");
    vf_assert(it.key().v == md.k[i], "iteration key == model");
    vf_trace((unsigned)it.key().v);
    vf_assert(*it == md.v[i], "iteration value == model");
    if(addresses) vf_assert((const void*)&*it == md.addr[i], "element address unchanged (C05)");
  }
  vf_assert(i == md.n, "iteration shorter than model");
  // backward
  i = md.n;
  for(M::Iterator it = m.end(); it != m.begin();)
  {
    --it; --i;
    vf_assert(it.key().v == md.k[i], "backward iteration key == model");
  }
  if(md.n)
  {
    vf_assert(m.front() == md.v[0], "front() == model");
    vf_assert(m.back() == md.v[md.n - 1], "back() == model");
  }
}

static const unsigned char costBound[] = {2,4,4,6,6,8,8,8,8,8,10,10,10,10,10,10,12,12,12,12,12,12,12,12,12,12}; // 2*floor(1.4405*log2(n+2)), index n

static void probe(M& m, const Model& md)
{
  int pk = (int)vf_u32();
  g_cmp = 0;
  M::Iterator f = m.find(Key(pk));
  unsigned cost = g_cmp;
  unsigned lo = md.lower(pk), hi = md.upper(pk);
  vf_assert(cost <= costBound[md.n], "find: comparisons <= 2*floor(1.4405*log2(n+2))");
  if(lo == hi)
  {
    vf_assert(f == m.end(), "find(absent) == end");
    vf_assert(!m.contains(Key(pk)), "contains(absent) false");
#if MULTI
    vf_assert(m.count(Key(pk)) == 0, "count(absent) == 0");
#endif
  }
  else
  {
    vf_assert(f != m.end(), "find(present) != end");
    vf_assert(f.key().v == pk, "find(present) has the key");
    vf_assert(m.contains(Key(pk)), "contains(present)");
#if MULTI
    vf_assert(m.count(Key(pk)) == hi - lo, "count(key) == number of equal keys");
#else
    vf_assert(*f == md.v[lo], "find(present) value == model");
#endif
  }
}

static unsigned indexOf(M& m, const M::Iterator& it)
{
  unsigned i = 0;
  for(M::Iterator j = m.begin(); j != m.end(); ++j, ++i)
    if(j == it) return i;
  vf_assert(it == m.end(), "returned iterator is neither an element nor end");
  return i;
}
static M::Iterator iterAt(M& m, unsigned pos)
{
  M::Iterator j = m.begin();
  for(unsigned i = 0; i < pos; ++i) ++j;
  return j;
}

// apply one insert (plain or hinted) to both; returns nothing, asserts everything
static void opInsert(M& m, Model& md, bool hinted)
{
  int key = (int)vf_u32(); int val = (int)vf_u32();
  M::Iterator r;
  if(hinted)
  {
    unsigned hp = vf_pick(md.n + 1);
    r = m.insert(iterAt(m, hp), Key(key), val);
  }
  else
    r = m.insert(Key(key), val);
  vf_assert(r != m.end(), "insert returned end");
  vf_assert(r.key().v == key, "insert: returned iterator has the key");
  vf_assert(*r == val, "insert: returned iterator has the value");
#if MULTI
  unsigned idx = indexOf(m, r);
  if(!hinted) vf_assert(idx == md.upper(key), "plain insert goes after all equal keys (insertion order)");
  vf_assert(idx <= md.n, "insert position in range");
  if(idx > 0) vf_assert(md.k[idx - 1] <= key, "insert position keeps order (left)");
  if(idx < md.n) vf_assert(key <= md.k[idx], "insert position keeps order (right)");
  md.insertAt(idx, key, val, &*r);
#else
  unsigned lo = md.lower(key);
  if(lo < md.n && md.k[lo] == key)
  {
    md.v[lo] = val;
    vf_assert((const void*)&*r == md.addr[lo], "insert(existing) returns the existing entry");
  }
  else
    md.insertAt(lo, key, val, &*r);
  vf_assert(indexOf(m, r) == lo, "insert: returned iterator at model position");
#endif
}

static void opRemoveIt(M& m, Model& md, unsigned pos)
{
  M::Iterator r = m.remove(iterAt(m, pos));
  md.removeAt(pos);
  vf_assert(indexOf(m, r) == pos, "remove(iterator) returns the successor");
}

static void opRemoveKey(M& m, Model& md)
{
  int key = (int)vf_u32();
  m.remove(Key(key));
  unsigned lo = md.lower(key), hi = md.upper(key);
#if MULTI
  // removes one (unspecified) of the equal keys
  if(lo != hi)
  {
    vf_assert(m.size() == md.n - 1, "remove(key) removes exactly one entry");
    // find which one went away
    unsigned i = lo; M::Iterator it = iterAt(m, lo);
    while(i < hi && it != m.end() && (const void*)&*it == md.addr[i]) { ++i; ++it; }
    vf_assert(i < hi, "remove(key): removed entry is one of the equal keys");
    md.removeAt(i);
  }
#else
  if(lo != hi) md.removeAt(lo);
#endif
}

// ---------------------------------------------------------------------------------------------- history harness
extern "C" int history()
{
  M m; Model md;
  for(unsigned step = 0; step < VF_K; ++step)
  {
    unsigned op = vf_pick(md.n ? 7 : 3);
    if(op == 2) break;   // stop early: every shorter history is covered too
    switch(op)
    {
    case 0: opInsert(m, md, false); break;
    case 1: opInsert(m, md, true); break;
    case 3: opRemoveIt(m, md, vf_pick(md.n)); break;
    case 4: opRemoveKey(m, md); break;
    case 5:
      if(vf_pick(2)) { M::Iterator r = m.removeFront(); md.removeAt(0); vf_assert(r == m.begin(), "removeFront returns new begin"); }
      else { M::Iterator r = m.removeBack(); md.removeAt(md.n - 1); vf_assert(r == m.end(), "removeBack returns end"); }
      break;
    case 6: m.clear(); md.n = 0; break;
    }
    checkInvariant(m);
    checkAgainstModel(m, md, true);
  }
  probe(m, md);
  vf_reach("end");
  return 0;
}

#if !MULTI
// copy construction, assignment, bulk insert (Map only: MultiMap has none of them)
extern "C" int history_copy()
{
  M a; Model ma;
  unsigned na = vf_pick(4);
  for(unsigned i = 0; i < na; ++i) opInsert(a, ma, false);
  unsigned op = vf_pick(3);
  if(op == 0)
  {
    M b(a);
    checkInvariant(b); checkAgainstModel(b, ma, false);
    // independence: mutate the copy, source unchanged
    Model mb = ma; for(unsigned i = 0; i < mb.n; ++i) mb.addr[i] = &*iterAt(b, i);
    opInsert(b, mb, false);
    checkAgainstModel(a, ma, true); checkAgainstModel(b, mb, true);
    vf_reach("copy");
  }
  else if(op == 1)
  {
    M b; Model mb;
    unsigned nb = vf_pick(3);
    for(unsigned i = 0; i < nb; ++i) opInsert(b, mb, false);
    b = a;
    checkInvariant(b); checkAgainstModel(b, ma, false);
    checkAgainstModel(a, ma, true);
    vf_reach("assign");
  }
  else
  {
    M b; Model mb;
    unsigned nb = vf_pick(3);
    for(unsigned i = 0; i < nb; ++i) opInsert(b, mb, false);
    b.insert(a);
    // model: every entry of a inserted/overwritten into b
    for(unsigned i = 0; i < ma.n; ++i)
    {
      unsigned lo = mb.lower(ma.k[i]);
      if(lo < mb.n && mb.k[lo] == ma.k[i]) mb.v[lo] = ma.v[i];
      else mb.insertAt(lo, ma.k[i], ma.v[i], 0);
    }
    checkInvariant(b); checkAgainstModel(b, mb, false);
    checkAgainstModel(a, ma, true);
    vf_reach("bulk");
  }
  vf_reach("end");
  return 0;
}
#endif

// ---------------------------------------------------------------------------------------------- step harness
// Pre-state: any AVL shape of height <= VF_H with <= VF_N nodes, built directly in the map's own block storage,
// keys symbolic ascending. One inductive step covers histories of any length whose states stay within the bound.
static Item* g_free; static unsigned g_nodes;
static int g_keys[CAP]; static unsigned g_keyIdx;

static Item* takeNode(M& m)
{
  if(!g_free)
  {
    M::ItemBlock* blk = (M::ItemBlock*)new char[sizeof(M::ItemBlock) + sizeof(Item) * 4];
    blk->next = m.blocks; m.blocks = blk;
    Item* it = 0;
    for(Item* i = (Item*)(blk + 1), * end = i + 4; i < end; ++i) { i->prev = it; it = i; }
    g_free = it;
  }
  Item* n = g_free; g_free = n->prev;
  return n;
}

static Item* build(M& m, unsigned height, Item* parent, Model& md)
{
  if(height == 0) return 0;
  unsigned hl = height - 1, hr = height - 1;
  if(height >= 2)
  {
    unsigned c = vf_pick(3);
    if(c == 1) hr = height - 2; else if(c == 2) hl = height - 2;
  }
  Item* n = takeNode(m);
  ++g_nodes;
  vf_assume(g_nodes <= VF_N);
  Item* l = build(m, hl, n, md);
  int key = (int)vf_u32(); int val = (int)vf_u32();
#if MULTI
  if(md.n) vf_assume(md.k[md.n - 1] <= key);
#else
  if(md.n) vf_assume(md.k[md.n - 1] < key);
#endif
  new(n) Item(parent, Key(key), val);
  n->left = l; n->height = height; n->slope = (ssize)hl - (ssize)hr;
  // thread the list
  Item* prev = md.n ? (Item*)md.addr[md.n - 1] : 0;
  n->prev = prev;
  if(prev) prev->next = n; else m._begin.item = n;
  md.insertAt(md.n, key, val, n);   // addr[] temporarily holds the Item*; converted to &value in makePreState
  n->right = build(m, hr, n, md);
  return n;
}

static void makePreState(M& m, Model& md)
{
  g_free = 0; g_nodes = 0;
  unsigned h = vf_pick(VF_H + 1);
  m.root = build(m, h, 0, md);
  if(md.n)
  {
    Item* last = (Item*)md.addr[md.n - 1];
    last->next = &m.endItem; m.endItem.prev = last;
  }
  m._size = md.n;
  m.freeItem = g_free;
  for(unsigned i = 0; i < md.n; ++i) md.addr[i] = &((Item*)md.addr[i])->value;
}

extern "C" int step()
{
  M m; Model md;
  makePreState(m, md);
  checkInvariant(m);          // the constructed pre-state satisfies the invariant (sanity of the builder)
  checkAgainstModel(m, md, true);
  unsigned op = vf_pick(md.n ? 6 : 2);
  switch(op)
  {
  case 0: opInsert(m, md, false); break;
  case 1: opInsert(m, md, true); break;
  case 2: opRemoveIt(m, md, vf_pick(md.n)); break;
  case 3: opRemoveKey(m, md); break;
  case 4: probe(m, md); break;
  case 5: m.clear(); md.n = 0; break;      // every slot goes back to the free list
  }
  checkInvariant(m);
  checkAgainstModel(m, md, true);
  vf_reach("end");
  return 0;
}
