// C04: the argument of a copy assignment / append / resize is owned by one of the container's own elements
// (element types that own resources: a tree node with a child container). "Behaves as if the argument had been copied
// first", nothing is touched after its destruction, every element is destroyed exactly once.
#define private public
#define protected public
#include <nstd/Base.hpp>
#include <nstd/Debug.hpp>
#include "vf.h"
#include "tracked.h"
#include <nstd/List.hpp>
#include <nstd/Array.hpp>
#include <nstd/HashMap.hpp>
#include <nstd/HashSet.hpp>
#include <nstd/Map.hpp>
#include <nstd/MultiMap.hpp>

// the child container is held through an owning pointer with deep copies (node containers cannot hold their own type by value)
template <class C> struct Own
{
  C* p;      // allocated on first use (the containers' end sentinel holds a default-constructed element)
  Own() : p(0) {}
  Own(const Own& o) : p(o.p ? new C(*o.p) : 0) {}
  ~Own() { delete p; }
  Own& operator=(const Own& o) { if(&o != this) { C* n = o.p ? new C(*o.p) : 0; delete p; p = n; } return *this; }
  C& operator*() { if(!p) p = new C; return *p; }
  C* operator->() { if(!p) p = new C; return p; }
};
struct LNode { Tracked v; Own<List<LNode> > kids; LNode(int x = 0) : v(x) {} };
struct ANode { Tracked v; Array<ANode> kids; ANode(int x = 0) : v(x) {} };
struct HNode { Tracked v; Own<HashMap<int, HNode> > kids; HNode(int x = 0) : v(x) {} };
struct SNode { Tracked v; HashSet<int> kids; SNode(int x = 0) : v(x) {} };
struct MNode { Tracked v; Own<Map<int, MNode> > kids; MNode(int x = 0) : v(x) {} };
struct UNode { Tracked v; Own<MultiMap<int, UNode> > kids; UNode(int x = 0) : v(x) {} };

extern "C" int nested_assign()
{
  {
    unsigned c = vf_pick(6);
    if(c == 0)
    {
      List<LNode> l; LNode n(1); n.kids->append(LNode(10)); n.kids->append(LNode(11)); l.append(n); l.append(LNode(2));
      l = *l.front().kids;                                       // move a sub-list up one level
      vf_assert(l.size() == 2 && l.front().v.get() == 10 && l.back().v.get() == 11, "List: l = l.front().kids");
    }
    else if(c == 1)
    {
      Array<ANode> a; ANode n(1); n.kids.append(ANode(10)); n.kids.append(ANode(11)); a.append(n); a.append(ANode(2));
      a = a[0].kids;
      vf_assert(a.size() == 2 && a[0].v.get() == 10 && a[1].v.get() == 11, "Array: a = a[0].kids");
    }
    else if(c == 2)
    {
      HashMap<int, HNode> m; HNode n(1); n.kids->append(10, HNode(100)); n.kids->append(11, HNode(110)); m.append(1, n); m.append(2, HNode(2));
      m = *m.find(1)->kids;
      vf_assert(m.size() == 2 && m.find(10) != m.end() && m.find(10)->v.get() == 100 && m.find(11) != m.end() && m.find(11)->v.get() == 110, "HashMap: m = m.find(k)->kids");
    }
    else if(c == 3)
    {
      HashMap<int, SNode> m; SNode n(1); n.kids.append(10); n.kids.append(11); m.append(1, n);
      HashSet<int>& s = m.find(1)->kids;
      HashSet<int> t; t.append(5);
      // a set assigned from a set owned by an element of another container is the plain case; the nested one:
      HashMap<int, SNode>& mm = m; (void)mm; s = s; t = m.find(1)->kids;
      vf_assert(t.size() == 2 && t.contains(10) && t.contains(11) && s.size() == 2, "HashSet: self assignment and assignment from an element's set");
    }
    else if(c == 4)
    {
      Map<int, MNode> m; MNode n(1); n.kids->insert(10, MNode(100)); n.kids->insert(11, MNode(110)); m.insert(1, n); m.insert(2, MNode(2));
      m = *m.find(1)->kids;
      vf_assert(m.size() == 2 && m.find(10) != m.end() && m.find(10)->v.get() == 100 && m.find(11) != m.end() && m.find(11)->v.get() == 110, "Map: m = m.find(k)->kids");
    }
    else
    {
      MultiMap<int, UNode> m; UNode n(1); n.kids->insert(10, UNode(100)); n.kids->insert(10, UNode(101)); m.insert(1, n); m.insert(2, UNode(2));
      m = *m.find(1)->kids;
      vf_assert(m.size() == 2 && m.begin()->v.get() == 100 && m.back().v.get() == 101, "MultiMap: m = m.find(k)->kids");
    }
  }
  ledgerExpectEmpty();
  vf_reach("end");
  return 0;
}

// Array growth with an argument owned by one of the elements: append(value), append(array), resize(n, value)
extern "C" int nested_append()
{
  {
    unsigned c = vf_pick(3);
    unsigned fill = vf_pick(4);                                 // so that the operation meets every capacity situation
    Array<ANode> a; ANode n(1); n.kids.append(ANode(10)); n.kids.append(ANode(11)); a.append(n);
    for(unsigned i = 0; i < fill; ++i) a.append(ANode(20 + i));
    usize before = a.size();
    if(c == 0)
    {
      a.append(a[0].kids[1]);
      vf_assert(a.size() == before + 1 && a.back().v.get() == 11, "Array: a.append(a[0].kids[1])");
    }
    else if(c == 1)
    {
      a.append(a[0].kids);
      vf_assert(a.size() == before + 2 && a[before].v.get() == 10 && a[before + 1].v.get() == 11, "Array: a.append(a[0].kids)");
    }
    else
    {
      a.resize(before + 3, a[0].kids[0]);
      vf_assert(a.size() == before + 3 && a[before].v.get() == 10 && a.back().v.get() == 10, "Array: a.resize(n, a[0].kids[0])");
    }
    vf_assert(a[0].v.get() == 1 && a[0].kids.size() == 2, "Array: the element that owned the argument is intact");
  }
  ledgerExpectEmpty();
  vf_reach("end");
  return 0;
}
