// C07 (also C09 sequential part for Variant): type/value kept, coercions, equality with copies, independence of copies.
#include <nstd/Variant.hpp>
#include "vf.h"

#ifndef VF_K
#define VF_K 3
#endif
#define NV 3

struct Snap
{
  int type; int64 i; bool isDouble; unsigned slen; byte s[6]; unsigned size; int ctype[4]; int64 cval[4];
};
static void snapScalar(const Variant& v, int& type, int64& val)
{
  type = v.getType();
  switch(v.getType())
  {
  case Variant::boolType: val = v.toBool(); break;
  case Variant::intType: val = v.toInt(); break;
  case Variant::uintType: val = v.toUInt(); break;
  case Variant::int64Type: val = v.toInt64(); break;
  case Variant::uint64Type: val = (int64)v.toUInt64(); break;
  case Variant::doubleType: { double d = v.toDouble(); val = *(int64*)&d; break; }
  case Variant::stringType: { String s = v.toString(); val = (int64)s.length() * 65536 + (s.length() > 0 ? (byte)((const char*)s)[0] : 0) * 256 + (s.length() > 1 ? (byte)((const char*)s)[1] : 0); break; }
  default: val = 0;
  }
}
static void snap(const Variant& v, Snap& s)
{
  snapScalar(v, s.type, s.i);
  s.size = 0; s.slen = 0; s.isDouble = false;
  for(unsigned i = 0; i < 6; ++i) s.s[i] = 0;
  for(unsigned i = 0; i < 4; ++i) { s.ctype[i] = -1; s.cval[i] = 0; }
  if(v.getType() == Variant::stringType) { String t = v.toString(); s.slen = t.length(); for(unsigned i = 0; i < 6; ++i) s.s[i] = i < t.length() ? ((const char*)t)[i] : 0; }
  else if(v.getType() == Variant::listType) { const List<Variant>& l = v.toList(); s.size = l.size(); unsigned i = 0; for(List<Variant>::Iterator it = l.begin(); it != l.end() && i < 4; ++it, ++i) snapScalar(*it, s.ctype[i], s.cval[i]); }
  else if(v.getType() == Variant::arrayType) { const Array<Variant>& a = v.toArray(); s.size = a.size(); for(unsigned i = 0; i < a.size() && i < 4; ++i) snapScalar(a[i], s.ctype[i], s.cval[i]); }
  else if(v.getType() == Variant::mapType) { const HashMap<String, Variant>& m = v.toMap(); s.size = m.size(); unsigned i = 0; for(HashMap<String, Variant>::Iterator it = m.begin(); it != m.end() && i < 4; ++it, ++i) { snapScalar(*it, s.ctype[i], s.cval[i]); s.cval[i] = s.cval[i] * 256 + (it.key().length() ? (byte)((const char*)it.key())[0] : 0); } }
}
static void sameSnap(const Snap& a, const Snap& b, const char* msg)
{
  bool eq = (a.type == b.type) & (a.i == b.i) & (a.slen == b.slen) & (a.size == b.size);
  for(unsigned i = 0; i < 6; ++i) eq = eq & (a.s[i] == b.s[i]);
  for(unsigned i = 0; i < 4; ++i) eq = eq & (a.ctype[i] == b.ctype[i]) & (a.cval[i] == b.cval[i]);
  vf_assert(eq, msg);
}

// ---- scalars and documented coercions
extern "C" int scalars()
{
  unsigned k = vf_pick(7);
  if(k == 0) { Variant v; vf_assert(v.isNull() && v.getType() == Variant::nullType, "default is null"); vf_assert(v.toInt() == 0 && !v.toBool() && v.toString().isEmpty(), "null coerces to 0/false/empty"); }
  else if(k == 1) { bool b = vf_pick(2); Variant v(b); vf_assert(v.getType() == Variant::boolType && v.toBool() == b, "bool kept"); vf_assert(v.toInt() == (b ? 1 : 0) && v.toUInt64() == (b ? 1u : 0u), "bool -> 0/1"); vf_assert(v.toString() == (b ? String("true") : String("false")), "bool -> text"); }
  else if(k == 2)
  {
    int x = (int)vf_u32(); Variant v(x);
    vf_assert(v.getType() == Variant::intType && v.toInt() == x, "int kept");
    vf_assert(v.toInt64() == (int64)x && v.toUInt() == (uint)x && v.toUInt64() == (uint64)x && v.toBool() == (x != 0), "int coercions are the C++ conversions");
    vf_assert(v.toDouble() == (double)x, "int -> double exact");
    String s = v.toString(); Variant t(s);
    vf_assert(t.getType() == Variant::stringType && t.toInt() == x, "int -> decimal string -> int");
    vf_assert(t.toInt64() == (int64)x, "decimal string -> int64");
    vf_assert(v == t && t == v, "number == its decimal string (coercing equality, both directions)");
  }
  else if(k == 3)
  {
    uint x = vf_u32(); Variant v(x);
    vf_assert(v.getType() == Variant::uintType && v.toUInt() == x, "uint kept");
    vf_assert(v.toInt() == (int)x && v.toInt64() == (int64)x && v.toUInt64() == (uint64)x && v.toBool() == (x != 0), "uint coercions are the C++ conversions");
    String s = v.toString(); Variant t(s);
    vf_assert(t.toUInt() == x, "uint -> decimal string -> uint");
  }
  else if(k == 4)
  {
    int64 x = (int64)vf_u64(); Variant v(x);
    vf_assert(v.getType() == Variant::int64Type && v.toInt64() == x, "int64 kept");
    vf_assert(v.toInt() == (int)x && v.toUInt() == (uint)x && v.toUInt64() == (uint64)x && v.toBool() == (x != 0), "int64 coercions are the C++ conversions");
    String s = v.toString(); Variant t(s);
    vf_assert(t.toInt64() == x, "int64 -> decimal string -> int64");
  }
  else if(k == 5)
  {
    uint64 x = vf_u64(); Variant v(x);
    vf_assert(v.getType() == Variant::uint64Type && v.toUInt64() == x, "uint64 kept");
    vf_assert(v.toInt() == (int)x && v.toInt64() == (int64)x && v.toBool() == (x != 0), "uint64 coercions are the C++ conversions");
    String s = v.toString(); Variant t(s);
    vf_assert(t.toUInt64() == x, "uint64 -> decimal string -> uint64");
  }
  else
  {
    int x = (int)vf_u32(); double d = (double)x * 0.5;       // every half-integer in int range, not NaN
    Variant v(d);
    vf_assert(v.getType() == Variant::doubleType && v.toDouble() == d, "double kept");
    vf_assert(v.toInt() == (int)d && v.toInt64() == (int64)d && v.toBool() == (d != 0.), "double coercions truncate like the C++ conversions");
    Variant w(v); vf_assert(w == v && v == w, "double == its copy");
  }
  vf_reach("end");
  return 0;
}

// ---- histories over three variables: copies are independent and equal
static void assignAlt(Variant& v, unsigned alt)
{
  switch(alt)
  {
  case 0: v.clear(); break;
  case 1: v = (bool)vf_pick(2); break;
  case 2: v = (int)vf_u32(); break;
  case 3: v = (int64)vf_u64(); break;
  case 4: { char d[2] = {(char)('a' + vf_pick(2)), 'z'}; v = String(d, 1 + vf_pick(2)); break; }
  case 5: { List<Variant> l; l.append(Variant((int)vf_u32())); l.append(Variant(String("e"))); v = l; break; }
  case 6: { Array<Variant> a; a.append(Variant((int)vf_u32())); v = a; break; }
  case 7: { HashMap<String, Variant> m; m.append(String("k"), Variant((int)vf_u32())); v = m; break; }
  case 8: v = 1.5; break;
  }
}

extern "C" int copies()
{
  {
    Variant v[NV]; Snap before[NV], after[NV];
    assignAlt(v[0], 4 + vf_pick(4)); v[1] = v[0];       // two variables sharing one heap payload
    for(unsigned k = 0; k < VF_K; ++k)
    {
      unsigned op = vf_pick(10);
      if(op == 0) break;
      unsigned t = vf_pick(NV);
      for(unsigned i = 0; i < NV; ++i) snap(v[i], before[i]);
      switch(op)
      {
      case 1: assignAlt(v[t], vf_pick(9)); break;
      case 2: { unsigned u = vf_pick(NV); v[t] = v[u]; Snap a, b; snap(v[t], a); snap(v[u], b); sameSnap(a, b, "assignment copies the value"); vf_assert(v[t] == v[u] && v[u] == v[t], "a Variant equals its copy"); break; }
      case 3: { Variant c(v[t]); Snap a, b; snap(c, a); snap(v[t], b); sameSnap(a, b, "copy construction copies the value"); vf_assert(c == v[t] && v[t] == c, "a Variant equals its copy"); break; }
      case 4: { unsigned u = vf_pick(NV); if(u == t) break; v[t].swap(v[u]); Snap a, b; snap(v[t], a); snap(v[u], b); sameSnap(a, before[u], "swap: left gets the right value"); sameSnap(b, before[t], "swap: right gets the left value"); snap(v[u], before[u]); break; }
      case 5: { String& s = v[t].toString(); s.append('x'); Snap a; snap(v[t], a); vf_assert(a.type == Variant::stringType, "mutable toString makes it a string"); break; }
      case 6: { List<Variant>& l = v[t].toList(); unsigned n = l.size(); l.append(Variant(7)); Snap a; snap(v[t], a); vf_assert(a.type == Variant::listType && a.size == n + 1, "mutable toList: the change is visible in this Variant"); break; }
      case 7: { Array<Variant>& arr = v[t].toArray(); unsigned n = arr.size(); arr.append(Variant(8)); Snap a; snap(v[t], a); vf_assert(a.type == Variant::arrayType && a.size == n + 1, "mutable toArray: the change is visible in this Variant"); break; }
      case 9: { // assign a Variant one of its own elements (descending into a tree): as if the argument had been copied first
        const Variant& cv = v[t];
        if(cv.getType() == Variant::listType && !cv.toList().isEmpty()) { int ty; int64 val; snapScalar(cv.toList().front(), ty, val); v[t] = cv.toList().front(); int ty2; int64 val2; snapScalar(v[t], ty2, val2); vf_assert(ty2 == ty && val2 == val, "v = v.toList().front() yields the element"); }
        else if(cv.getType() == Variant::mapType && !cv.toMap().isEmpty()) { int ty; int64 val; snapScalar(*cv.toMap().begin(), ty, val); v[t] = *cv.toMap().begin(); int ty2; int64 val2; snapScalar(v[t], ty2, val2); vf_assert(ty2 == ty && val2 == val, "v = *v.toMap().begin() yields the element"); }
        break; }
      case 8: { HashMap<String, Variant>& m = v[t].toMap(); unsigned n = m.size(); char kn[2] = {'n', (char)('0' + k)}; m.append(String(kn, 2), Variant(9)); Snap a; snap(v[t], a); vf_assert(a.type == Variant::mapType && a.size == n + 1, "mutable toMap: the change is visible in this Variant"); break; }
      }
      // every other variable is untouched
      for(unsigned i = 0; i < NV; ++i) if(i != t) { snap(v[i], after[i]); sameSnap(after[i], before[i], "changing one Variant never changes another"); }
    }
    // equality with a copy that went through a non-modifying mutable access (payload cloned, value equal)
    {
      unsigned t = vf_pick(NV);
      Variant c(v[t]);
      if(c.getType() == Variant::listType) c.toList();
      else if(c.getType() == Variant::arrayType) c.toArray();
      else if(c.getType() == Variant::mapType) c.toMap();
      else if(c.getType() == Variant::stringType) c.toString();
      vf_assert(c == v[t] && v[t] == c, "a Variant equals its (unshared but unmodified) copy");
    }
  }
  vf_reach("end");
  return 0;
}

// assignment of a String / List / Array / HashMap that lives inside the target's own payload (descending into a tree):
// as if the argument had been copied first
extern "C" int nested_assign()
{
  {
    unsigned c = vf_pick(6);
    Variant v;
    if(c == 0)
    {
      v.toList().append(Variant(String("first element")));
      Variant two(2); v.toList().append(two);
      v = v.toList().front().toString();                  // String& into v's payload
      const Variant& cv = v;
      vf_assert(cv.getType() == Variant::stringType && cv.toString() == "first element", "v = own element's string");
    }
    else if(c == 1)
    {
      Variant m; Variant five(5); m.toMap().append(String("k"), five);
      v.toList().append(m);
      const Variant& cv = v;
      v = cv.toList().front().toMap();                     // const HashMap& into v's payload (type changes: new block)
      vf_assert(cv.getType() == Variant::mapType && cv.toMap().size() == 1, "v = own element's map: size");
      vf_assert(cv.toMap().find(String("k")) != cv.toMap().end() && cv.toMap().find(String("k"))->toInt() == 5, "v = own element's map: entry");
    }
    else if(c == 2)
    {
      Variant l; Variant one(1), two(2); l.toList().append(one); l.toList().append(two);
      v.toList().append(l);
      const Variant& cv = v;
      v = cv.toList().front().toList();                    // same type, unshared: in-place branch
      vf_assert(cv.getType() == Variant::listType && cv.toList().size() == 2, "v = own element's list: size");
      vf_assert(cv.toList().front().toInt() == 1 && cv.toList().back().toInt() == 2, "v = own element's list: elements");
    }
    else if(c == 3)
    {
      Variant a; Variant one(1), two(2); a.toArray().append(one); a.toArray().append(two);
      v.toArray().append(a);
      const Variant& cv = v;
      v = cv.toArray()[0].toArray();
      vf_assert(cv.getType() == Variant::arrayType && cv.toArray().size() == 2, "v = own element's array: size");
      vf_assert(cv.toArray()[0].toInt() == 1 && cv.toArray()[1].toInt() == 2, "v = own element's array: elements");
    }
    else if(c == 4)
    {
      Variant child; Variant seven(7); child.toMap().append(String("x"), seven);
      v.toMap().append(String("child"), child);
      const Variant& cv = v;
      v = cv.toMap().find(String("child"))->toMap();       // in-place branch of the map overload
      vf_assert(cv.getType() == Variant::mapType && cv.toMap().size() == 1, "v = own child map: size");
      vf_assert(cv.toMap().find(String("x")) != cv.toMap().end() && cv.toMap().find(String("x"))->toInt() == 7, "v = own child map: entry");
    }
    else
    {
      v.toMap().append(String("name"), Variant(String("value text")));
      v = v.toMap().find(String("name"))->toString();      // String& into v's payload, from a map
      const Variant& cv = v;
      vf_assert(cv.getType() == Variant::stringType && cv.toString() == "value text", "v = own map entry's string");
    }
  }
  vf_reach("end");
  return 0;
}

// a Variant copied into the container obtained from its own mutable accessor: the stored element is the value the Variant
// had (a list that does not contain itself), and every payload is released at the end
extern "C" int self_nesting()
{
  {
    unsigned c = vf_pick(3);
    Variant v;
    if(c == 0)
    {
      Variant one(1); v.toList().append(one);
      v.toList().append(v);                                   // expected [1, [1]]
      const Variant& cv = v;
      vf_assert(cv.toList().size() == 2, "v.toList().append(v): outer size");
      const Variant& inner = cv.toList().back();
      vf_assert(inner.getType() == Variant::listType && inner.toList().size() == 1, "v.toList().append(v): the stored copy is the list as it was, not the list it is stored in");
    }
    else if(c == 1)
    {
      Variant one(1); v.toMap().append(String("k"), one);
      v.toMap().append(String("self"), v);                    // expected {k:1, self:{k:1}}
      const Variant& cv = v;
      vf_assert(cv.toMap().size() == 2, "v.toMap().append(key, v): outer size");
      const Variant& inner = *cv.toMap().find(String("self"));
      vf_assert(inner.getType() == Variant::mapType && inner.toMap().size() == 1, "v.toMap().append(key, v): the stored copy is the map as it was");
    }
    else
    {
      Variant one(1); v.toArray().append(one);
      v.toArray().append(v);
      const Variant& cv = v;
      vf_assert(cv.toArray().size() == 2, "v.toArray().append(v): outer size");
      const Variant& inner = cv.toArray()[1];
      vf_assert(inner.getType() == Variant::arrayType && inner.toArray().size() == 1, "v.toArray().append(v): the stored copy is the array as it was");
    }
  }
  vf_reach("end");
  return 0;
}
