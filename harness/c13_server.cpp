// C13: Server client write path: bytes written are delivered completely and in order whatever the OS does with send().
// Real Server.cpp + real Socket.cpp (incl. the epoll based Socket::Poll) on top of the engine's kernel model.
#define private public
#define protected public
#include <../src/Socket/Socket.cpp>
#include <../src/Socket/Server.cpp>
#include "vf.h"

#ifndef VF_K
#define VF_K 4
#endif
#ifndef VF_WN
#define VF_WN 2
#endif
#define CAPM 24

typedef Server::Private::ClientImpl ClientImpl;

static byte g_accepted[CAPM]; static unsigned g_nacc;
static byte g_peer[CAPM]; static unsigned g_npeer;

struct CB : public Server::Client::ICallback
{
  unsigned reads, writes, closed; ClientImpl* client; unsigned writeInOnWrite; bool writeFailed;
  CB() : reads(0), writes(0), closed(0), client(0), writeInOnWrite(0), writeFailed(false) {}
  virtual void onRead() { ++reads; }
  virtual void onWrite()
  {
    ++writes;
    if(writeInOnWrite)
    { // the application continues its stream from inside the notification (may again leave a backlog)
      unsigned n = writeInOnWrite; writeInOnWrite = 0;
      byte d[4]; for(unsigned i = 0; i < n; ++i) d[i] = vf_u8();
      if(client->write(d, n)) { for(unsigned i = 0; i < n; ++i) { vf_assert(g_nacc < CAPM, "model capacity"); g_accepted[g_nacc++] = d[i]; } }
      else writeFailed = true;
    }
  }
  virtual void onClosed() { ++closed; }
};

static void drainPeer(Socket& other)
{
  byte buf[8];
  for(;;)
  {
    ssize r = other.recv(buf, sizeof(buf));
    if(r <= 0) break;
    for(ssize i = 0; i < r; ++i) { vf_assert(g_npeer < CAPM, "peer capacity"); g_peer[g_npeer++] = buf[i]; }
  }
}

static uint interestOf(Server::Private& p, ClientImpl& c)
{
  HashMap<Socket*, Socket::Poll::Private::SocketInfo>::Iterator it = p._sockets.p->sockets.find(&c);
  return it == p._sockets.p->sockets.end() ? 0 : it->events;
}

static void checkAll(Server::Private& p, ClientImpl& c, Socket& other, CB& cb)
{
  drainPeer(other);
  vf_assert(g_npeer <= g_nacc, "peer received more bytes than were accepted");
  for(unsigned i = 0; i < g_npeer; ++i) vf_assert(g_peer[i] == g_accepted[i], "peer stream == accepted bytes, in order");
  vf_trace(g_npeer);
  if(!cb.closed)
  {
    vf_assert(c._sendBuffer.size() == g_nacc - g_npeer, "send buffer size == accepted - handed to the OS");
    const byte* sb = c._sendBuffer;
    for(unsigned i = 0; i < g_nacc - g_npeer; ++i) vf_assert(sb[i] == g_accepted[g_npeer + i], "backlog holds exactly the unsent suffix");
    uint want = (c._suspended ? 0 : Socket::Poll::readFlag) | (g_nacc - g_npeer ? Socket::Poll::writeFlag : 0);
    vf_assert(interestOf(p, c) == want, "registered interest == {read unless suspended} + {write iff backlog}");
  }
}

extern "C" int write_path()
{
  {
    Server::Private p; Socket other; CB cb;
    Server::Client* cl = p.pair(cb, other);
    vf_assert(cl != 0, "pair");
    ClientImpl& c = *(ClientImpl*)cl; cb.client = &c;
    int fd = (int)c.getFileDescriptor();
    bool closing = false;
    checkAll(p, c, other, cb);
    for(unsigned k = 0; k < VF_K && !closing; ++k)
    {
      unsigned op = vf_pick(6);
      if(op == 0) break;
      switch(op)
      {
      case 1: {
        unsigned n = 1 + vf_pick(VF_WN); byte d[4]; for(unsigned i = 0; i < n; ++i) d[i] = vf_u8();
        usize postponed = 77; unsigned backlogBefore = g_nacc - g_npeer;
        bool ok = c.write(d, n, &postponed);
        if(ok) { for(unsigned i = 0; i < n; ++i) { vf_assert(g_nacc < CAPM, "model capacity"); g_accepted[g_nacc++] = d[i]; } }
        else closing = true;
        drainPeer(other);
        if(ok) vf_assert(postponed == g_nacc - g_npeer, "postponed == accepted bytes not yet handed to the OS");
        else vf_assert(postponed == 0, "failed write reports no postponed bytes");
        break; }
      case 2: c.suspend(); vf_assert(c._suspended, "suspended"); break;
      case 3: c.resume(); vf_assert(!c._suspended, "resumed"); break;
      case 4: { // one loop round with the socket writable: the backlog is pushed out
        unsigned backlog = g_nacc - g_npeer; unsigned w0 = cb.writes;
        cb.writeInOnWrite = backlog ? vf_pick(VF_WN + 1) : 0;      // what the application does inside onWrite
        bool wroteInside = cb.writeInOnWrite != 0; unsigned accBefore = g_nacc;
        vf_net_writable(fd); p.interrupt(); p.run();
        p.interrupt(); p.run();           // a second pass dispatches what the first one buffered
        drainPeer(other);
        if(cb.closed || cb.writeFailed) { closing = true; break; }
        cb.writeInOnWrite = 0;
        if(backlog && g_nacc == g_npeer && !wroteInside) vf_assert(cb.writes == w0 + 1, "onWrite delivered once when the backlog has drained");
        if(wroteInside && g_nacc != accBefore) vf_assert(cb.writes >= w0 + 1, "onWrite was delivered (the write inside it happened)");
        if(!backlog) vf_assert(cb.writes == w0, "no onWrite without a backlog");
        break; }
      case 5: { // data arrives for the client: read notification unless suspended
        byte in[1] = {7}; unsigned r0 = cb.reads;
        vf_net_feed(fd, in, 1); p.interrupt(); p.run(); p.interrupt(); p.run();
        if(c._suspended) vf_assert(cb.reads == r0, "a suspended client gets no read notification");
        else { vf_assert(cb.reads > r0, "a readable client that is not suspended is notified"); byte tmp[4]; usize got = 0; c.read(tmp, 4, got); }
        break; }
      }
      if(!closing) checkAll(p, c, other, cb);
    }
    if(closing)
    {
      // a failed write is followed by onClosed in the next loop round
      unsigned c0 = cb.closed; p.interrupt(); p.run(); p.interrupt(); p.run();
      vf_assert(cb.closed >= 1, "failed write is followed by onClosed");
      drainPeer(other);
      vf_assert(g_npeer <= g_nacc, "peer received more bytes than were accepted");
      for(unsigned i = 0; i < g_npeer; ++i) vf_assert(g_peer[i] == g_accepted[i], "peer stream is a prefix of the accepted bytes");
    }
  }
  vf_reach("end");
  return 0;
}
