// C15: Json parser totality/cursor safety, toString/parse round trip, stripComments vs. a reference state machine.
#include <nstd/Document/Json.hpp>
#include <nstd/Unicode.hpp>
#include "vf.h"

#ifndef VF_LEN
#define VF_LEN 4
#endif
#ifndef VF_SLEN
#define VF_SLEN 5
#endif

// arbitrary NUL-terminated text in an exactly sized object: terminates (unwind bound), reads nothing beyond the
// terminator (engine bounds), failure reports a position inside the text

// length of line number `line` (1-based) of buf[0..n): \n, \r, or \r\n end a line (the \r of a \r\n pair belongs to the line)
static unsigned vf_lineLength(const char* buf, unsigned n, unsigned line)
{
  unsigned cur = 1, len = 0;
  for(unsigned i = 0; i < n; ++i)
  {
    bool brk = (buf[i] == '\n') | ((buf[i] == '\r') & (buf[i + 1] != '\n'));
    if(brk) { if(cur == line) return len; ++cur; len = 0; }
    else ++len;
  }
  return len;
}

extern "C" int parse_safety()
{
  unsigned n = vf_pick(VF_LEN + 1);
  char* buf = (char*)vf_alloc(n + 1);
  unsigned lines = 1;
  for(unsigned i = 0; i < n; ++i) { byte b = vf_u8(); vf_assume(b != 0); buf[i] = (char)b; }
  buf[n] = 0;
  {
    Json::Parser parser; Variant v;
    bool ok = parser.parse(buf, v);
    if(!ok)
    {
      int line = parser.getErrorLine(), col = parser.getErrorColumn();
      // line breaks: \n, \r, or \r\n count once
      for(unsigned i = 0; i < n; ++i) lines += (buf[i] == '\n') | ((buf[i] == '\r') & (buf[i + 1] != '\n'));
      vf_assert(line >= 1 && (unsigned)line <= lines, "error line lies inside the text");
      vf_assert(col >= 1 && (unsigned)col <= n + 1, "error column lies inside the text");
      vf_assert((unsigned)col <= vf_lineLength(buf, n, (unsigned)line) + 1, "error column lies inside its line");
    }
  }
  vf_free(buf);
  vf_reach("end");
  return 0;
}

// longer texts over the bytes that drive line counting: quotes, backslashes, line breaks, one letter, brackets
#ifndef VF_PLEN
#define VF_PLEN 6
#endif
extern "C" int error_position()
{
  unsigned n = vf_pick(VF_PLEN + 1);
  char* buf = (char*)vf_alloc(n + 1);
  for(unsigned i = 0; i < n; ++i) { byte b = vf_u8(); vf_assume((b == '"') | (b == '\\') | (b == '\n') | (b == '\r') | (b == 'x') | (b == '[') | (b == ',')); buf[i] = (char)b; }
  buf[n] = 0;
  {
    Json::Parser parser; Variant v;
    if(!parser.parse(buf, v))
    {
      int line = parser.getErrorLine(), col = parser.getErrorColumn();
      unsigned lines = 1;
      for(unsigned i = 0; i < n; ++i) lines += (buf[i] == '\n') | ((buf[i] == '\r') & (buf[i + 1] != '\n'));
      vf_assert(line >= 1 && (unsigned)line <= lines, "error line lies inside the text");
      vf_assert(col >= 1 && (unsigned)col <= vf_lineLength(buf, n, (unsigned)line) + 1, "error column lies inside its line");
    }
  }
  vf_free(buf);
  vf_reach("end");
  return 0;
}

// ---- round trip over small value trees (map keys are concrete: a symbolic key makes the real string hash pick one
// of 500 buckets per byte value; key text goes through the same escaping code as string values)
static String symString(unsigned maxLen)
{
  unsigned n = vf_pick(maxLen + 1); char d[4];
  for(unsigned i = 0; i < n; ++i) { byte b = vf_u8(); vf_assume(b != 0); d[i] = (char)b; }
  return String(d, n);
}
// level 2: every leaf kind (root only); level 1: no int64 (first element of a container); level 0: bool / small set
static Variant leaf(int level = 1)
{
  unsigned k = level == 2 ? vf_pick(6) : level == 1 ? vf_pick(5) : 1;
  switch(k)
  {
  case 0: return Variant();
  case 1: return Variant((bool)vf_pick(2));
  case 2: return Variant((int)vf_u32());
  case 3: return Variant(symString(2));
  case 4: return Variant(String("a\"\\b"));
  default: return Variant((int64)vf_u64());
  }
}
extern "C" int roundtrip()
{
  {
    Variant root;
    unsigned shape = vf_pick(5);
    if(shape == 0) root = leaf(2);
    else if(shape == 1) { List<Variant>& l = root.toList(); unsigned k = vf_pick(3); for(unsigned i = 0; i < k; ++i) l.append(leaf(i == 0 ? 1 : 0)); }
    else if(shape == 2) { HashMap<String, Variant>& m = root.toMap(); unsigned k = vf_pick(3); for(unsigned i = 0; i < k; ++i) { String key = i == 0 ? (vf_pick(2) ? String("q\"\\\n\r") : String("k1")) : String("k2"); Variant lf = leaf(i == 0 ? 1 : 0); m.append(key, lf); } }
    else if(shape == 3) { List<Variant>& l = root.toList(); Variant inner; Variant lf = leaf(); inner.toMap().append(String("in"), lf); l.append(inner); Variant lf2 = leaf(0); l.append(lf2); }
    else { HashMap<String, Variant>& m = root.toMap(); Variant inner; Variant lf = leaf(); inner.toList().append(lf); m.append(String("k"), inner); }
    String text = Json::toString(root);
    Json::Parser parser; Variant back;
    bool ok = parser.parse(text, back);
    vf_assert(ok, "parse(toString(v)) succeeds");
    vf_assert(root == back, "parse(toString(v)) == v");
    vf_assert(back == root, "v == parse(toString(v)) (symmetric)");
    vf_assert(back.getType() == root.getType() || root.getType() == Variant::int64Type, "type preserved (int64 may narrow to int)");
    // the result variable need not be fresh: parsing again into it, or into a variable that held another container
    unsigned again = vf_pick(3);
    if(again == 1) { ok = parser.parse(text, back); vf_assert(ok && root == back, "parsing the same text again into the same variable yields the same tree"); }
    else if(again == 2)
    {
      Variant used; Variant one(1);
      if(root.getType() == Variant::mapType) used.toMap().append(String("old"), one); else used.toList().append(one);
      ok = parser.parse(text, used); vf_assert(ok && root == used, "parsing into a used variable yields exactly the parsed tree");
    }
  }
  vf_reach("end");
  return 0;
}

// ---- stripComments vs. reference: removes // and /* */ outside string literals, keeps every other byte and every line break
extern "C" int strip()
{
  unsigned n = vf_pick(VF_SLEN + 1);
  char d[12]; 
  for(unsigned i = 0; i < n; ++i) { byte b = vf_u8(); vf_assume(b != 0); d[i] = (char)b; }
  d[n] = 0;
  // reference
  char ref[12]; unsigned r = 0; unsigned i = 0;
  enum { Plain, Str, Line, Block } stt = Plain;
  while(i < n)
  {
    char c = d[i];
    if(stt == Plain)
    {
      if(c == '/' && d[i + 1] == '/') { stt = Line; i += 2; continue; }
      if(c == '/' && d[i + 1] == '*') { stt = Block; i += 2; continue; }
      if(c == '"') stt = Str;
      ref[r++] = c; ++i;
    }
    else if(stt == Str)
    {
      if(c == '\\' && d[i + 1]) { ref[r++] = c; ref[r++] = d[i + 1]; i += 2; continue; }
      if(c == '"') stt = Plain;
      ref[r++] = c; ++i;
    }
    else if(stt == Line)
    {
      if(c == '\r' || c == '\n') { stt = Plain; continue; }
      ++i;
    }
    else
    {
      if(c == '*' && d[i + 1] == '/') { stt = Plain; i += 2; continue; }
      if(c == '\r' || c == '\n') ref[r++] = c;
      ++i;
    }
  }
  {
    String in(d, n);
    String out = Json::stripComments(in);
    vf_assert(out.length() == r, "stripComments: length == reference");
    const char* p = out;
    for(unsigned k = 0; k < r; ++k) vf_assert(p[k] == ref[k], "stripComments: byte == reference");
  }
  vf_reach("end");
  return 0;
}

// ---- \uXXXX escapes: four characters from {0,8,D,d,f,g} (hex and non-hex), optional low surrogate afterwards
static int hexval(char c) { return c >= '0' && c <= '9' ? c - '0' : c >= 'a' && c <= 'f' ? c - 'a' + 10 : c >= 'A' && c <= 'F' ? c - 'A' + 10 : -1; }
extern "C" int unicode_escape()
{
  char text[24]; unsigned n = 0;
  text[n++] = '"'; text[n++] = '\\'; text[n++] = 'u';
  int w1 = 0; bool hex = true;
  for(unsigned i = 0; i < 4; ++i) { byte b = vf_u8(); vf_assume((b == '0') | (b == '8') | (b == 'D') | (b == 'd') | (b == 'f') | (b == 'g')); text[n++] = (char)b; int h = hexval((char)b); if(h < 0) hex = false; else w1 = w1 * 16 + h; }
  bool high = hex && (w1 & 0xFC00) == 0xD800;
  bool withLow = vf_pick(2);
  if(withLow) { const char* low = "\\uDc01"; for(unsigned i = 0; low[i]; ++i) text[n++] = low[i]; }
  text[n++] = '"'; text[n] = 0;
  char* buf = (char*)vf_alloc(n + 1); for(unsigned i = 0; i <= n; ++i) buf[i] = text[i];
  {
    Json::Parser parser; Variant v;
    bool ok = parser.parse(buf, v);
    if(!hex) vf_assert(!ok, "non-hexadecimal \\u escape is rejected");
    else if(high && !withLow) vf_assert(!ok, "a high surrogate without its low surrogate is rejected");
    else
    {
      vf_assert(ok, "well-formed \\u escape parses");
      uint32 cp = high ? (((uint32)(w1 & 0x3FF) << 10) | 0x001) + 0x10000 : (uint32)w1;
      String want = Unicode::toString(cp);
      if(withLow && !high) want.append(Unicode::toString(0xDC01));      // the second escape stands alone
      vf_assert(v.toString() == want, "\\u escape decodes to the UTF-8 form of the code point (surrogate pairs combined)");
    }
    if(!ok) { vf_assert(parser.getErrorLine() == 1, "error line"); vf_assert(parser.getErrorColumn() >= 1 && (unsigned)parser.getErrorColumn() <= n + 1, "error column lies inside the text"); }
  }
  vf_free(buf);
  vf_reach("end");
  return 0;
}
