"""C01: Map / MultiMap sorted, complete, logarithmically deep."""
def _unit(name, multi):
    return dict(
        name=name, harness='harness/c01_map.cpp',
        defines={'all': {'MULTI': multi}, 'quick': {'VF_K': 3, 'VF_H': 3, 'VF_N': 7}, 'thorough': {'VF_K': 4, 'VF_H': 4, 'VF_N': 9}},
        entries=['history', 'step'] + ([] if multi else ['history_copy']),
        opts={'all': {'unwind': 40}},
        split={'quick': 4, 'thorough': 16},
        budget={'quick': 280, 'thorough': 3000},
        validate=['history'],
    )
UNITS = [_unit('map', 0), _unit('multimap', 1)]
BOUNDS = {
    'quick': 'histories of <= 3 operations from empty (plain/hinted insert, remove by key/iterator, removeFront/Back, clear, early stop) + copy/assign/bulk insert over <= 3+2 entries; one-step from every AVL pre-state of height <= 3 (<= 7 nodes); keys and values full 32-bit symbolic',
    'thorough': 'histories of <= 4 operations; one-step from every AVL pre-state of height <= 4 with <= 9 nodes',
}
OUTSIDE = 'trees larger than the stated node bound, histories longer than the bound (covered only through the inductive step harness), key types whose comparison is not a strict weak order, allocation failure'
ASSUMPTIONS = [
    'clang++-14 -O1 IR of include/nstd/Map.hpp / MultiMap.hpp instantiated with Key{int} (counting comparisons) and int values',
    'operator new[] never fails; flat concrete address layout chosen by the engine',
    'library ASSERT()s enabled (no NDEBUG): a failing internal ASSERT is reported as a violation',
    'step harness pre-states are all trees satisfying the AVL/threading invariant that checkInvariant() re-establishes after every operation',
]
