"""C05: elements of node and pool containers never move while they live."""
import copy
from props import C01, C02, C03, C04
def take(mod, name, entries, newname=None):
    u = copy.deepcopy([x for x in mod.UNITS if x['name'] == name][0])
    u['entries'] = entries; u['validate'] = entries[:1]
    if newname: u['name'] = newname
    return u
UNITS = [take(C01, 'map', ['step', 'history']), take(C01, 'multimap', ['step', 'history']),
         take(C02, 'hashmap', ['history', 'step']), take(C02, 'hashset', ['step']), take(C02, 'poolmap', ['history', 'step']),
         take(C03, 'list', ['history']), take(C03, 'poollist', ['history', 'step']),
         take(C04, 'poollist', ['history', 'step'], 'poollist_tracked')]
BOUNDS = {
    'quick': 'the C01-C03 harnesses record the address of every element when it is inserted and compare &*iterator with it after every later operation (AVL rotations and two-child removals from every pre-state of height <= 3, hash chain unlinking, list relinking, swap of two containers, clear of the other container); slot discipline after every operation: the free list is a simple chain and contains no live element (a later insert would otherwise construct on top of a live element); PoolList<Tracked>: copy-construction and assignment counters stay 0',
    'thorough': 'bounds of the thorough tiers of C01-C03',
}
OUTSIDE = 'the clients named in the anchors (Server, Future, Callback) are covered by their own properties; containers larger than the C01-C03 bounds'
ASSUMPTIONS = ['same lowering and assumptions as C01-C03; the engine uses one concrete address layout, element identity is the address observed at insertion']
