"""C09: shared payloads are released exactly once, after their last handle."""
import copy
from props import C06, C07, C16
SRC = ['repo:src/Variant.cpp', 'repo:src/String.cpp', 'repo:src/Memory.cpp']
def take(mod, name, entries, newname):
    u = copy.deepcopy([x for x in mod.UNITS if x['name'] == name][0]); u['entries'] = entries; u['validate'] = entries[:1]; u['name'] = newname
    return u
UNITS = [
    dict(name='ptr', harness='harness/c09_shared.cpp', sources=SRC, defines={'quick': {'VF_K': 3, 'VF_TOPS': 2}, 'thorough': {'VF_K': 4, 'VF_TOPS': 2}},
         entries=['ptr_seq'], opts={'all': {'unwind': 64}}, split={'quick': 8, 'thorough': 16}, budget={'quick': 280, 'thorough': 2600}, validate=['ptr_seq']),
    dict(name='threads', harness='harness/c09_shared.cpp', sources=SRC, native=False,
         defines={'quick': {'VF_K': 3, 'VF_TOPS': 2}, 'thorough': {'VF_K': 3, 'VF_TOPS': 2}},
         entries=['string_threads', 'variant_threads', 'ptr_threads'],
         opts={'quick': {'unwind': 64, 'preempt': 2}, 'thorough': {'unwind': 64, 'preempt': 3}},
         split={'quick': 12, 'thorough': 16}, budget={'quick': 280, 'thorough': 2600}, validate=[]),
    take(C06, 'string', ['sharing'], 'string_seq'), take(C07, 'variant', ['copies'], 'variant_seq'), take(C16, 'xml', ['copies'], 'xml_seq'),
]
BOUNDS = {
    'quick': 'RefCount::Ptr: histories of <= 3 operations (assign raw, assign handle, swap, release, copy) over 3 handles and 2 ledger objects with a virtual destructor; String/Variant/Xml::Variant sequential sharing histories of C06/C07/C16; threads: 2 worker threads + main, each owning a distinct handle to one String / Variant list / Ptr payload, <= 2 operations per thread (copy own handle, modify through own handle, release), every interleaving with <= 2 preemptions at atomic read-modify-write and volatile accesses and at thread start/join',
    'thorough': 'Ptr histories <= 4; <= 2 operations per thread, <= 3 preemptions (3 operations per thread with 2 preemptions was measured once: 10.9 million schedules, 44 min, no violation - too long to register)',
}
OUTSIDE = 'weak-memory effects (sequential consistency is assumed: Atomic uses the full-barrier __sync builtins), preemption at plain (non-atomic, non-volatile) accesses, more than 3 threads'
ASSUMPTIONS = ['threads are modelled by the engine (no native replay for the threads unit: counterexamples are schedules, re-executed deterministically by the engine)',
               'engine heap checks: double free, use after free, leak at harness exit; sequential consistency']

TECHNIQUE = 'solver-based bounded symbolic execution of clang-14 LLVM IR for the sequential handle histories (String/Variant/Xml units, native replay); exhaustive bounded enumeration of handle histories (Ptr) and of thread schedules within a preemption bound (threads unit) by the same executor - those parts have no symbolic data and discharge no solver query'
LEVEL_TEXT = 'Sequential sharing histories: bounded symbolic execution of the real IR decided by z3, counterexamples replayed natively. RefCount::Ptr histories and the threads unit: bounded model checking by exhaustive enumeration of operation choices / thread schedules (preemption bound) on the real IR over an engine model of pthreads with sequential consistency; no solver involvement there, counterexamples are schedules re-executed concretely by the engine.'
