"""C15: JSON parsing is total and safe; serialising then parsing is identity."""
SRC = ['repo:src/Document/Json.cpp', 'repo:src/String.cpp', 'repo:src/Memory.cpp', 'repo:src/Variant.cpp']
UNITS = [dict(
    name='json', harness='harness/c15_json.cpp', sources=SRC, native_sources=SRC + ['repo:src/Error.cpp'],
    defines={'quick': {'VF_LEN': 4, 'VF_SLEN': 6}, 'thorough': {'VF_LEN': 5, 'VF_SLEN': 8}},
    entries=['parse_safety', 'error_position', 'roundtrip', 'strip', 'unicode_escape'],
    opts={'all': {'unwind': 64}},
    split={'quick': 12, 'thorough': 16},
    budget={'quick': 280, 'thorough': 2600},
    validate=['parse_safety', 'strip'],
)]
BOUNDS = {
    'quick': 'every NUL-terminated text of <= 4 arbitrary non-NUL bytes in an exactly sized object through Json::Parser::parse; value trees of <= 3 nodes (null, bool, symbolic int32/int64, strings of <= 2 symbolic non-NUL bytes, a fixed string with quote and backslash, lists, string-keyed maps, one nesting level) through toString then parse; stripComments on every text of <= 6 non-NUL bytes vs. a reference state machine',
    'thorough': 'texts <= 5 bytes, stripComments inputs <= 8 bytes',
}
OUTSIDE = 'longer texts / deeper trees (nesting depth 1000 is not reached), doubles (libc formatting), \\u escapes are covered over the digit alphabet {0,8,D,d,f,g} (entry unicode_escape)'
ASSUMPTIONS = ['clang++-14 -O1 IR of src/Document/Json.cpp, src/String.cpp, src/Variant.cpp, src/Memory.cpp + the container/String/Variant headers',
               'vsnprintf / strto* / strpbrk are engine models', 'text bytes are non-NUL (the terminator is the only NUL)']
