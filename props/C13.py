"""C13: Server clients deliver written bytes completely and in order."""
SRC = ['repo:src/String.cpp', 'repo:src/Memory.cpp', 'repo:src/Mutex.cpp', 'repo:src/Time.cpp', 'repo:src/Error.cpp']
UNITS = [dict(
    name='server', harness='harness/c13_server.cpp', sources=SRC, native=False,
    defines={'quick': {'VF_K': 4, 'VF_WN': 2}, 'thorough': {'VF_K': 5, 'VF_WN': 3}},
    entries=['write_path'],
    opts={'all': {'unwind': 64, 'max_instr': 1500000}},
    split={'quick': 14, 'thorough': 16},
    budget={'quick': 285, 'thorough': 3000},
    validate=[],
)]
BOUNDS = {
    'quick': 'one client created through pair(); histories of <= 4 operations out of write(1..2 symbolic bytes), suspend, resume, write-ready loop round, inbound data round; every send() outcome per call (would-block, error, any accepted prefix length); after every operation the peer stream, the backlog contents, postponed/send-buffer size and the registered epoll interest are compared with the model',
    'thorough': 'histories of <= 5 operations, writes of 1..3 bytes',
}
OUTSIDE = 'real TCP/epoll behaviour (the kernel is a model written from the man pages: socketpair, send, recv, epoll_ctl/epoll_wait, eventfd), more than one client, writes longer than 2 bytes'
ASSUMPTIONS = ['real src/Socket/Server.cpp and src/Socket/Socket.cpp (included by the harness TU), Buffer, PoolList, HashSet, HashMap, MultiMap; kernel calls are engine models',
               'no native replay: the counterexample is the recorded sequence of choices and send() outcomes, re-executed deterministically by the engine']

TECHNIQUE = 'exhaustive bounded enumeration of write / send-outcome / suspend / peer-read histories of the real Server.cpp + Socket.cpp IR on an engine model of sockets and epoll by the symbolic executor; the choices are discrete, so no solver query is discharged (enumeration, not symbolic reasoning)'
LEVEL_TEXT = 'Bounded model checking by exhaustive enumeration of every operation and send() outcome history within the bound on the real Server.cpp/Socket.cpp IR over a kernel model (socketpair/send/recv/epoll); values are concrete, the solver is not consulted; counterexamples are choice sequences re-executed by the engine.'
