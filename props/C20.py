"""C20: option parsing follows getopt rules; command-line splitting (child-process behaviour itself is not applicable)."""
SRC = ['repo:src/String.cpp', 'repo:src/Memory.cpp']
NSRC = SRC + ['repo:src/Error.cpp', 'repo:src/File.cpp', 'repo:src/Directory.cpp', 'repo:src/Mutex.cpp', 'repo:src/Thread.cpp', 'repo:src/Time.cpp', 'repo:src/Signal.cpp', 'repo:src/System.cpp', 'repo:src/Debug.cpp', 'repo:src/Library.cpp']
UNITS = [dict(
    name='args', harness='harness/c20_args.cpp', sources=SRC, native_sources=NSRC, native_flags=['-ldl'],
    defines={'quick': {'VF_ARGC': 2, 'VF_ARGL': 5, 'VF_ARGL2': 2, 'VF_CL': 5, 'VF_ARGCM': 4, 'VF_ARGLM': 2}, 'thorough': {'VF_ARGCM': 5, 'VF_ARGLM': 2, 'VF_ARGC': 3, 'VF_ARGL': 6, 'VF_ARGL2': 3, 'VF_CL': 7}},
    entries=['arguments', 'arguments_many', 'split'],
    opts={'all': {'unwind': 64, 'max_instr': 300000}},
    split={'quick': 12, 'thorough': 16},
    budget={'quick': 280, 'thorough': 2600},
    validate=['arguments', 'arguments_many', 'split'],
)]
UNITS.append(dict(
    name='exec', harness='harness/c20_args.cpp', sources=SRC, native=False,
    defines={'quick': {}, 'thorough': {}}, entries=['exec_args', 'exit_code'],
    opts={'all': {'unwind': 64, 'max_instr': 300000, 'check_leaks': False, 'overrides': {'vfork': 'vf_vfork', 'execvpe': 'vf_execvpe', '_exit': 'vf_exit_check'}}},
    split={'quick': 4, 'thorough': 4}, budget={'quick': 120, 'thorough': 120}, validate=[],
))
BOUNDS = {
    'quick': 'argument vectors of <= 2 strings (first <= 5 characters, second <= 2) over {-,=,a,b,x} in exactly sized objects, and of <= 4 strings of <= 2 characters each, option table {a: flag/--aa, b: required argument/--bb, --xx: optional argument} vs. a getopt_long-style reference ("--flag=value" excluded as unspecified); command lines of <= 5 characters over {space, ", \\\\, a} vs. a reference splitter; termination via the instruction budget; exec boundary: the three forms of Process::open (argc/argv with and without terminating null, List<String>, command line with a quoted word) with and without an environment map, vfork()/execvpe() stubbed: executable, argument vector and environment that reach execvpe are exactly the ones given',
    'thorough': 'argument vectors of <= 3 strings (first <= 6 characters, others <= 3) and of <= 5 strings of <= 2 characters; command lines <= 7 characters',
}
OUTSIDE = 'what the kernel does after execvpe(): pipes, end-of-file on redirected streams, exit codes of real child processes, descriptor inheritance (kernel behaviour: not applicable to solver-based checking, DESIGN section 4); longer argument vectors'
ASSUMPTIONS = ['clang++-14 -O1 IR of src/Process.cpp (Arguments::read/nextChar, Private::splitCommandLine only are executed), src/String.cpp, src/Memory.cpp']

TECHNIQUE = 'solver-based bounded symbolic execution of clang-14 LLVM IR for option parsing and command-line splitting (symbolic argument bytes, z3, native replay); the exec-boundary unit runs the real Process::open/exit on stubbed vfork/execvpe/_exit with concrete arguments (enumeration of the call forms; one symbolic exit code)'
