"""C08: Buffer is a faithful byte queue with a terminator and no stray writes."""
UNITS = [dict(
    name='buffer', harness='harness/c08_buffer.cpp', sources=['repo:src/Memory.cpp'],
    defines={'quick': {'VF_K': 2, 'VF_MAXN': 2, 'VF_CAPB': 3}, 'thorough': {'VF_K': 3, 'VF_MAXN': 2, 'VF_CAPB': 5}},
    entries=['history', 'step', 'self_args'],
    opts={'all': {'unwind': 64}},
    split={'quick': 8, 'thorough': 16},
    budget={'quick': 280, 'thorough': 2600},
    validate=['history', 'step'],
)]
BOUNDS = {
    'quick': 'two Buffers + one 4-byte external range; histories of <= 2 operations (append/prepend/assign/=/resize/reserve/removeFront/removeBack/clear/free/swap/copy/attach/append(Buffer)/prepend(Buffer)/==) from {default, Buffer(cap<=2), Buffer(data,<=2)}; <= 2 operations from every owned window with capacity <= 3 (all start/end offsets); data bytes symbolic, sizes <= current size + 3',
    'thorough': 'histories of <= 3 operations; windows with capacity <= 5',
}
OUTSIDE = 'buffers longer than ~10 bytes, self-referential arguments (a.append(a data pointer)), allocation failure'
ASSUMPTIONS = ['clang++-14 -O1 IR of include/nstd/Buffer.hpp + src/Memory.cpp; memcpy/memmove/memset are engine built-ins that check every byte range against the object bounds',
               'every heap object is exactly as large as requested, with guard gaps (an access one byte past an allocation or the attached range is a violation)',
               'bytes exposed by a growing resize are unspecified (not compared)']
