"""C17: SHA-256 and HMAC-SHA-256 equal the standard for every input and chunking."""
SRC = ['repo:src/Memory.cpp']
TR = '_ZN6Sha2567Private9TransformEPjPKj'
def unit(name, entries, override, quick, thorough):
    return dict(
        name=name, harness='harness/c17_sha.cpp', sources=SRC, flags=['-fno-inline'],
        defines={'quick': quick, 'thorough': thorough},
        entries=entries,
        opts={'all': {'unwind': 400, 'overrides': ({TR: 'vf_uf256'} if override else {}), 'max_instr': 3000000, 'timeout_ms': 120000}},
        split={'quick': 12, 'thorough': 16},
        budget={'quick': 280, 'thorough': 2600},
        validate=entries[:1] if name != 'compress' else ['vectors'],
    )
UNITS = [
    unit('stream', ['streaming', 'hmac'], True, {'VF_ALLLENS': 0, 'VF_MAXLEN': 70, 'VF_HMACKEY': 70, 'VF_HMACMSG': 3}, {'VF_ALLLENS': 1, 'VF_MAXLEN': 130, 'VF_HMACKEY': 200, 'VF_HMACMSG': 70}),
    unit('compress', ['transform', 'lemmas', 'vectors'], False, {'VF_ALLLENS': 0, 'VF_MAXLEN': 70, 'VF_HMACKEY': 70, 'VF_HMACMSG': 3}, {'VF_ALLLENS': 0, 'VF_MAXLEN': 70, 'VF_HMACKEY': 70, 'VF_HMACMSG': 3}),
]
BOUNDS = {
    'quick': 'streaming layer exact for arbitrary content: 24 message lengths around every padding boundary (0..3, 31..33, 54..57, 62..66, 118..121, 127..130), every 2- and 3-way chunking of each, reuse after finalize and after reset, hash(); HMAC for key lengths {0,1,31,32,33,63,64,65,66,70} x message lengths 0..3; compression function: all 768 input bits symbolic against a FIPS 180-4 reference',
    'thorough': 'every message length 0..130 with every 2- and 3-way chunking; HMAC key lengths additionally {119,120,127,128,129,200}, message lengths 0..70',
}
OUTSIDE = 'messages longer than 130 bytes (count arithmetic is 64-bit and uniform beyond the second block), key lengths other than the listed classes'
ASSUMPTIONS = ['unit stream: Sha256::Private::Transform is replaced at IR level by an uninterpreted function F(state, block) (the same F is folded by the FIPS-padding reference), so equality is exact for every content and independent of the compression function',
               'unit compress: the real Transform is executed on 768 symbolic bits and compared word by word with a reference written from FIPS 180-4',
               'clang++-14 -O1 -fno-inline IR of src/Crypto/Sha256.cpp (included by the harness TU) and include/nstd/Crypto/Sha256.hpp']

TECHNIQUE = 'symbolic execution of the real update/finalize/hmac IR over symbolic message bytes with the compression function as an uninterpreted z3 function; digest equality decided by z3 (term normal forms of the folded applications, SMT query otherwise); Transform compared with a FIPS reference structurally + solver-proved Ch/Maj lemmas'
def finish_evidence(ev, results):
    ev['coverage']['explanation'] = ('streaming/hmac: every path carries up to 130 symbolic message bytes; implementation digest and reference digest are both nested '
        'applications sha256_compress(state, block) of one uninterpreted function, and z3 reduces both to the same normal form, so most assertions are decided by the z3 '
        'rewriter (counted under assertions_concrete) and only the remainder by SMT queries. transform: the 64-round terms of the real Transform and of the FIPS-structured '
        'reference normalise to identical terms over 768 symbolic bits; the algebraic forms of Ch/Maj used by both are proved equal to the FIPS definitions by the solver (entry lemmas). '
        'A semantic change of Transform yields a satisfiable miter: the current model or a random input vector distinguishes the two and is replayed natively.')
