"""C14: the event loop honours timers, removals, readiness and interrupts."""
SRC = ['repo:src/String.cpp', 'repo:src/Memory.cpp', 'repo:src/Mutex.cpp', 'repo:src/Time.cpp', 'repo:src/Error.cpp']
UNITS = [dict(
    name='loop', harness='harness/c14_loop.cpp', sources=SRC, native=False,
    defines={'quick': {'VF_NT': 3, 'VF_ACT': 4}, 'thorough': {'VF_NT': 3, 'VF_ACT': 6}},
    entries=['timers', 'clients', 'accept_connect', 'interrupts', 'closed_timer', 'zero_interval'],
    opts={'all': {'unwind': 64, 'max_instr': 1500000, 'preempt': 2}},
    split={'quick': 14, 'thorough': 16},
    budget={'quick': 285, 'thorough': 3000},
    reach={'interrupts': ['end', 'before', 'during']},
    validate=[],
)]
import copy as _copy
from props import C13 as _C13
_w = _copy.deepcopy([u for u in _C13.UNITS if u['name'] == 'server'][0]); _w['name'] = 'server_writes'
UNITS.append(_w)      # "writable-with-backlog sockets are eventually dispatched": the write path histories of C13 (interest == {read unless suspended} + {write iff backlog} after every step)
BOUNDS = {
    'quick': '<= 3 timers with intervals in {1,2,3} ticks (coinciding due times), optional removal of one timer before run(), every activation may remove any timer (itself included), the loop is interrupted after 4 activations; 2 clients readable in one poll round (or one peer closed) whose callbacks remove themselves / the other client with its event pending; a listener with/without a pending connection (accepted or refused by the callback) and an establisher whose connect has/has not completed, then data for the accepted client; interrupt() before run, repeatedly, and from a second thread (every interleaving with <= 2 preemptions)',
    'thorough': 'interrupt after 6 activations',
}
OUTSIDE = 'real epoll/TCP behaviour (kernel model), resolver futures (not exercised), connect errors other than success, more than 3 timers or 2 clients, long-running drift of the clock'
ASSUMPTIONS = ['real src/Socket/Server.cpp and src/Socket/Socket.cpp incl. the epoll based Poll, MultiMap, PoolList, HashSet; kernel calls, clock and threads are engine models; time passes only in epoll_wait time-outs',
               'no native replay (counterexamples are choice/schedule sequences re-executed by the engine)']

TECHNIQUE = 'exhaustive bounded enumeration of timer / client / listener histories, callback actions and interrupt timings of the real Server.cpp + Socket.cpp IR on an engine model of sockets, epoll, eventfd and the clock; discrete choices only, no solver query is discharged (enumeration, not symbolic reasoning)'
LEVEL_TEXT = 'Bounded model checking by exhaustive enumeration of every history of creations, removals from callbacks, readiness orders and interrupt timings within the bound on the real IR over a kernel + clock model; values are concrete, the solver is not consulted; counterexamples are choice sequences re-executed by the engine (two of the repaired defects were additionally reproduced natively by hand).'
