"""C12: signals reach exactly the connected slots, safely under re-entrancy."""
UNITS = [dict(
    name='callback', harness='harness/c12_callback.cpp', sources=['repo:src/Callback.cpp', 'repo:src/Memory.cpp'],
    defines={'quick': {'VF_K': 2, 'VF_DEPTH': 2, 'VF_BUDGET': 2, 'VF_NSIG': 1}, 'thorough': {'VF_K': 2, 'VF_DEPTH': 2, 'VF_BUDGET': 3, 'VF_NSIG': 1}},
    entries=['history'],
    opts={'all': {'unwind': 64, 'max_instr': 600000}},
    split={'quick': 14, 'thorough': 16},
    budget={'quick': 285, 'thorough': 3000},
    validate=['history'],
)]
BOUNDS = {
    'quick': '2 emitters x 1 signal (thorough: 2), 3 listeners x 2 slots, two initial connections; outer histories of <= 2 actions (connect / disconnect / emit / destroy listener / destroy emitter) where every invoked slot performs one further chosen action, nested to depth 2, at most 2 non-trivial slot actions per run; after every outer action both sides\' private bookkeeping is compared with the model; a final emission of every live signal',
    'thorough': 'outer histories <= 2, nesting depth 2, 3 slot actions (3 outer operations, and depth 3 with two signals per emitter, were measured: no verdict within 40-50 min, millions of histories, no violation - not registered)',
}
OUTSIDE = 'more emitters/listeners/slots than listed, signals with arguments (same code path with forwarded arguments), more nested actions than the budget'
ASSUMPTIONS = ['clang++-14 -O1 IR of src/Callback.cpp + include/nstd/Callback.hpp with the real Map and List; member-function pointers are Itanium-ABI pairs whose bytes are compared with the engine\'s memcmp',
               'the model: an emission reaches, in connection order, the connections made before the outermost emission of that signal in progress began that are still live at their turn']

TECHNIQUE = 'bounded exhaustive exploration of operation histories by the symbolic executor on the real IR (all choices in this harness are structural, so paths are concrete: no solver query is needed), native replay of counterexamples'
LEVEL_TEXT = 'Bounded model checking by exhaustive exploration of every action history within the bound on the real Callback.cpp IR; the harness has no scalar inputs (connections, emissions and destructions are discrete choices), so every path is concrete and the solver is not consulted - stated plainly: for this property the engine enumerates schedules, it does not reason symbolically over data.'
