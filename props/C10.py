"""C10: every Future call runs exactly once and join waits for its result."""
SRC = ['repo:src/Signal.cpp', 'repo:src/Thread.cpp', 'repo:src/Mutex.cpp', 'repo:src/Time.cpp', 'repo:src/System.cpp', 'repo:src/Memory.cpp']
UNITS = [dict(
    name='future', harness='harness/c10_future.cpp', sources=SRC, native=False,
    defines={'quick': {'VF_CJOBS': 1}, 'thorough': {'VF_CJOBS': 2}},
    entries=['queue', 'future_one', 'future_two', 'backpressure'],
    opts={'quick': {'unwind': 64, 'max_instr': 400000, 'preempt': 1, 'ignore_unfinished_threads': True, 'check_leaks': False}, 'thorough': {'unwind': 64, 'max_instr': 400000, 'preempt': 2, 'ignore_unfinished_threads': True, 'check_leaks': False}},
    split={'quick': 14, 'thorough': 16},
    budget={'quick': 285, 'thorough': 3300},
    validate=[],
)]
BOUNDS = {
    'quick': 'LockFreeQueue<int> of capacity 2 with 2 producers x 2 pushes and 1 consumer x 2 pops + drain; one Future<int> started, converted, restarted and joined on the real lazily created pool; two futures from main (one optionally aborted) plus one from a second client thread; ThreadPool(0,3,capacity 1..2) with 2 client threads x 2 jobs (full queue back-pressure, worker start, worker sleep/wake, pool destruction); every interleaving with <= 1 preemption (thorough: 2) at atomic/volatile accesses and pthread calls, blocking and yielding switches free',
    'thorough': '<= 2 preemptions',
}
OUTSIDE = 'more than ~4 threads, preemptions beyond the bound, the idle-time based shrinking of the pool (Time::ticks is a model clock that only advances on time-outs), Thread::start failure, weak memory'
ASSUMPTIONS = ['real src/Future.cpp (included by the harness TU), include/nstd/Future.hpp, Call.hpp, src/Signal.cpp, Thread.cpp, Mutex.cpp on the pthread model; System::getProcessorCount() -> 2 (pool maximum 3)',
               'sequential consistency; no native replay (schedules are re-executed by the engine)']
