"""C10: every Future call runs exactly once and join waits for its result."""
SRC = ['repo:src/Signal.cpp', 'repo:src/Thread.cpp', 'repo:src/Mutex.cpp', 'repo:src/Time.cpp', 'repo:src/System.cpp', 'repo:src/Memory.cpp']
UNITS = [dict(
    name='future', harness='harness/c10_future.cpp', sources=SRC, native=False,
    defines={'quick': {'VF_CJOBS': 1}, 'thorough': {'VF_CJOBS': 2}},
    entries=['queue', 'future_one', 'future_heap', 'future_two', 'backpressure'],
    opts={'quick': {'unwind': 64, 'max_instr': 400000, 'preempt': 1, 'ignore_unfinished_threads': True, 'check_leaks': False}, 'thorough': {'unwind': 64, 'max_instr': 400000, 'preempt': 1, 'ignore_unfinished_threads': True, 'check_leaks': False}},
    split={'quick': 14, 'thorough': 16},
    budget={'quick': 285, 'thorough': 3300},
    validate=[],
), dict(
    name='future_deep', harness='harness/c10_future.cpp', sources=SRC, native=False, tiers=('thorough',),
    defines={'thorough': {'VF_CJOBS': 1}},
    entries=['queue', 'future_one', 'future_heap'],
    opts={'thorough': {'unwind': 64, 'max_instr': 400000, 'preempt': 2, 'ignore_unfinished_threads': True, 'check_leaks': False}},
    split={'thorough': 16},
    budget={'thorough': 1500},
    validate=[],
), dict(
    name='pool_shrink', harness='harness/c10_future.cpp', sources=SRC, native=False,
    defines={'quick': {'VF_ROUNDS': 4}, 'thorough': {'VF_ROUNDS': 6}},
    entries=['shrink'],
    opts={'quick': {'unwind': 64, 'max_instr': 600000, 'preempt': 0, 'ignore_unfinished_threads': True, 'check_leaks': False}, 'thorough': {'unwind': 64, 'max_instr': 900000, 'preempt': 0, 'ignore_unfinished_threads': True, 'check_leaks': False}},
    split={'quick': 14, 'thorough': 16},
    budget={'quick': 285, 'thorough': 3300},
    validate=[],
)]
BOUNDS = {
    'quick': 'LockFreeQueue<int> of capacity 2 with 2 producers x 2 pushes and 1 consumer x 2 pops + drain; one Future<int> started, converted, restarted and joined on the real lazily created pool; two futures from main (one optionally aborted) plus one from a second client thread; ThreadPool(0,3,capacity 1..2) with 2 client threads x 2 jobs (full queue back-pressure, worker start, worker sleep/wake, pool destruction); every interleaving with <= 1 preemption (thorough: 2) at atomic/volatile accesses and pthread calls, blocking and yielding switches free; pool sizing: three blocking calls grow ThreadPool(0,3,8) to three workers, then 4 single calls each arrive after an idle period of 3 s on the model clock (workers retire), every call must still be executed - every choice of the thread that runs next at blocking/yielding points, no preemption',
    'thorough': 'two jobs per pool client with <= 1 preemption; queue / one future / heap future with <= 2 preemptions (two futures and back-pressure with 2 preemptions were measured: no verdict within 55 min, 70 million schedules, no violation - not registered); pool sizing with 6 idle rounds',
}
OUTSIDE = 'more than ~4 threads, preemptions beyond the bound, preemptions inside the pool-sizing scenario (its interleavings are limited to the choice of the next thread at blocking points), real elapsed time (Time::ticks reads a model clock that the harness advances explicitly), Thread::start failure, weak memory'
ASSUMPTIONS = ['real src/Future.cpp (included by the harness TU), include/nstd/Future.hpp, Call.hpp, src/Signal.cpp, Thread.cpp, Mutex.cpp on the pthread model; System::getProcessorCount() -> 2 (pool maximum 3)',
               'sequential consistency; no native replay (schedules are re-executed by the engine)']

TECHNIQUE = 'exhaustive bounded enumeration of thread schedules (preemption bound) of the real Future.cpp / Signal.cpp / Thread.cpp IR on an engine model of pthreads by the symbolic executor; the harnesses have no symbolic data, so no solver query is discharged (stated plainly: schedule enumeration, not symbolic reasoning); counterexample schedules are re-executed concretely by the engine'
LEVEL_TEXT = 'Bounded model checking by exhaustive enumeration of every thread schedule within the preemption bound on the real Future.cpp IR over a pthread model with sequential consistency; all values are concrete, the solver is not consulted (queries_discharged = 0 in the evidence); deadlock = all live threads blocked; counterexamples are schedules re-executed by the engine, not native runs.'
