"""C19: paths, files and directories (lexical path functions; see DESIGN for the parts not claimed)."""
SRC = ['repo:src/File.cpp', 'repo:src/String.cpp', 'repo:src/Memory.cpp']
UNITS = [dict(
    name='paths', harness='harness/c19_paths.cpp', sources=SRC, native_sources=SRC + ['repo:src/Directory.cpp', 'repo:src/Error.cpp'],
    defines={'quick': {'VF_PL': 4, 'VF_RL': 3}, 'thorough': {'VF_PL': 6, 'VF_RL': 4}},
    entries=['simplify', 'decompose', 'relative'],
    opts={'all': {'unwind': 64}},
    split={'quick': 12, 'thorough': 16},
    budget={'quick': 280, 'thorough': 2600},
    validate=['simplify', 'relative'],
)]
UNITS.append(dict(
    name='dirs', harness='harness/c19_fs.cpp', sources=SRC + ['repo:src/Directory.cpp', 'repo:src/Error.cpp', 'repo:src/Mutex.cpp'], native=False,
    defines={'quick': {}, 'thorough': {}}, entries=['create', 'unlink_tree', 'rename_', 'copy_'],
    opts={'all': {'unwind': 64}}, split={'quick': 8, 'thorough': 16}, budget={'quick': 280, 'thorough': 2600}, validate=[],
))
BOUNDS = {
    'quick': 'all path strings of <= 4 characters over {/, \\\\, ., a, b} for simplifyPath (idempotent + same denotation) and the decomposition functions; all pairs (from, to) of <= 3 characters each, both relative or both absolute, from not climbing above its start, for getRelativePath; Directory::create("a/b/c" | "a" | "a/b/") from 6 pre-existing layouts (incl. a file or a symbolic link in the way) with any one mkdir refused; Directory::unlink on a tree with optional file, sub-directory, symbolic links to an outside directory/file, recursive and not, with any one unlink refused',
    'thorough': 'paths <= 6 characters, pairs <= 4 characters each',
}
OUTSIDE = 'longer paths, drive-letter prefixes, File content operations (write/append/seek/readAll/copy/rename: kernel behaviour, not claimed), real file systems (the directory tree is a POSIX model of mkdir/rmdir/unlink/stat/lstat/opendir/readdir)'
ASSUMPTIONS = ['clang++-14 -O1 IR of src/File.cpp (path functions only are executed), src/String.cpp, src/Memory.cpp']

TECHNIQUE = 'solver-based bounded symbolic execution of clang-14 LLVM IR for the path functions (symbolic path bytes, z3, native replay); the directory and rename parts are exhaustive enumerations of concrete layouts and injected failures on an engine model of the POSIX directory tree (no solver there)'
