"""experiment (not registered): C10 back-pressure / two futures with 2 preemptions, after the FastSignal change"""
import copy
from props import C10
u = copy.deepcopy(C10.UNITS[0]); u['entries'] = ['backpressure', 'future_two']; u['defines'] = {'thorough': {'VF_CJOBS': 1}}
u['opts'] = {'thorough': dict(C10.UNITS[0]['opts']['quick'], preempt=2)}; u['budget'] = {'thorough': 2400}; u['split'] = {'thorough': 16}; u['tiers'] = ('thorough',)
UNITS = [u]
BOUNDS = {'quick': 'n/a', 'thorough': 'experiment'}; OUTSIDE = 'experiment'; ASSUMPTIONS = []
