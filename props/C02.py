"""C02: HashMap / HashSet / PoolMap behave as insertion-ordered unique-key tables."""
def unit(name, kind, tracked=0, entries=None):
    return dict(
        name=name, harness='harness/c02_hash.cpp', sources=['repo:src/Memory.cpp'],
        defines={'all': {'KIND': kind, 'TRACKED': tracked}, 'quick': {'VF_K': 2, 'VF_CAPS': 2, 'VF_HRANGE': 2, 'VF_NA': 2, 'VF_NB': 1}, 'thorough': {'VF_K': 3, 'VF_CAPS': 2, 'VF_HRANGE': 2, 'VF_NA': 3, 'VF_NB': 2}},
        entries=entries or ['history', 'step', 'capacities'],
        opts={'all': {'unwind': 64}},
        split={'quick': 8, 'thorough': 16},
        budget={'quick': 280, 'thorough': 2600},
        validate=['history'],
    )
UNITS = [unit('hashmap', 1), unit('hashset', 2), unit('poolmap', 3),
         dict(name='strhash', harness='harness/c02_strhash.cpp', sources=['repo:src/Memory.cpp', 'repo:src/String.cpp'],
              defines={'quick': {'VF_SL': 2}, 'thorough': {'VF_SL': 2}}, entries=['strhash'], opts={'all': {'unwind': 64, 'timeout_ms': 30000}},
              split={'quick': 8, 'thorough': 16}, budget={'quick': 280, 'thorough': 2600}, validate=['strhash'])]
BOUNDS = {
    'quick': 'two tables with capacities in {1,2} (plus 0->1, 7, 500 in the capacities entry); histories of <= 2 operations after a pre-fill of <= 1, one operation from pre-fills of 0..2/0..1 distinct entries (thorough: 0..3/0..2); keys 32-bit symbolic, each distinct key value gets every hash residue modulo lcm(capacities) (every bucket layout incl. all-colliding); values 32-bit symbolic',
    'thorough': 'histories of <= 3 operations, one operation from pre-fills of 0..3/0..2 distinct entries',
}
OUTSIDE = 'tables with more than ~6 entries, strings longer than 2-3 bytes through the real string hash (unit strhash covers short symbolic strings in 2- and 4-bucket tables (power-of-two capacities: the multiplicative string hash modulo 3 is beyond both solver back ends)), allocation failure'
ASSUMPTIONS = ['clang++-14 -O1 IR of include/nstd/HashMap.hpp, HashSet.hpp, PoolMap.hpp instantiated with Key{int v; usize h} and int values',
               'hash(Key) returns a per-key residue chosen over all values modulo lcm(capacities); equal keys are constrained to equal hashes, nothing else', 'operator new[] never fails',
               'library ASSERT()s enabled (no NDEBUG)']
