"""C04: containers construct and destroy each element exactly once; copies are deep (all eight container templates)."""
from props import C02, C03
def seq(name, cont):
    u = C03.unit(name, cont, tracked=1, entries=['history', 'step'] + (['sort'] if cont == 1 else []) + (['self_args'] if cont != 3 else []))
    u['defines'] = {'all': {'CONT': cont, 'TRACKED': 1}, 'quick': {'VF_K': 2, 'VF_N': 4, 'VF_SORTN': 4}, 'thorough': {'VF_K': 3, 'VF_N': 7, 'VF_SORTN': 6}}
    u['validate'] = ['step']
    return u
def hsh(name, kind):
    u = C02.unit(name, kind, tracked=1, entries=['history', 'step'])
    u['defines'] = {'all': {'KIND': kind, 'TRACKED': 1}, 'quick': {'VF_K': 2, 'VF_CAPS': 2, 'VF_HRANGE': 2, 'VF_NA': 2, 'VF_NB': 1}, 'thorough': {'VF_K': 3, 'VF_CAPS': 2, 'VF_HRANGE': 2, 'VF_NA': 3, 'VF_NB': 1}}
    u['validate'] = ['step']
    return u
def mp(name, multi):
    return dict(name=name, harness='harness/c04_map.cpp', defines={'all': {'MULTI': multi}, 'quick': {'VF_K': 2}, 'thorough': {'VF_K': 3}},
                entries=['history', 'self_args'], opts={'all': {'unwind': 64, 'max_instr': 400000}}, split={'quick': 8, 'thorough': 16},
                budget={'quick': 280, 'thorough': 2600}, validate=['history'])
UNITS = [seq('list', 1), seq('array', 2), seq('poollist', 3), hsh('hashmap', 1), hsh('hashset', 2), hsh('poolmap', 3), mp('map', 0), mp('multimap', 1)]
UNITS.append(dict(name='nested', harness='harness/c04_nested.cpp', sources=['repo:src/Memory.cpp'], defines={'quick': {}, 'thorough': {}},
                  entries=['nested_assign', 'nested_append'], opts={'all': {'unwind': 64}}, split={'quick': 4, 'thorough': 4},
                  budget={'quick': 120, 'thorough': 120}, validate=['nested_assign']))
for u in UNITS: u.setdefault('opts', {}).setdefault('all', {})['max_instr'] = 400000
BOUNDS = {
    'quick': 'the C01-C03 history/step harnesses instantiated with a ledger element type (every construction/copy/assignment/destruction checked against a table of live objects, each element owns one heap cell) for all eight container templates, <= 2 operations, <= 4-5 elements; plus arguments owned by one of the own elements of the container (tree nodes with a child container: l = l.front().kids for six templates, Array append/resize with a[0].kids[...] at every fill level); plus self-assignment, a.append(a), a.insert(pos,a), append/resize with a reference to an own element across a reallocation, map.insert(map), insert(key,value) with references into the map; engine heap checks: double free, use after free, leak at harness exit',
    'thorough': '<= 3 operations, <= 7 elements',
}
OUTSIDE = 'element types with throwing constructors, allocation failure, more elements than the bound'
ASSUMPTIONS = ['same IR lowering as C01-C03 with Tracked elements/keys; the ledger is harness code, the heap checks are the engine\'s']
