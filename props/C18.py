"""C18: text codecs and numeric conversions are exact inverses and bounds-safe."""
UNITS = [dict(
    name='codecs', harness='harness/c18_codecs.cpp', sources=['repo:src/String.cpp', 'repo:src/Memory.cpp'],
    defines={'quick': {'VF_B64N': 3, 'VF_B64ARB': 4, 'VF_UTFN': 4}, 'thorough': {'VF_B64N': 12, 'VF_B64ARB': 12, 'VF_UTFN': 9}},
    entries=['utf8_roundtrip', 'utf8_bounds', 'hex', 'base64_roundtrip', 'base64_arbitrary', 'ints', 'int_text'],
    opts={'all': {'unwind': 64}},
    split={'quick': 8, 'thorough': 16},
    budget={'quick': 280, 'thorough': 2600},
    validate=['utf8_roundtrip', 'base64_roundtrip'],
)]
BOUNDS = {
    'quick': 'all code points <= U+10FFFF (one symbolic 32-bit value, four range classes) and all values above; arbitrary byte buffers of <= 4 bytes in exactly sized objects for length/isValid/fromString; fromHex of <= 3 symbolic bytes; base64 round trip of <= 3 symbolic bytes and arbitrary input strings of <= 4 bytes (every byte value incl. >= 0x80 and NUL); full-range symbolic 32/64-bit integers through fromInt/UInt/Int64/UInt64 and back',
    'thorough': 'UTF-8 buffers <= 9 bytes, base64 round trip <= 12 bytes, arbitrary base64 input <= 12 bytes',
}
OUTSIDE = 'longer inputs; libc itself: vsnprintf / atoi / atoll / strtoul / strtoull are replaced by reference models, so what is decided for the integer conversions is the glue (format string, width, signedness, buffer handling of String::printf)'
ASSUMPTIONS = ['clang++-14 -O1 IR of include/nstd/Unicode.hpp, src/String.cpp (fromHex, fromBase64, fromInt..., printf), src/Memory.cpp',
               'vsnprintf and the ato*/strto* family are engine models written from the C standard (decimal digits tied to the value by sum(d_i*10^i) == |v|)',
               'surrogate code points are encoded as generalised UTF-8 (the library does not reject them)']
