"""C06: String is an independent byte-string value matching a reference model."""
UNITS = [dict(
    name='string', harness='harness/c06_string.cpp', sources=['repo:src/String.cpp', 'repo:src/Memory.cpp'],
    defines={'quick': {'VF_K': 1, 'VF_L': 2, 'VF_KS': 2}, 'thorough': {'VF_K': 2, 'VF_L': 2, 'VF_KS': 3}},
    entries=['history', 'sharing', 'queries', 'tokens', 'format', 'misc', 'embedded_nul'],
    opts={'all': {'unwind': 64}},
    split={'quick': 12, 'thorough': 16},
    budget={'quick': 280, 'thorough': 2600},
    validate=['history', 'queries'],
)]
BOUNDS = {
    'quick': 'three String variables (empty / literal-attached / owned, optionally sharing one buffer), 1 mutating operation (thorough: 2) out of 20, plus histories of <= 2 (thorough: 3) of the 10 sharing-related operations, (assignment, append/prepend of String|buffer|char incl. self arguments, attach, clear, resize, reserve, replace(char), case mapping, trim, substr, copy+modify, replace(String,String), C-string view, construction from literal/buffer/fill), every variable + attached memory + literal compared after every operation; printf/fromPrintf with a symbolic string and integer incl. the >200-byte retry path; read-only queries and token/split/join on NUL-free symbolic strings of length <= 3/4',
    'thorough': 'histories of <= 2 operations out of 20 and <= 3 sharing-related operations',
}
OUTSIDE = 'strings longer than ~8 bytes, bytes equal to NUL (the C-string based searches are specified for NUL-free text), libc number formatting itself (reference model, see C18), allocation failure'
ASSUMPTIONS = ['clang++-14 -O1 IR of include/nstd/String.hpp + src/String.cpp + src/Memory.cpp; libc string functions (strstr, strchr, strpbrk, memcmp...) are engine built-ins written from their man-page contract',
               'attached ranges are followed by one readable byte (operator const char* peeks at str[len])',
               'all symbolic data bytes are non-NUL']
