"""C03: List, Array and PoolList hold exactly the reference sequence."""
def unit(name, cont, tracked=0, entries=None):
    return dict(
        name=name, harness='harness/c03_seq.cpp',
        defines={'all': {'CONT': cont, 'TRACKED': tracked}, 'quick': {'VF_K': 3, 'VF_N': 5, 'VF_SORTN': 5}, 'thorough': {'VF_K': 4, 'VF_N': 9, 'VF_SORTN': 7}},
        entries=entries or (['history', 'step'] + (['sort'] if cont == 1 else []) + (['self_args'] if cont != 3 else [])),
        opts={'all': {'unwind': 64}},
        split={'quick': 5, 'thorough': 16},
        budget={'quick': 280, 'thorough': 2600},
        validate=['history'],
    )
UNITS = [unit('list', 1), unit('array', 2), unit('poollist', 3)]
BOUNDS = {
    'quick': 'two containers; histories of <= 3 operations (all of append/prepend/insert(pos)/insert(pos,list)/remove(index|value|iterator)/removeFront/Back/resize/reserve/clear/swap/copy/assign/find/==) after a symbolic pre-fill of <= 2; <= 2 operations from every pre-state length 0..5; List::sort on <= 5 symbolic ints; values full 32-bit symbolic',
    'thorough': 'histories of <= 4 operations; pre-state lengths 0..9 (Array growth boundaries 3|7|11); sort on <= 7 symbolic ints',
}
OUTSIDE = 'sequences longer than the bound, element types with throwing copy, allocation failure'
ASSUMPTIONS = ['clang++-14 -O1 IR of include/nstd/List.hpp, Array.hpp, PoolList.hpp instantiated with int', 'operator new[] never fails',
               'library ASSERT()s enabled (no NDEBUG)']
