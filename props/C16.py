"""C16: XML parsing is total and safe; serialising then parsing is identity."""
SRC = ['repo:src/String.cpp', 'repo:src/Memory.cpp']
UNITS = [dict(
    name='xml', harness='harness/c16_xml.cpp', sources=SRC, native_sources=SRC + ['repo:src/Error.cpp', 'repo:src/File.cpp', 'repo:src/Directory.cpp'],
    defines={'quick': {'VF_LEN': 5, 'VF_ELEN': 2}, 'thorough': {'VF_LEN': 7, 'VF_ELEN': 4}},
    entries=['parse_safety', 'error_position', 'comments', 'escape_roundtrip', 'unescape_safety', 'roundtrip', 'copies'],
    opts={'all': {'unwind': 64}},
    split={'quick': 12, 'thorough': 16},
    budget={'quick': 280, 'thorough': 2600},
    validate=['parse_safety', 'escape_roundtrip'],
)]
BOUNDS = {
    'quick': 'every NUL-terminated text of <= 5 arbitrary non-NUL bytes in an exactly sized object through Xml::Private::parse; unescape(escape(s)) for every s of <= 2 non-NUL bytes; unescapeString on every text of <= 6 characters over {&,#,;,6,5,l,t,x}; element trees of <= 3 elements, <= 2 attributes (concrete names), attribute values / non-blank text of <= 2 symbolic bytes, plus one fixed tree with quotes, ampersands, angle brackets and line breaks; six fixed documents with comments and processing instructions; copy independence of Xml::Variant',
    'thorough': 'texts <= 7 bytes, escape round trip <= 4 bytes',
}
OUTSIDE = 'longer texts / deeper trees (nesting depth 1000 not reached), File-based load/save, symbolic element or attribute names'
ASSUMPTIONS = ['clang++-14 -O1 IR of src/Document/Xml.cpp (included by the harness TU), src/String.cpp, src/Memory.cpp + headers', 'vsnprintf / vsscanf / strpbrk are engine models', 'text bytes are non-NUL']
