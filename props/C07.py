"""C07: Variant keeps the last assigned value with independent lazy copies."""
SRC = ['repo:src/Variant.cpp', 'repo:src/String.cpp', 'repo:src/Memory.cpp']
UNITS = [dict(
    name='variant', harness='harness/c07_variant.cpp', sources=SRC,
    defines={'quick': {'VF_K': 2}, 'thorough': {'VF_K': 3}},
    entries=['scalars', 'copies', 'nested_assign', 'self_nesting'],
    opts={'all': {'unwind': 64}},
    split={'quick': 12, 'thorough': 16},
    budget={'quick': 280, 'thorough': 2600},
    validate=['scalars', 'copies'],
)]
BOUNDS = {
    'quick': 'every scalar alternative with a full-range symbolic value (doubles: all half-integers in int range), its coercions, decimal string round trips; three Variant variables (two sharing a heap payload), histories of <= 2 operations (assign any of 9 alternatives incl. list/array/map of Variants, copy, copy-construct, swap, mutable toString/toList/toArray/toMap followed by a mutation), snapshot of every other variable compared before/after each operation, equality with copies',
    'thorough': 'histories of <= 3 operations',
}
OUTSIDE = 'NaN, doubles outside int range (C++ conversion undefined), containers nested deeper than one level, libc number formatting (reference models, see C18)'
ASSUMPTIONS = ['clang++-14 -O1 IR of include/nstd/Variant.hpp + containers + String; printf/strto* are engine models']
