"""C11: Mutex, Semaphore, Signal, Monitor and Thread keep their contracts."""
SRC = ['repo:src/Mutex.cpp', 'repo:src/Semaphore.cpp', 'repo:src/Signal.cpp', 'repo:src/Monitor.cpp', 'repo:src/Thread.cpp']
UNITS = [dict(
    name='sync', harness='harness/c11_sync.cpp', sources=SRC, native=False,
    defines={'quick': {'VF_OPS': 1}, 'thorough': {'VF_OPS': 2}},
    entries=['mutex', 'semaphore', 'signal_', 'monitor', 'thread_restart', 'deadlines'],
    opts={'quick': {'unwind': 64, 'max_instr': 300000, 'preempt': 2, 'timeout_ms': 4000}, 'thorough': {'unwind': 64, 'max_instr': 300000, 'preempt': 3, 'timeout_ms': 4000}},
    split={'quick': 14, 'thorough': 16},
    budget={'quick': 285, 'thorough': 3000},
    validate=[],
)]
import copy as _copy
_u = _copy.deepcopy(UNITS[0]); _u['name'] = 'sync4'; _u['entries'] = ['signal_pulse', 'monitor2']
_u['opts'] = {'quick': dict(UNITS[0]['opts']['quick'], preempt=0), 'thorough': dict(UNITS[0]['opts']['thorough'], preempt=0)}
UNITS.append(_u)      # the scenarios that wait until n threads are blocked: every choice of the next thread at blocking / yielding points, no preemption (one preemption: 6.8 million schedules, no verdict in 5 min)
BOUNDS = {
    'quick': 'Mutex: 3 threads (two lock/unlock, one of them re-entrantly, one tryLock) + main; Semaphore: initial value 0..1, two waiters (wait / tryWait / timed wait) and one or two signals; Signal: initially set or not, two waiters (untimed / timed), one setter, then reset; Signal pulse: one or two threads blocked in wait(), then set(); reset() at once (all of them must return); Monitor with two waiters and two set() calls after both wait (4 threads, no preemption; the Signal pulse scenario runs under the same bound); Thread: start, refused second start, join result, restart after join; Monitor: 0..2 set() calls left pending, one waiter (untimed / timed) and one setter that sets after the waiter took the monitor; every interleaving with <= 2 preemptions at pthread calls and atomic accesses, spurious condition wake-ups and time-outs injected by the scheduler; deadline arithmetic of the three timed waits for every timeout in [0, 2^30) ms (one symbolic value, decided by the solver)',
    'thorough': '2 lock/unlock rounds per thread, <= 3 preemptions',
}
OUTSIDE = 'glibc / kernel behaviour (pthreads are a model written from POSIX: mutex with owner and recursion count honouring the attribute type, condition variable with waiter set, semaphore counter, thread create/join), weak memory, more than 4 threads'
ASSUMPTIONS = ['real src/Mutex.cpp, Semaphore.cpp, Signal.cpp, Monitor.cpp, Thread.cpp on the pthread model; sequential consistency; the clock is a model: time passes only when a timed wait times out',
               'no native replay: counterexamples are schedules re-executed by the engine']

TECHNIQUE = 'exhaustive bounded enumeration of thread schedules (preemption bound, injected spurious wake-ups and time-outs) of the real Mutex/Semaphore/Signal/Monitor/Thread IR on an engine model of pthreads; plus solver-decided deadline arithmetic for one symbolic timeout (z3, cvc5 --solve-bv-as-int as second back end)'
LEVEL_TEXT = 'Schedules: bounded model checking by exhaustive enumeration within the preemption bound on the real IR over a pthread model (no symbolic data, no solver). Deadline arithmetic of the three timed waits: one symbolic timeout in [0, 2^30) ms, both directions decided by the solver. Counterexample schedules are re-executed concretely by the engine.'
