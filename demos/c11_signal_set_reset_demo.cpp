// C11: Signal::set() releases all current waiters - also when reset() follows at once (manual-reset event).
// Build: g++ -std=c++11 -I/repo/include c11_signal_set_reset_demo.cpp /repo/src/Signal.cpp /repo/src/Thread.cpp /repo/src/Debug.cpp /repo/src/String.cpp /repo/src/Memory.cpp -lpthread
// Prints FAIL (exit 1) when a thread that was blocked in wait() at the time of set() is still blocked afterwards.
#include <nstd/Signal.hpp>
#include <nstd/Thread.hpp>
#include <stdio.h>

static Signal sig;
static volatile int done = 0;

static uint waiter(void*)
{
  sig.wait();
  done = 1;
  return 0;
}

int main()
{
  int failures = 0;
  for(int round = 0; round < 20; ++round)
  {
    done = 0;
    Thread t;
    t.start(waiter, 0);
    Thread::sleep(20);        // the waiter is blocked inside wait() now
    sig.set();
    sig.reset();
    for(int i = 0; i < 200 && !done; ++i) Thread::sleep(1);
    if(!done)
    {
      ++failures;
      sig.set();              // let the thread go
    }
    t.join();
    sig.reset();
  }
  if(failures) { printf("FAIL: in %d of 20 rounds the waiter stayed blocked after set(); reset()\n", failures); return 1; }
  printf("PASS\n");
  return 0;
}
