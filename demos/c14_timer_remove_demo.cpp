// demonstration for C14: Server::remove(Timer&) misses a timer among equal due times when MultiMap::find lands behind it
#include <nstd/Socket/Server.hpp>
#include <nstd/Time.hpp>
#include <cstdio>
static Server* g_server; static int g_calls[5]; static bool g_removed[5];
struct T : public Server::Timer::ICallback { int id; void onActivated() override { ++g_calls[id]; if(g_removed[id]) { printf("BUG: removed timer %d was activated\n", id); } if(id == 4) g_server->interrupt(); } };
int main() {
  int bugs = 0;
  for(int attempt = 0; attempt < 20 && !bugs; ++attempt) {
    Server server; g_server = &server; T t[5]; Server::Timer* h[5];
    for(int i = 0; i < 5; ++i) { t[i].id = i; g_calls[i] = 0; g_removed[i] = false; }
    int64 t0 = Time::ticks();
    h[3] = server.time(100000, t[3]);                              // a far timer first: shapes the tree
    for(int i = 0; i < 3; ++i) h[i] = server.time(20, t[i]);       // three timers due at the same tick
    if(Time::ticks() != t0) continue;                               // not in the same tick: try again
    h[4] = server.time(60, t[4]);                                  // stops the loop
    g_removed[0] = true; server.remove(*h[0]);
    server.run();
    printf("calls of removed timer 0: %d (timers 1,2: %d %d)\n", g_calls[0], g_calls[1], g_calls[2]);
    bugs += g_calls[0];
  }
  return bugs ? 1 : 0;
}
