// demonstration for C19: Directory::create returns true although the directory was not created (a file is in the way)
#include <nstd/Directory.hpp>
#include <nstd/File.hpp>
#include <cstdio>
#include <cstdlib>
#include <unistd.h>
int main() {
  char tmpl[] = "/tmp/nstd_create_demo_XXXXXX"; if(!mkdtemp(tmpl)) return 2;
  if(chdir(tmpl) != 0) return 2;
  File f; f.open(String("a"), File::writeFlag); f.write(String("x")); f.close();   // "a" is a regular file
  bool ok = Directory::create(String("a/b/c"));
  bool exists = Directory::exists(String("a/b/c"));
  printf("create(\"a/b/c\") returned %d, exists afterwards %d -> %s\n", ok, exists, ok == exists ? "PASS" : "FAIL");
  File::unlink(String("a")); chdir("/"); rmdir(tmpl);
  return ok == exists ? 0 : 1;
}
