// C19: Directory::create returns true exactly when the directory exists afterwards - also for the root and directly below it.
// Build: g++ -std=c++11 -I/repo/include c19_directory_create_root_demo.cpp <libnstd.a> -lpthread -ldl
#include <nstd/Directory.hpp>
#include <nstd/File.hpp>
#include <stdio.h>
int main()
{
  int fail = 0;
  if(!Directory::create("/")) { printf("FAIL: create(\"/\") = false although the directory exists\n"); ++fail; }
  if(!Directory::create("/tmp")) { printf("FAIL: create(\"/tmp\") = false although the directory exists\n"); ++fail; }
  if(!fail) printf("PASS\n");
  return fail ? 1 : 0;
}
